//! HttpPages engine: the real HTTP endpoints of a really running pipeline (`Manager::load/prepare/spawn` of
//! `bmp-tcp-in -> rib -> null-out`, tracing on) with routers really CONNECTED over loopback TCP
//! (127.0.0.<n> -> the unit's listener) that send real BMP messages (Initiation with arbitrary TLV bytes,
//! Peer Up, Route Monitoring), vs the Lean model `Model/HttpPages.lean`.
//!
//! Requests go through the real `Server::handle_request` against the manager's real resource registry:
//! the router list with many routers (`sort_by` / `sort_order`), the per-router pages by ingress id /
//! router id / sysName / address with the flags and prefixes blocks, `/status/graph[/traces/<n>]` over
//! the real tracer, and RIB queries over the now NON-EMPTY store.
//!
//! Case line (exact driver input, see `lean/Driver/HttpPages.lean`):
//!   req|api|routers|rib|traces|method|path|query|deps|<world tag, ignored by the driver>
//!   idx|n,n,…            (extract_msg_indices of a real `Trace`)
//! Observation: `status content-type ids=… skel=…` (ids = routers shown, in page order; skel = the
//! `< > " '` characters of the body in order, the inner SVG of the graph page left out) or `panic`.
//! Oracle (no Lean): no panic; status in {200,400,404,405}; non-GET => 405; unknown router => 404;
//! bad sort parameter => 400 with a reason; HTML pages never contain a router-supplied marker string
//! verbatim; every trace message the tracing page shows is free of `<` / `>`; RIB answers are
//! `application/json` and parse as a JSON object; a follow-up `GET /status` answers 200.
//!
//! Kind `busy|…` (section "a request while the router's handler is delivering a message"): the real
//! `bmp-tcp-in` unit (`BmpTcpIn::run` through `verif::reconfunits::bmp::run_probed`) with a gate the engine
//! holds and a SLOW downstream (a direct-link target whose `direct_update` awaits a semaphore). Two routers
//! connect; one sends a message whose routing update parks `RouterHandler::process_msg` on
//! `gate.update_data(..).await`; while it is parked the list page, the busy router's pages (by ingress id /
//! sysName / address, with `/flags/<peer>` and `/prefixes/<peer>`) and the idle router's pages are requested
//! concurrently; optionally the busy router's connection is closed while parked; then the downstream lets go.
//!   busy|park|close|again|first|npeers|req,req,…|<tag, ignored>      (see `lean/Driver/HttpPages.lean`)
//! Oracle (no Lean): every request is answered (any status) once the downstream has let go, none panics,
//! and the same pages (and `/status`) still answer afterwards: `busy:request-panicked`, `busy:no-response`,
//! `busy:dead-after`. A request that waits until the downstream lets go is fine.
use std::collections::BTreeMap;
use std::net::SocketAddr;
use std::panic::{catch_unwind, AssertUnwindSafe};
use std::str::FromStr;
use std::time::{Duration, Instant};

use hyper::{Body, Method, Request, Uri};
use rotonda::verif::http as vh;
use rotonda::verif::httppages as hp;
use tokio::io::AsyncWriteExt;
use verif_harness::{bmpio, join, parse_args, replay_cases, rng::Rng, Recorder};

thread_local! { static PANIC_AT: std::cell::RefCell<String> = const { std::cell::RefCell::new(String::new()) }; }
/// panics by thread name (the busy cases run requests as tasks of their own runtime `busy-<n>`)
static PANICS: std::sync::Mutex<Vec<(String, String)>> = std::sync::Mutex::new(Vec::new());

fn hex(b: &[u8]) -> String { let mut s = String::from("x"); for x in b { s.push_str(&format!("{x:02x}")); } s }
fn unhex(s: &str) -> Option<Vec<u8>> {
    let s = s.strip_prefix('x')?;
    if s.len() % 2 != 0 { return None; }
    (0..s.len() / 2).map(|i| u8::from_str_radix(&s[2 * i..2 * i + 2], 16).ok()).collect()
}
fn skeleton(body: &[u8]) -> String { body.iter().filter(|b| matches!(**b, b'<' | b'>' | b'"' | b'\'')).map(|b| *b as char).collect() }
fn lossy(b: &[u8]) -> Vec<u8> { String::from_utf8_lossy(b).into_owned().into_bytes() }

fn initiation(sys_name: &[u8], sys_desc: &[u8], extra: &[Vec<u8>]) -> Vec<u8> {
    let mut tlvs = vec![];
    let mut tlv = |t: u16, v: &[u8]| { tlvs.extend_from_slice(&t.to_be_bytes()); tlvs.extend_from_slice(&(v.len() as u16).to_be_bytes()); tlvs.extend_from_slice(v); };
    tlv(1, sys_desc);
    tlv(2, sys_name);
    for e in extra { tlv(0, e); }
    let mut m = vec![3u8];
    m.extend_from_slice(&((6 + tlvs.len()) as u32).to_be_bytes());
    m.push(4);
    m.extend_from_slice(&tlvs);
    m
}

// ------------------------------------------------------------------ world spec

#[derive(Clone, Debug)]
struct RouterSpec {
    host: u8,
    init: Option<(Vec<u8>, Vec<u8>, Vec<Vec<u8>>)>,
    peers: Vec<usize>,
    routes: Vec<(usize, usize)>,
    leaves: bool,
}
#[derive(Clone, Debug)]
struct WorldSpec { tag: String, api: String, template: String, routers: Vec<RouterSpec> }

/// Router-supplied strings with a marker (`zq`) behind every structural character.
fn hostile(g: &mut Rng, k: usize) -> Vec<u8> {
    let forms: [&str; 9] = ["<zq{}>", "\"zq{}=", "'zq{}", "</pre><zq{}>", "a&zq{};b", "<script>zq{}</script>", "x\"><zq{}", "/flags/zq{}", "/prefixes/<zq{}>"];
    let mut s = forms[g.below(forms.len() as u64) as usize].replace("{}", &k.to_string()).into_bytes();
    if g.chance(1, 4) { s.extend_from_slice(&[0xff, 0xc3]); }
    if g.chance(1, 4) { s.extend_from_slice("é€".as_bytes()); }
    s
}
fn benign(g: &mut Rng, k: usize) -> Vec<u8> {
    let forms = ["rtr-{}", "core {}.example.net", "r{}", "edge_{}", "Router {} (lab)", "10.9.8.{}"];
    forms[g.below(forms.len() as u64) as usize].replace("{}", &k.to_string()).into_bytes()
}
/// A text whose `encode_safe` image has length > 60 with byte 61 at / not at a character boundary.
fn long_text(g: &mut Rng, inside: bool) -> Vec<u8> {
    let lead = if inside { 60 } else { 59 + 2 * g.below(2) as usize };
    let mut s: Vec<u8> = (0..lead).map(|i| b"abcdefghij"[i % 10]).collect();
    s.extend_from_slice(if g.chance(1, 2) { "é".as_bytes() } else { "€".as_bytes() });
    for _ in 0..g.below(40) { s.push(b'z'); }
    s
}

fn gen_world(seed: u64, k: usize, thorough: bool) -> WorldSpec {
    let mut g = Rng::new(seed.wrapping_mul(1000).wrapping_add(k as u64));
    let tag = format!("w{k}s{seed}{}", if thorough { "T" } else { "Q" });
    if k == 0 {
        // the witness world: one ordinary router, one whose sysName puts byte 61 of the escaped text inside `é`
        let mut name = vec![b'a'; 60];
        name.extend_from_slice("é".as_bytes());
        return WorldSpec { tag, api: "/routers/".into(), template: "{sys_name}".into(), routers: vec![
            RouterSpec { host: 2, init: Some((b"rtr-plain".to_vec(), b"plain".to_vec(), vec![])), peers: vec![0], routes: vec![(0, 1)], leaves: false },
            RouterSpec { host: 3, init: Some((name, b"descr".to_vec(), vec![])), peers: vec![], routes: vec![], leaves: false },
        ] };
    }
    let api = match k % 4 { 1 => "/routers/", 2 => "/r t/x/", 3 => "/status/graph/x/", _ => "/routers/" }.to_string();
    let template = match k % 3 { 0 => "{sys_name}", 1 => "r-{sys_name}-{router_ip}", _ => "{router_ip}:{router_port}/{sys_name}" }.to_string();
    let n = if k == 5 { 0 } else { 2 + g.below(6) as usize };
    let mut routers = vec![];
    for i in 0..n {
        let init = if g.chance(1, 6) { None } else {
            let name = match g.below(10) { 0..=3 => hostile(&mut g, i), 4 => long_text(&mut g, false), 5 => vec![], _ => benign(&mut g, i) };
            let desc = match g.below(8) { 0..=2 => hostile(&mut g, 10 + i), 3 => long_text(&mut g, false), _ => benign(&mut g, 10 + i) };
            let extra = (0..g.below(3)).map(|j| if g.chance(1, 2) { hostile(&mut g, 20 + i * 3 + j as usize) } else { benign(&mut g, 20 + i) }).collect();
            Some((name, desc, extra))
        };
        let peers: Vec<usize> = if init.is_some() { (0..g.below(6) as usize).collect() } else { vec![] };
        let routes = if peers.is_empty() { vec![] } else { (0..g.below(5)).map(|_| (g.below(peers.len() as u64) as usize, 1 + g.below(40) as usize)).collect() };
        routers.push(RouterSpec { host: 2 + i as u8, init, peers, routes, leaves: n > 2 && g.chance(1, 7) });
    }
    // sometimes two routers share a sysName, or a router is named like another one's ingress id / address
    if routers.len() >= 3 && g.chance(1, 2) {
        let name = match g.below(3) { 0 => b"4".to_vec(), 1 => b"127.0.0.2".to_vec(), _ => b"twin".to_vec() };
        for i in [0usize, 2] { if let Some(t) = routers[i].init.as_mut() { t.0 = name.clone(); } }
    }
    WorldSpec { tag, api, template, routers }
}

// ------------------------------------------------------------------ the live world

struct Live {
    manager: rotonda::manager::Manager,
    resources: vh::Resources,
    metrics: vh::MetricsCollection,
    port: u16,
    conns: Vec<Option<tokio::net::TcpStream>>,
}

fn free_port() -> u16 { std::net::TcpListener::bind("127.0.0.1:0").unwrap().local_addr().unwrap().port() }

fn build_live(rt: &tokio::runtime::Runtime, api_path: &str, template: &str) -> Option<Live> {
    use rotonda::config::{ConfigFile, Source};
    for _attempt in 0..5 {
        let port = free_port();
        let toml = format!(r#"
http_listen = ["127.0.0.1:0"]

[units.bmp-in]
type = "bmp-tcp-in"
listen = "127.0.0.1:{port}"
http_api_path = "{api_path}"
router_id_template = "{template}"
tracing_mode = "On"

[units.rib]
type = "rib"
sources = ["bmp-in"]

[targets.null]
type = "null-out"
sources = ["rib"]
"#);
        let _g = rt.enter();
        rotonda::verif::manager::reset_loader();
        let mut manager = rotonda::manager::Manager::new();
        let file = ConfigFile::new(toml.as_bytes().to_vec(), Source::default()).ok()?;
        let mut config = manager.load(&file).ok()?;
        manager.prepare(&config, &file).ok()?;
        let before = manager.link_report_updated_at();
        manager.spawn(&mut config);
        let ready = rt.block_on(async {
            for _ in 0..3000 {
                if manager.link_report_updated_at() != before { return true; }
                tokio::time::sleep(Duration::from_millis(2)).await;
            }
            false
        });
        if !ready { continue; }
        let resources = manager.http_resources();
        let metrics = manager.metrics();
        let mut live = Live { manager, resources, metrics, port, conns: vec![] };
        // is the listener ours? a probe router connects and leaves again
        if let Some(i) = live.connect(rt, 250) { live.disconnect(rt, i); live.conns.clear(); return Some(live); }
    }
    None
}

impl Live {
    fn metric(&self, name: &str) -> u64 {
        let text = self.metrics.assemble(rotonda::metrics::OutputFormat::Prometheus);
        bmpio::metric_sum(&text, name)
    }
    fn wait(&self, rt: &tokio::runtime::Runtime, name: &str, want: u64) -> bool {
        rt.block_on(async {
            for _ in 0..3000 {
                if self.metric(name) >= want { return true; }
                tokio::time::sleep(Duration::from_millis(1)).await;
            }
            false
        })
    }
    fn connect(&mut self, rt: &tokio::runtime::Runtime, host: u8) -> Option<usize> {
        let before = self.metric("bmp_tcp_in_connection_accepted_count");
        let port = self.port;
        let s = rt.block_on(async {
            let sock = tokio::net::TcpSocket::new_v4().ok()?;
            sock.bind(SocketAddr::from(([127, 0, 0, host], 0))).ok()?;
            sock.connect(SocketAddr::from(([127, 0, 0, 1], port))).await.ok()
        })?;
        if !self.wait(rt, "bmp_tcp_in_connection_accepted_count", before + 1) { return None; }
        self.conns.push(Some(s));
        Some(self.conns.len() - 1)
    }
    fn disconnect(&mut self, rt: &tokio::runtime::Runtime, i: usize) {
        let before = self.metric("bmp_tcp_in_connection_lost_count");
        if let Some(s) = self.conns[i].take() { drop(s); }
        self.wait(rt, "bmp_tcp_in_connection_lost_count", before + 1);
        rt.block_on(tokio::time::sleep(Duration::from_millis(15)));
    }
    fn send(&mut self, rt: &tokio::runtime::Runtime, i: usize, msg: &[u8]) -> bool {
        let before = self.metric("bmp_tcp_in_num_bmp_messages_processed");
        let ok = rt.block_on(async { match self.conns[i].as_mut() { Some(s) => s.write_all(msg).await.is_ok(), None => false } });
        ok && self.wait(rt, "bmp_tcp_in_num_bmp_messages_processed", before + 1)
    }
}

#[derive(Debug, Clone)]
enum Obs { Resp { status: u16, ctype: String, body: Vec<u8> }, Panic(String) }

fn run_real(rt: &tokio::runtime::Runtime, live: &Live, req: Request<Body>) -> Obs {
    PANIC_AT.with(|p| p.borrow_mut().clear());
    let r = catch_unwind(AssertUnwindSafe(|| {
        rt.block_on(async {
            let res = vh::handle_request(req, &live.metrics, &live.resources).await;
            let status = res.status().as_u16();
            let ctype = res.headers().get("Content-Type").map(|v| String::from_utf8_lossy(v.as_bytes()).into_owned()).unwrap_or_else(|| "-".into());
            let body = hyper::body::to_bytes(res.into_body()).await.map(|b| b.to_vec()).unwrap_or_default();
            (status, ctype, body)
        })
    }));
    match r {
        Ok((status, ctype, body)) => Obs::Resp { status, ctype, body },
        Err(_) => Obs::Panic(PANIC_AT.with(|p| p.borrow().clone())),
    }
}
fn get(rt: &tokio::runtime::Runtime, live: &Live, uri: &str) -> Obs {
    match Request::get(uri).body(Body::empty()) { Ok(r) => run_real(rt, live, r), Err(_) => Obs::Panic("bad-uri".into()) }
}

fn classify_panic(at: &str) -> String {
    if at.contains("router_list/response.rs") || (at.contains("is_not_a_char_boundary") && at.contains("byte_index_61")) {
        "panic:router-list:slice-inside-char".into()
    } else if at.contains("inetnum") && at.contains("asn.rs") { "panic:rib-request.rs:asn-from-str-on-non-ascii".into() }
    else { format!("panic:other:{}", at.split(' ').next().unwrap_or("?")) }
}

// ------------------------------------------------------------------ snapshot of a built world

#[derive(Clone, Debug)]
struct RouterSnap {
    id: u32, addr: String, router_id: String,
    tlvs: Option<(Vec<u8>, Vec<u8>, Vec<Vec<u8>>)>,
    peers: Vec<String>,
    sort_vals: Vec<u64>,
}
struct Built { spec: WorldSpec, live: Live, routers: Vec<RouterSnap>, world_field: String, n_msgs: usize }

fn pct_all(b: &[u8]) -> String { b.iter().map(|x| format!("%{x:02X}")).collect() }
/// percent-encode what a request path may not carry raw
fn pct_path(b: &[u8]) -> String {
    let mut s = String::new();
    for &c in b { if c.is_ascii_alphanumeric() || b"-._~/,:".contains(&c) { s.push(c as char); } else { s.push_str(&format!("%{c:02X}")); } }
    s
}

fn between<'a>(s: &'a str, a: &str, b: &str) -> Option<&'a str> { let i = s.find(a)? + a.len(); let j = s[i..].find(b)? + i; Some(&s[i..j]) }

/// Rows of the real list page: (ingress id, numeric cells if the row has TLVs).
fn parse_list(body: &str) -> Vec<(u32, Option<Vec<u64>>)> {
    let mut rows = vec![];
    for chunk in body.split("<tr>").skip(2) {
        let cells: Vec<&str> = chunk.split("<td>").skip(1).map(|c| c.split("</td>").next().unwrap_or("")).collect();
        if cells.len() != 7 { continue; }
        let id = match between(cells[0], "\">", "</a>").and_then(|t| t.parse::<u32>().ok()) { Some(i) => i, None => continue };
        if cells[4] == "-" { rows.push((id, None)); continue; }
        let state = match cells[4] { "Initiating" => 0, "Dumping" => 1, "Updating" => 2, "Terminated" => 3, "Aborted" => 4, _ => 99 };
        let nums = |s: &str| -> Vec<u64> { s.split(|c: char| !c.is_ascii_digit()).filter(|t| !t.is_empty()).filter_map(|t| t.parse().ok()).collect() };
        let p = nums(cells[5]);
        let q = nums(cells[6]);
        if p.len() != 5 || q.len() != 3 { continue; }
        // state, peers_up, eor_capable, dumping, eor_capable_pc, dumping_pc, invalid, soft, hard
        rows.push((id, Some(vec![state, p[0], p[1], p[3], p[2], p[4], q[0], q[1], q[2]])));
    }
    rows
}

fn build_world(rt: &tokio::runtime::Runtime, spec: WorldSpec) -> Result<Built, String> {
    let mut live = build_live(rt, &spec.api, &spec.template).ok_or("live pipeline did not start")?;
    let mut n_msgs = 0usize;
    let mut conn_of = vec![];
    for r in &spec.routers {
        let c = live.connect(rt, r.host).ok_or("router could not connect")?;
        conn_of.push(c);
        let mut msgs = vec![];
        if let Some((n, d, ex)) = &r.init { msgs.push(initiation(n, d, ex)); }
        for &p in &r.peers { msgs.push(bmpio::peer_up(p)); }
        for &(p, n) in &r.routes { msgs.push(bmpio::route_monitoring(r.peers[p], n)); }
        for m in msgs { if !live.send(rt, c, &m) { return Err("message not processed".into()); } n_msgs += 1; }
    }
    for (i, r) in spec.routers.iter().enumerate() { if r.leaves { live.disconnect(rt, conn_of[i]); } }
    rt.block_on(tokio::time::sleep(Duration::from_millis(20)));
    let alive: Vec<&RouterSpec> = spec.routers.iter().filter(|r| !r.leaves).collect();
    // ingress ids and the displayed counters, from the list page as a well-behaved client sees it (hostile
    // texts are escaped there); a world whose list page panics (the slice) is read per router instead
    let api_uri = pct_path(spec.api.as_bytes());
    let mut rows: Vec<(u32, Option<Vec<u64>>)> = match get(rt, &live, &api_uri) {
        Obs::Resp { status: 200, body, .. } => parse_list(&String::from_utf8_lossy(&body)),
        _ => vec![],
    };
    if rows.len() != alive.len() {
        // fall back: ask per address
        rows.clear();
        for r in &alive {
            match get(rt, &live, &format!("{api_uri}127.0.0.{}", r.host)) {
                Obs::Resp { status: 200, body, .. } => {
                    let b = String::from_utf8_lossy(&body).into_owned();
                    let id = between(&b, "Ingress      : ", "\n").and_then(|t| t.trim().parse::<u32>().ok()).ok_or("no ingress id on the router page")?;
                    let num = |label: &str| between(&b, label, "\n").and_then(|t| t.split_whitespace().next().and_then(|x| x.parse::<u64>().ok())).unwrap_or(0);
                    let state = match between(&b, "State:       : ", " [").unwrap_or("") { "Initiating" => 0, "Dumping" => 1, "Updating" => 2, "Terminated" => 3, _ => 4 };
                    let (up, eor, dump) = (num("Peers Up     : "), num("EoR Capable  : "), num("Dumping      : "));
                    let pc = |t: u64, v: u64| if t == 0 { 0 } else { v * 100 / t };
                    rows.push((id, if r.init.is_some() { Some(vec![state, up, eor, dump, pc(up, eor), pc(eor, dump), num("Problem Msgs : "), num("Soft Fail: "), num("Hard Fail: ")]) } else { None }));
                }
                _ => return Err("router page by address did not answer".into()),
            }
        }
    }
    let mut routers = vec![];
    for (r, (id, vals)) in alive.iter().zip(rows.iter()) {
        if vals.is_some() != r.init.is_some() { return Err(format!("row kind of router {} does not match what was sent", id)); }
        let router_id = spec.template.replace("{sys_name}", &id.to_string()).replace("{router_ip}", "IP").replace("{router_port}", "PORT");
        // the peer table's iteration order, from the router's own page, asked for by a token no router that
        // connected later answers to (the newest processor is asked first; a sysName may equal another
        // router's ingress id or address)
        let pos = alive.iter().position(|x| x.host == r.host).unwrap_or(0);
        let newer_names: Vec<Vec<u8>> = alive.iter().skip(pos + 1).filter_map(|x| x.init.as_ref().map(|t| lossy(&t.0))).collect();
        let token = [id.to_string(), format!("127.0.0.{}", r.host), router_id.clone()].into_iter().find(|t| !newer_names.iter().any(|n| n == t.as_bytes()))
            .ok_or("every token of a router is shadowed by a newer router's sysName")?;
        let peers = match get(rt, &live, &format!("{api_uri}{}", pct_path(token.as_bytes()))) {
            Obs::Resp { status: 200, body, .. } => {
                let b = String::from_utf8_lossy(&body).into_owned();
                b.split("/flags/").skip(1).filter_map(|c| c.split("\">more</a>").next().map(|s| s.to_string())).collect::<Vec<_>>()
            }
            _ => return Err("router page by id did not answer".into()),
        };
        if peers.len() != r.peers.len() { return Err(format!("router {}: {} peer rows for {} peers", id, peers.len(), r.peers.len())); }
        routers.push(RouterSnap {
            id: *id, addr: format!("127.0.0.{}", r.host), router_id,
            tlvs: r.init.as_ref().map(|(n, d, ex)| (lossy(n), lossy(d), ex.iter().map(|e| lossy(e)).collect())),
            peers, sort_vals: vals.clone().unwrap_or_default(),
        });
    }
    let rs = if routers.is_empty() { "-".to_string() } else { join(routers.iter().map(|r| format!("{},{},{},{},{},{}", r.id, hex(r.addr.as_bytes()), hex(r.router_id.as_bytes()),
        match &r.tlvs { None => "-".to_string(), Some((n, d, ex)) => format!("{}:{}:{}", hex(n), hex(d), if ex.is_empty() { "-".to_string() } else { join(ex.iter().map(|e| hex(e)), "+") }) },
        if r.peers.is_empty() { "-".to_string() } else { join(r.peers.iter().map(|k| format!("{}:0", hex(k.as_bytes()))), "+") },
        if r.sort_vals.is_empty() { "-".to_string() } else { join(r.sort_vals.iter(), ".") })), ";") };
    let world_field = format!("{}|{}|{}:8:19:1", hex(spec.api.as_bytes()), rs, hex(b"/prefixes/"));
    Ok(Built { spec, live, routers, world_field, n_msgs })
}

// ------------------------------------------------------------------ one request

fn own_decode(raw: &[u8]) -> String {
    let mut out = vec![];
    let mut i = 0;
    while i < raw.len() {
        if raw[i] == b'%' && i + 2 < raw.len() + 0 && i + 2 <= raw.len() - 1 {
            if let (Some(h), Some(l)) = ((raw[i + 1] as char).to_digit(16), (raw[i + 2] as char).to_digit(16)) { out.push((h * 16 + l) as u8); i += 3; continue; }
        }
        out.push(raw[i]);
        i += 1;
    }
    String::from_utf8_lossy(&out).into_owned()
}

fn deps_of(req: &Request<Body>, dec: &str) -> String {
    let mut d: BTreeMap<String, String> = BTreeMap::new();
    if let Some(suffix) = dec.strip_prefix("/prefixes/") {
        let v = match catch_unwind(|| inetnum::addr::Prefix::from_str(suffix)) {
            Ok(Ok(p)) => format!("{}.{}", if p.is_v4() { 4 } else { 6 }, p.len()),
            _ => "e".into(),
        };
        d.insert(format!("p:{}", hex(suffix.as_bytes())), v);
        let params = rotonda::http::extract_params(req);
        for p in params.iter().take(12) {
            let v = p.value();
            let mut pieces: Vec<&str> = v.split(',').take(8).collect();
            pieces.push(v);
            for piece in pieces {
                let tri = |r: std::thread::Result<bool>| match r { Ok(true) => "1", Ok(false) => "0", Err(_) => "p" }.to_string();
                d.insert(format!("a:{}", hex(piece.as_bytes())), tri(catch_unwind(|| inetnum::asn::Asn::from_str(piece).is_ok())));
                d.insert(format!("c:{}", hex(piece.as_bytes())), tri(catch_unwind(|| routecore::bgp::communities::HumanReadableCommunity::from_str(piece).is_ok())));
            }
        }
    }
    if d.is_empty() { "-".into() } else { join(d.iter().map(|(k, v)| format!("{k}={v}")), " ") }
}

#[derive(Clone, Debug)]
struct Case { method: String, path: Vec<u8>, query: Option<Vec<u8>>, expect: Option<u16>, kind: &'static str }

/// the inner SVG (between the page's own `<svg …>` and the last `</svg>`) is not part of the skeleton
fn strip_svg(body: &[u8]) -> (Vec<u8>, Vec<u8>) {
    let marker = b"height: 300px;\">";
    let s = body.windows(marker.len()).position(|w| w == marker).map(|p| p + marker.len());
    let close = b"</svg>";
    let e = (0..body.len().saturating_sub(close.len() - 1)).rev().find(|&p| &body[p..p + close.len()] == close);
    match (s, e) { (Some(s), Some(e)) if s <= e => ([&body[..s], &body[e..]].concat(), body[s..e].to_vec()), _ => (body.to_vec(), vec![]) }
}

fn run_case(rec: &mut Recorder, rt: &tokio::runtime::Runtime, w: &Built, c: &Case) -> bool {
    let mut target = c.path.clone();
    if let Some(q) = &c.query { target.push(b'?'); target.extend_from_slice(q); }
    let (uri, method) = match (Uri::from_maybe_shared(bytes::Bytes::from(target)), Method::from_bytes(c.method.as_bytes())) {
        (Ok(u), Ok(m)) => (u, m),
        _ => { rec.bump("gen.rejected-by-http-parser"); return false; }
    };
    let path = uri.path().as_bytes().to_vec();
    let query = uri.query().map(|q| q.as_bytes().to_vec());
    let req = Request::builder().method(method.clone()).uri(uri.clone()).body(Body::empty()).unwrap();
    let dec = own_decode(&path);
    let deps = deps_of(&req, &dec);
    // the trace the page would show, from the real tracer (own reading of the path)
    let tracer = hp::tracer(&w.live.manager);
    let trace_id = dec.strip_prefix("/status/graph/traces/").and_then(|t| t.parse::<u8>().ok());
    let trace_msgs: Option<Vec<String>> = trace_id.map(|id| tracer.get_trace(id).msgs().iter().map(|m| m.msg.clone()).collect());
    let traces_field = match (&trace_id, &trace_msgs) {
        (Some(id), Some(ms)) => format!("{}:{}", id, if ms.is_empty() { "-".to_string() } else { join(ms.iter().map(|m| hex(m.as_bytes())), "+") }),
        _ => "-".into(),
    };
    let case_line = format!("req|{}|{}|{}|{}|{}|{}|{}", w.world_field, traces_field, c.method, hex(&path),
        match &query { Some(q) => hex(q), None => "-".into() }, deps, w.spec.tag);
    let obs = run_real(rt, &w.live, req);
    let is_get = method == Method::GET;
    let mut fails: Vec<String> = vec![];
    let impl_line = match &obs {
        Obs::Panic(at) => { fails.push(format!("{} at={}", classify_panic(at), at.replace(' ', "_"))); format!("panic ## at={}", at.replace(' ', "_")) }
        Obs::Resp { status, ctype, body } => {
            let text = String::from_utf8_lossy(body).into_owned();
            let html = ctype == "text/html";
            let (skel_src, svg) = if html && dec.starts_with("/status/graph") && text.contains("<svg xmlns") { strip_svg(body) } else { (body.clone(), vec![]) };
            let ids: Vec<String> = if !html { vec![] }
                else if text.contains("monitored routers:") { parse_list(&text).iter().map(|r| r.0.to_string()).collect() }
                else if let Some(t) = between(&text, "Ingress      : ", "\n") { vec![t.trim().to_string()] }
                else if let Some(t) = between(&text, "processing details of trace ", ":</p>") { vec![t.to_string()] }
                else { vec![] };
            // ---- oracle
            if ![200u16, 400, 404, 405].contains(status) { fails.push(format!("status-outside-documented-set {status}")); }
            if !is_get && *status != 405 { fails.push(format!("non-get-not-405 {status}")); }
            if *status == 400 && body.is_empty() { fails.push("400-without-reason".into()); }
            if let Some(e) = c.expect { if is_get && e != *status { fails.push(format!("expected-{e}-got-{status} kind={}", c.kind)); } }
            if html {
                let page = if text.contains("monitored routers:") { "router-list" } else if text.contains("Ingress      : ") { "router-info" } else { "tracing-page" };
                for needle in ["<zq", "\"zq", "'zq", ">zq"] {
                    if text.contains(needle) { fails.push(format!("html:unescaped:{page}:router-text marker={}", needle.replace('"', "dq").replace('\'', "sq").replace('<', "lt").replace('>', "gt"))); break; }
                }
                if String::from_utf8_lossy(&svg).contains("zq") { fails.push("html:unescaped:status-graph-svg:router-text".into()); }
                if let Some(ms) = &trace_msgs {
                    if *status == 200 {
                        let rows = text.matches("<td><pre>").count();
                        if rows != ms.len() { fails.push(format!("tracing-page:row-count page={} tracer={}", rows, ms.len())); }
                        if ms.iter().any(|m| m.contains('<') || m.contains('>')) { fails.push("html:unescaped:tracing-page:trace_msg".into()); }
                    }
                }
            }
            if dec.starts_with("/prefixes/") && *status == 200 && path.iter().filter(|b| **b == b'/').count() != 2
                && !query.as_ref().is_some_and(|q| String::from_utf8_lossy(q).contains("format=dump")) {
                if ctype != "application/json" { fails.push(format!("rib-answer-content-type {ctype}")); }
                match serde_json::from_slice::<serde_json::Value>(body) {
                    Ok(v) if v.is_object() && v.get("data").is_some_and(|d| d.is_array()) => { if v["data"].as_array().is_some_and(|a| !a.is_empty()) { rec.bump("rib.answer-with-routes"); } }
                    Ok(_) => fails.push("rib-answer-json-shape".into()),
                    Err(_) => fails.push("rib-answer-not-json".into()),
                }
            }
            let show_ct = if *status == 200 || *status == 400 { ctype.clone() } else { "text/plain".into() };
            format!("{} {} ids={} skel={}", status, show_ct, if ids.is_empty() { "-".into() } else { ids.join(",") },
                if html { skeleton(&skel_src) } else { "-".into() })
        }
    };
    // the server keeps answering
    match get(rt, &w.live, "/status") { Obs::Resp { status: 200, .. } => {}, _ => fails.push("follow-up-status-failed".into()) }
    let nontrivial = match &obs { Obs::Panic(_) => true, Obs::Resp { status, .. } => is_get && (*status == 200 || *status == 400) };
    rec.bump(&format!("kind.{}", c.kind));
    match &obs { Obs::Panic(_) => rec.bump("obs.panic"), Obs::Resp { status, .. } => rec.bump(&format!("obs.{status}")) }
    let failed = !fails.is_empty();
    rec.case(case_line, impl_line, if failed { format!("fail {}", fails[0]) } else { "ok".into() }, nontrivial);
    failed
}

// ------------------------------------------------------------------ generator

const SORT_KEYS: [&str; 12] = ["addr", "sys_name", "sys_desc", "state", "peers_up", "peers_up_eor_capable", "peers_up_dumping",
    "peers_up_eor_capable_pc", "peers_up_dumping_pc", "invalid_messages", "soft_parse_errors", "hard_parse_errors"];

fn maybe_pct(g: &mut Rng, s: &[u8]) -> Vec<u8> {
    let mut out = vec![];
    for &c in s {
        let must = !(c.is_ascii_alphanumeric() || b"-._~/,:".contains(&c));
        if must || g.chance(1, 12) { out.extend_from_slice(format!("%{c:02X}").as_bytes()); } else { out.push(c); }
    }
    out
}

fn gen_case(g: &mut Rng, w: &Built) -> Case {
    let api = w.spec.api.as_bytes().to_vec();
    let shadowed = w.spec.api.starts_with("/status/graph");
    let get = |path: Vec<u8>, query: Option<Vec<u8>>, expect: Option<u16>, kind: &'static str| Case { method: "GET".into(), path, query, expect, kind };
    let mut c = match g.below(100) {
        0..=21 => {
            // router list
            let mut q: Vec<String> = vec![];
            let mut bad = false;
            if g.chance(3, 4) {
                let v = match g.below(10) { 0 => { bad = true; "nope".to_string() } 1 => { bad = true; "SYS_NAME".into() } 2 => { bad = true; String::new() } _ => g.pick(&SORT_KEYS).to_string() };
                q.push(format!("sort_by={}", String::from_utf8(maybe_pct(g, v.as_bytes())).unwrap()));
            }
            if g.chance(1, 2) {
                let v = match g.below(8) { 0 => { bad = true; "up" } 1 => { bad = true; "DESC" } 2 | 3 => "asc", _ => "desc" };
                q.push(format!("sort_order={v}"));
            }
            if g.chance(1, 6) { q.push("other=1".into()); }
            if g.chance(1, 10) { q.insert(0, "sort_by[x]=state".into()); }
            if g.chance(1, 10) && !q.is_empty() { let k = g.below(q.len() as u64) as usize; let dup = q[k].clone(); q.push(dup.replace("desc", "asc")); }
            // a later duplicate does not count (`get_param` takes the first): `bad` is only exact without duplicates / families
            let exact = !q.iter().any(|p| p.starts_with("sort_by[")) && q.iter().filter(|p| p.starts_with("sort_by=")).count() <= 1 && q.iter().filter(|p| p.starts_with("sort_order=")).count() <= 1;
            let sliced = w.routers.iter().any(|r| r.tlvs.as_ref().is_some_and(|t| !slice_ok(&t.0) || !slice_ok(&t.1)));
            let expect = if shadowed || !exact { None } else if bad { Some(400) } else if sliced { None } else { Some(200) };
            get(maybe_pct(g, &api), if q.is_empty() { None } else { Some(q.join("&").into_bytes()) }, expect, "router-list")
        }
        22..=61 => {
            // router info
            let known = !w.routers.is_empty() && g.chance(3, 4);
            let (tok, mut expect): (Vec<u8>, Option<u16>) = if known {
                let r = g.pick(&w.routers).clone();
                match g.below(5) {
                    0 | 1 => (r.id.to_string().into_bytes(), Some(200)),
                    2 => (r.addr.clone().into_bytes(), Some(200)),
                    3 => (r.router_id.clone().into_bytes(), Some(200)),
                    _ => match &r.tlvs {
                        // a sysName containing the focus separators cannot be reached by name; an empty one neither
                        Some(t) if !t.0.is_empty() => { let s = String::from_utf8_lossy(&t.0).into_owned(); (t.0.clone(), if s.contains("/flags/") || s.contains("/prefixes/") { None } else { Some(200) }) }
                        _ => (r.id.to_string().into_bytes(), Some(200)),
                    },
                }
            } else {
                let t: Vec<u8> = match g.below(8) { 0 => b"9999".to_vec(), 1 => b"no-such-router".to_vec(), 2 => b"0".to_vec(), 3 => b"127.0.0.1".to_vec(), 4 => "é".as_bytes().to_vec(),
                    5 => w.routers.first().map(|r| format!("0{}", r.id)).unwrap_or("01".into()).into_bytes(), 6 => w.routers.first().map(|r| format!("{} ", r.id)).unwrap_or("1 ".into()).into_bytes(), _ => b"<zq99>".to_vec() };
                let hit = w.routers.iter().any(|r| { let s = String::from_utf8_lossy(&t).into_owned(); s == r.id.to_string() || s == r.addr || s == r.router_id || r.tlvs.as_ref().is_some_and(|x| x.0 == t) });
                (t, if hit { None } else { Some(404) })
            };
            let mut p = api.clone();
            p.extend_from_slice(&tok);
            let keys: Vec<String> = w.routers.iter().flat_map(|r| r.peers.iter().cloned()).collect();
            match g.below(9) {
                0 | 1 if !keys.is_empty() => { p.extend_from_slice(b"/flags/"); p.extend_from_slice(g.pick(&keys).as_bytes()); }
                2 | 3 if !keys.is_empty() => { p.extend_from_slice(b"/prefixes/"); p.extend_from_slice(g.pick(&keys).as_bytes()); }
                4 => { p.extend_from_slice(b"/flags/nobody"); }
                5 => { p.extend_from_slice(b"/prefixes/"); }
                6 if !keys.is_empty() => { p.extend_from_slice(b"/flags/"); p.extend_from_slice(g.pick(&keys).as_bytes()); p.extend_from_slice(b"/prefixes/"); p.extend_from_slice(g.pick(&keys).as_bytes()); expect = None; }
                7 => { p.extend_from_slice(b"/x"); if expect == Some(200) { expect = Some(404); } }
                _ => {}
            }
            if shadowed && expect == Some(404) { expect = None; }
            get(maybe_pct(g, &p), if g.chance(1, 10) { Some(b"sort_by=nope".to_vec()) } else { None }, expect, "router-info")
        }
        62..=76 => {
            let n_traces = (w.n_msgs + 2).min(256) as u64;
            let p: String = match g.below(14) {
                0 => "/status/graph".into(), 1 => "/status/graph/".into(), 2 => "/status/graph/traces".into(), 3 => "/status/graph/traces/".into(),
                4 => "/status/graph/traces/+3".into(), 5 => "/status/graph/traces/007".into(), 6 => "/status/graph/traces/256".into(), 7 => "/status/graph/traces/-1".into(),
                8 => "/status/graph/traces/1/".into(), 9 => "/status/graphX/traces/1".into(), 10 => "/status/traces".into(), 11 => "/status/graph/traces/255".into(),
                _ => format!("/status/graph/traces/{}", g.below(n_traces)),
            };
            let status_traces = p == "/status/traces";
            get(maybe_pct(g, p.as_bytes()), None, if status_traces || !shadowed { Some(200) } else { None }, "graph")
        }
        77..=91 => {
            // RIB queries over the store the routers filled
            let stored: Vec<usize> = w.spec.routers.iter().flat_map(|r| r.routes.iter().map(|x| x.1 % 200)).collect();
            let pfx: String = match g.below(8) {
                0 => "127.0.0.0/8".into(), 1 => "127.0.0.0/16".into(), 2 => "0.0.0.0/0".into(), 3 => "2001:db8::/32".into(), 4 => "127.0.1.0/33".into(), 5 => "127.0.1.1/24".into(),
                _ => format!("127.0.{}.0/24", if stored.is_empty() { 1 } else { *g.pick(&stored) }),
            };
            let mut q: Vec<String> = vec![];
            if g.chance(1, 2) { q.push(format!("include={}", g.pick(&["moreSpecifics", "lessSpecifics", "lessSpecifics,moreSpecifics", "everything"]))); }
            if g.chance(1, 3) { q.push(format!("details={}", g.pick(&["communities", "all"]))); }
            if g.chance(1, 3) { q.push(format!("sort={}", g.pick(&["prefix", "peer_as", "ingress_id", "nonsense"]))); }
            if g.chance(1, 4) { q.push(format!("select[peer_as]={}", g.pick(&["65001", "AS65002", "x"]))); }
            if g.chance(1, 5) { q.push(format!("select[as_path]={}", g.pick(&["65001,101", "65002", "1,y"]))); }
            if g.chance(1, 5) { q.push(format!("discard[community]={}", g.pick(&["BLACKHOLE", "123:44", "zz"]))); }
            if g.chance(1, 6) { q.push(format!("filter_op={}", g.pick(&["any", "all", "xor"]))); }
            if g.chance(1, 8) { q.push(format!("format={}", g.pick(&["dump", "csv"]))); }
            if g.chance(1, 10) { q.push("unknown=1".into()); }
            let p = if g.chance(1, 8) { format!("/prefixes/{}", g.below(12)) } else { format!("/prefixes/{pfx}") };
            get(p.into_bytes(), if q.is_empty() { None } else { Some(q.join("&").into_bytes()) }, None, "rib")
        }
        92..=95 => get(g.pick(&["/metrics", "/status", "/nothing", "/routers", "/", "/prefixes"]).as_bytes().to_vec(), None, None, "fixed-or-unknown"),
        _ => { let mut c = gen_case(g, w); c.method = g.pick(&["POST", "HEAD", "PUT", "DELETE", "OPTIONS"]).to_string(); c.expect = None; c.kind = "non-get"; c }
    };
    if g.chance(1, 25) && !c.path.is_empty() { let i = g.below(c.path.len() as u64) as usize; c.path[i] = *g.pick(b"/%a0 +Z"); c.expect = None; c.kind = "mutated"; }
    c
}

fn enc_safe(s: &[u8]) -> Vec<u8> {
    let mut o = vec![];
    for &b in s { match b { b'&' => o.extend_from_slice(b"&amp;"), b'<' => o.extend_from_slice(b"&lt;"), b'>' => o.extend_from_slice(b"&gt;"), b'"' => o.extend_from_slice(b"&quot;"), b'\'' => o.extend_from_slice(b"&#x27;"), b'/' => o.extend_from_slice(b"&#x2F;"), _ => o.push(b) } }
    o
}
fn slice_ok(s: &[u8]) -> bool { let e = enc_safe(s); e.len() <= 60 || std::str::from_utf8(&e).map(|t| t.is_char_boundary(61)).unwrap_or(true) }

fn idx_cases(rec: &mut Recorder, g: &mut Rng, n: usize) {
    for k in 0..n {
        let gate = uuid::Uuid::from_u128(1);
        let other = uuid::Uuid::from_u128(2);
        let mut t = hp::Trace::new();
        let len = if k < 4 { k } else { g.below(24) as usize };
        let mut idxs = vec![];
        for i in 0..len {
            let mine = match k % 3 { 0 => g.chance(1, 2), 1 => g.chance(4, 5), _ => g.chance(1, 5) };
            t.append_msg(if mine { gate } else { other }, "m".into(), if g.chance(1, 2) { hp::MsgRelation::GATE } else { hp::MsgRelation::COMPONENT });
            if mine { idxs.push(i); }
        }
        let real = catch_unwind(AssertUnwindSafe(|| hp::extract_msg_indices(&t, gate))).unwrap_or_else(|_| "panic".into());
        // oracle: the text denotes exactly the index set, as maximal runs in increasing order
        let mut denoted = vec![];
        let inner = real.trim_start_matches('[').trim_end_matches(']');
        let mut wellformed = real.starts_with('[') && real.ends_with(']');
        for part in inner.split(", ").filter(|p| !p.is_empty()) {
            match part.split_once('-') {
                Some((a, b)) => match (a.parse::<usize>(), b.parse::<usize>()) { (Ok(a), Ok(b)) if a < b => denoted.extend(a..=b), _ => wellformed = false },
                None => match part.parse::<usize>() { Ok(a) => denoted.push(a), _ => wellformed = false },
            }
        }
        let ok = wellformed && denoted == idxs;
        rec.bump("kind.extract-msg-indices");
        rec.case(format!("idx|{}", join(idxs.iter(), ",")), real.clone(), if ok { "ok".into() } else { format!("fail extract-msg-indices:wrong-set text={}", real.replace(' ', "_")) }, !idxs.is_empty());
    }
}

// ------------------------------------------------------------------ a request while the router's handler is delivering a message

use std::sync::atomic::{AtomicBool, AtomicUsize, Ordering::SeqCst};
use std::sync::Arc;

/// The slow downstream: while armed, `direct_update` notes that it has been entered and waits for a permit.
struct SlowTarget { armed: AtomicBool, entered: AtomicUsize, seen: AtomicUsize, sem: tokio::sync::Semaphore }
impl std::fmt::Debug for SlowTarget { fn fmt(&self, f: &mut std::fmt::Formatter<'_>) -> std::fmt::Result { f.write_str("SlowTarget") } }
// `#[async_trait]` written out (the harness has no dependency on the macro crate)
impl rotonda::comms::DirectUpdate for SlowTarget {
    fn direct_update<'life0, 'async_trait>(&'life0 self, update: rotonda::payload::Update) -> std::pin::Pin<Box<dyn std::future::Future<Output = ()> + Send + 'async_trait>>
    where 'life0: 'async_trait, Self: 'async_trait {
        Box::pin(async move {
            let _update = update;
            self.seen.fetch_add(1, SeqCst);
            if self.armed.load(SeqCst) {
                self.entered.fetch_add(1, SeqCst);
                if let Ok(p) = self.sem.acquire().await { p.forget(); }
            }
        })
    }
}
impl rotonda::comms::AnyDirectUpdate for SlowTarget {}

#[derive(Clone, Debug)]
struct BusyCase { park: String, close: bool, again: bool, idle_first: bool, npeers: usize, reqs: Vec<String>, tag: String }

fn busy_line(c: &BusyCase) -> String { format!("busy|{}|{}|{}|{}|{}|{}|{}", c.park, c.close as u8, c.again as u8, if c.idle_first { "i" } else { "b" }, c.npeers, c.reqs.join(","), c.tag) }

/// token := 'L' | ('B'|'I') ('i'|'n'|'a') (('f'|'p') digit)?     (B = the busy router, I = the idle one; by ingress id / sysName / address)
fn token_ok(t: &str, npeers: usize) -> bool {
    let b = t.as_bytes();
    if t == "L" { return true; }
    if !(b.len() == 2 || b.len() == 4) || !matches!(b[0], b'B' | b'I') || !matches!(b[1], b'i' | b'n' | b'a') { return false; }
    b.len() == 2 || (matches!(b[2], b'f' | b'p') && b[3].is_ascii_digit() && ((b[3] - b'0') as usize) < if b[0] == b'B' { npeers } else { 1 })
}
fn parse_busy(line: &str) -> Option<BusyCase> {
    let f: Vec<&str> = line.split('|').collect();
    if f.len() != 8 || f[0] != "busy" || !matches!(f[1], "rm" | "pd") || !matches!(f[4], "b" | "i") { return None; }
    let bit = |s: &str| match s { "0" => Some(false), "1" => Some(true), _ => None };
    let npeers: usize = f[5].parse().ok().filter(|n| (1..=3).contains(n))?;
    let reqs: Vec<String> = f[6].split(',').map(|s| s.to_string()).collect();
    if reqs.is_empty() || reqs.len() > 12 || !reqs.iter().all(|t| token_ok(t, npeers)) { return None; }
    Some(BusyCase { park: f[1].into(), close: bit(f[2])?, again: bit(f[3])?, idle_first: f[4] == "i", npeers, reqs, tag: f[7].into() })
}
fn gen_busy(g: &mut Rng, k: usize) -> BusyCase {
    let npeers = 1 + g.below(3) as usize;
    let by = |g: &mut Rng| *g.pick(&["i", "i", "n", "a"]);
    let mut reqs: Vec<String> = vec!["L".into()];
    for _ in 0..1 + g.below(3) {
        let focus = match g.below(4) { 0 => format!("f{}", g.below(npeers as u64)), 1 => format!("p{}", g.below(npeers as u64)), _ => String::new() };
        reqs.push(format!("B{}{}", by(g), focus));
    }
    for _ in 0..1 + g.below(2) { reqs.push(format!("I{}{}", by(g), if g.chance(1, 4) { *g.pick(&["f0", "p0"]) } else { "" })); }
    if g.chance(1, 4) { reqs.push("L".into()); }
    for i in (1..reqs.len()).rev() { let j = g.below(i as u64 + 1) as usize; reqs.swap(i, j); }
    BusyCase { park: if g.chance(1, 3) { "pd" } else { "rm" }.into(), close: g.chance(1, 3), again: g.chance(1, 2), idle_first: g.chance(1, 2), npeers, reqs, tag: format!("b{k}") }
}

#[derive(Clone, Debug, PartialEq)]
enum Ans { Status(u16), Panic, NoResponse }
struct BusyRaw { during: Vec<Ans>, again: Vec<Ans>, after: Vec<Ans>, status_after: Ans, waited: Vec<bool> }

async fn wait_until(limit: Duration, mut f: impl FnMut() -> bool) -> bool {
    let t = Instant::now();
    loop {
        if f() { return true; }
        if t.elapsed() > limit { return false; }
        tokio::time::sleep(Duration::from_millis(1)).await;
    }
}

/// All of `uris` requested concurrently (one task each); returns the tasks.
fn spawn_requests(uris: &[String], metrics: &vh::MetricsCollection, resources: &vh::Resources) -> Vec<tokio::task::JoinHandle<u16>> {
    uris.iter().map(|u| {
        let (u, m, r) = (u.clone(), metrics.clone(), resources.clone());
        tokio::spawn(async move {
            let req = Request::get(u.as_str()).body(Body::empty()).unwrap();
            let res = vh::handle_request(req, &m, &r).await;
            let status = res.status().as_u16();
            let _ = hyper::body::to_bytes(res.into_body()).await;
            status
        })
    }).collect()
}
/// Waits (one generous deadline for all) for the answers; what has not answered by then is aborted.
async fn collect(handles: Vec<tokio::task::JoinHandle<u16>>, deadline: Duration) -> Vec<Ans> {
    let end = tokio::time::Instant::now() + deadline;
    let mut out = vec![];
    for mut h in handles {
        match tokio::time::timeout_at(end, &mut h).await {
            Ok(Ok(s)) => out.push(Ans::Status(s)),
            Ok(Err(e)) => out.push(if e.is_panic() { Ans::Panic } else { Ans::NoResponse }),
            Err(_) => { h.abort(); out.push(Ans::NoResponse); }
        }
    }
    out
}

const ANSWER_DEADLINE: Duration = Duration::from_secs(20);

/// Err = the set-up did not get as far as a parked handler (environment; no verdict).
async fn run_busy(c: &BusyCase) -> Result<BusyRaw, String> {
    use rotonda::verif::reconfunits as rh;
    let port = free_port();
    let unit = rh::bmp::parse_unit(&format!("listen = \"127.0.0.1:{port}\"\nhttp_api_path = \"/routers/\"\nrouter_id_template = \"{{sys_name}}\"\n")).map_err(|_| "bad-unit-config")?;
    let resources = vh::Resources::default();
    let metrics = vh::MetricsCollection::default();
    let comp = rh::component_with_http("bmp-in", "bmp-tcp-in", rotonda::verif::c17::new_register(), resources.clone());
    let (gate, mut agent) = rotonda::comms::Gate::new(8);
    let target = Arc::new(SlowTarget { armed: AtomicBool::new(false), entered: AtomicUsize::new(0), seen: AtomicUsize::new(0), sem: tokio::sync::Semaphore::new(0) });
    let mut down = agent.create_link();
    down.set_direct_update_target(target.clone());
    let coord = rotonda::manager::Coordinator::new(1);
    let wp = coord.clone().track("bmp-in".into());
    let (ptx, prx) = tokio::sync::oneshot::channel();
    let task = tokio::spawn(rh::bmp::run_probed(unit, comp, gate, wp, ptx));
    let _ = down.connect(false).await;
    coord.wait(|_, _| {}).await;
    let Ok(Ok(probes)) = tokio::time::timeout(Duration::from_secs(5), prx).await else { task.abort(); return Err("unit-did-not-start".into()) };
    let processed = |p: &rh::bmp::Probes| bmpio::metric_sum(&p.metrics_text("bmp-in"), "bmp_tcp_in_num_bmp_messages_processed");

    // ---- two routers: 127.0.0.2 (the one that will be busy) and 127.0.0.3 (idle); the request processor of the one
    // that connected last is asked first
    let mut conns: Vec<tokio::net::TcpStream> = vec![];
    for host in if c.idle_first { [3u8, 2] } else { [2u8, 3] } {
        let n0 = probes.routers().len();
        let t = Instant::now();
        let s = loop {
            let sock = tokio::net::TcpSocket::new_v4().map_err(|_| "no-socket")?;
            let _ = sock.set_reuseaddr(true);
            sock.bind(SocketAddr::from(([127, 0, 0, host], 0))).map_err(|_| "no-bind")?;
            match tokio::time::timeout(Duration::from_secs(2), sock.connect(SocketAddr::from(([127, 0, 0, 1], port)))).await {
                Ok(Ok(s)) => break s,
                _ if t.elapsed() > Duration::from_secs(4) => { task.abort(); return Err("no-listener".into()); }
                _ => tokio::time::sleep(Duration::from_millis(5)).await,
            }
        };
        let _ = s.set_nodelay(true);
        if !wait_until(Duration::from_secs(5), || probes.routers().len() > n0).await { task.abort(); return Err("router-not-accepted".into()); }
        conns.push(s);
    }
    if c.idle_first { conns.swap(0, 1); }
    let mut msgs: Vec<(usize, Vec<u8>)> = vec![(0, initiation(b"rtr-busy", b"busy one", &[])), (1, initiation(b"rtr-idle", b"idle one", &[]))];
    for p in 0..c.npeers { msgs.push((0, bmpio::peer_up(p))); }
    msgs.push((1, bmpio::peer_up(4)));
    for p in 0..c.npeers { msgs.push((0, bmpio::route_monitoring(p, 2 + p))); }
    msgs.push((1, bmpio::route_monitoring(4, 3)));
    for (i, m) in &msgs {
        let n0 = processed(&probes);
        if conns[*i].write_all(m).await.is_err() { task.abort(); return Err("send-failed".into()); }
        if !wait_until(Duration::from_secs(5), || processed(&probes) > n0).await { task.abort(); return Err("message-not-processed".into()); }
    }
    // ---- the pages at rest (also: every message above has been dealt with once these have answered): ingress ids, peer keys
    let page = |host: u8| {
        let (m, r) = (metrics.clone(), resources.clone());
        async move {
            let mut h = spawn_requests(&[format!("/routers/127.0.0.{host}")], &m, &r);
            match tokio::time::timeout(Duration::from_secs(10), h.pop().unwrap()).await { Ok(Ok(200)) => {}, _ => return None }
            let res = vh::handle_request(Request::get(format!("/routers/127.0.0.{host}")).body(Body::empty()).ok()?, &m, &r).await;
            let b = String::from_utf8_lossy(&hyper::body::to_bytes(res.into_body()).await.ok()?).into_owned();
            let id = between(&b, "Ingress      : ", "\n")?.trim().parse::<u32>().ok()?;
            let peers: Vec<String> = b.split("/flags/").skip(1).filter_map(|c| c.split("\">more</a>").next().map(|s| s.to_string())).collect();
            Some((id, peers))
        }
    };
    let Some((busy_id, busy_peers)) = page(2).await else { task.abort(); return Err("busy-router-page-at-rest".into()) };
    let Some((idle_id, idle_peers)) = page(3).await else { task.abort(); return Err("idle-router-page-at-rest".into()) };
    if busy_peers.len() != c.npeers || idle_peers.len() != 1 { task.abort(); return Err("peer-rows-at-rest".into()); }
    let uri_of = |t: &str| -> String {
        if t == "L" { return "/routers/".into(); }
        let b = t.as_bytes();
        let busy = b[0] == b'B';
        let mut u = format!("/routers/{}", match b[1] { b'i' => (if busy { busy_id } else { idle_id }).to_string(), b'n' => if busy { "rtr-busy".into() } else { "rtr-idle".to_string() }, _ => format!("127.0.0.{}", if busy { 2 } else { 3 }) });
        if b.len() == 4 {
            let key = &(if busy { &busy_peers } else { &idle_peers })[(b[3] - b'0') as usize];
            u.push_str(if b[2] == b'f' { "/flags/" } else { "/prefixes/" });
            u.push_str(&pct_path(key.as_bytes()));
        }
        u
    };
    let uris: Vec<String> = c.reqs.iter().map(|t| uri_of(t)).collect();

    // ---- park the busy router's handler on the gate
    target.armed.store(true, SeqCst);
    let parking = if c.park == "pd" { bmpio::peer_down(0) } else { bmpio::route_monitoring(0, 7) };
    if conns[0].write_all(&parking).await.is_err() { task.abort(); return Err("send-failed".into()); }
    if !wait_until(Duration::from_secs(8), || target.entered.load(SeqCst) >= 1).await {
        target.armed.store(false, SeqCst); target.sem.add_permits(1 << 20); task.abort();
        return Err("handler-not-parked".into());
    }
    // ---- the requests, while it is parked
    let handles = spawn_requests(&uris, &metrics, &resources);
    // (for the failing direction only: give them time to reach the router's state; a request that has not got
    // there yet is simply answered later)
    tokio::time::sleep(Duration::from_millis(30)).await;
    let waited: Vec<bool> = handles.iter().map(|h| !h.is_finished()).collect();
    if c.close {
        let mut s = conns.remove(0);
        let _ = s.shutdown().await;
        drop(s);
        tokio::time::sleep(Duration::from_millis(5)).await;
    }
    // ---- the downstream lets go
    target.armed.store(false, SeqCst);
    target.sem.add_permits(1 << 20);
    let again = if c.again { spawn_requests(&uris, &metrics, &resources) } else { vec![] };
    let during = collect(handles, ANSWER_DEADLINE).await;
    let again = collect(again, ANSWER_DEADLINE).await;
    // ---- afterwards, at rest (a closed router has left by then; no verdict hangs on that)
    if c.close { wait_until(Duration::from_secs(5), || !probes.routers().contains(&busy_id)).await; tokio::time::sleep(Duration::from_millis(10)).await; }
    let mut after = vec![];
    for u in &uris { after.extend(collect(spawn_requests(std::slice::from_ref(u), &metrics, &resources), ANSWER_DEADLINE).await); }
    let status_after = collect(spawn_requests(&["/status".to_string()], &metrics, &resources), ANSWER_DEADLINE).await.pop().unwrap_or(Ans::NoResponse);
    agent.terminate().await;
    wait_until(Duration::from_secs(2), || task.is_finished()).await;
    task.abort();
    drop(conns);
    drop(down);
    Ok(BusyRaw { during, again, after, status_after, waited })
}

struct BusyOutcome { case: String, imp: String, oracle: String, nontrivial: bool, bumps: Vec<String>, discard: Option<String> }

static BUSY_NO: AtomicUsize = AtomicUsize::new(0);

fn busy_case(c: &BusyCase) -> BusyOutcome {
    let case = busy_line(c);
    let mut last_err = String::new();
    for _attempt in 0..3 {
        let tname = format!("busy-{}", BUSY_NO.fetch_add(1, SeqCst));
        let rt = tokio::runtime::Builder::new_multi_thread().worker_threads(3).thread_name(tname.clone()).enable_all().build().unwrap();
        let raw = rt.block_on(run_busy(c));
        rt.shutdown_timeout(Duration::from_millis(200));
        let panics: Vec<String> = { let mut g = PANICS.lock().unwrap(); let (mine, rest): (Vec<_>, Vec<_>) = g.drain(..).partition(|(t, _)| *t == tname); *g = rest; mine.into_iter().map(|(_, m)| m).collect() };
        let raw = match raw { Ok(r) => r, Err(e) => { last_err = e; continue; } };
        // canonical observation: the status, or (a page of the router whose connection was closed meanwhile: it may
        // or may not be there any more) just that there was an answer
        let show = |t: &str, a: &Ans| -> String { match a { Ans::Status(s) => if c.close && t.starts_with('B') { "ans".into() } else { s.to_string() }, Ans::Panic => "panic".into(), Ans::NoResponse => "none".into() } };
        let row = |v: &Vec<Ans>| if v.is_empty() { "-".to_string() } else { join(c.reqs.iter().zip(v.iter()).map(|(t, a)| show(t, a)), ",") };
        let imp = format!("busy during={} again={} after={}", row(&raw.during), row(&raw.again), row(&raw.after));
        let at = panics.first().map(|p| { let p = p.replace(' ', "_"); match p.find("/src/") { Some(i) => p[i + 1..].to_string(), None => p } }).unwrap_or("-".into());
        let find = |v: &Vec<Ans>, a: Ans| v.iter().position(|x| *x == a).map(|i| c.reqs[i].clone());
        let mut fails: Vec<String> = vec![];
        for (phase, v) in [("while-parked", &raw.during), ("right-after-release", &raw.again)] {
            if let Some(t) = find(v, Ans::Panic) { fails.push(format!("busy:request-panicked page={t} asked={phase} park={} at={at}", c.park)); }
            if let Some(t) = find(v, Ans::NoResponse) { fails.push(format!("busy:no-response page={t} asked={phase} park={} within={}s-of-release", c.park, ANSWER_DEADLINE.as_secs())); }
        }
        if let Some(t) = find(&raw.after, Ans::Panic) { fails.push(format!("busy:dead-after page={t} panicked park={} close={} at={at}", c.park, c.close as u8)); }
        if let Some(t) = find(&raw.after, Ans::NoResponse) { fails.push(format!("busy:dead-after page={t} no-answer park={} close={}", c.park, c.close as u8)); }
        if raw.status_after != Ans::Status(200) { fails.push(format!("busy:dead-after page=/status got={}", show("-", &raw.status_after))); }
        if fails.is_empty() && !panics.is_empty() { fails.push(format!("busy:request-panicked page=? asked=? park={} at={at}", c.park)); }
        let mut bumps = vec![format!("busy.park.{}", c.park), format!("busy.close.{}", c.close as u8), format!("busy.again.{}", c.again as u8), format!("busy.connected-first.{}", if c.idle_first { "idle" } else { "busy" })];
        for (t, w) in c.reqs.iter().zip(raw.waited.iter()) { bumps.push(format!("busy.{}.{}", match &t[..1] { "L" => "list-page", "B" => "busy-router-page", _ => "idle-router-page" }, if *w { "waited-for-the-downstream" } else { "answered-while-parked" })); }
        return BusyOutcome { case, imp, oracle: if fails.is_empty() { "ok".into() } else { format!("fail {}", fails[0]) }, nontrivial: raw.waited.iter().any(|w| *w) || !fails.is_empty(), bumps, discard: None };
    }
    BusyOutcome { case, imp: String::new(), oracle: String::new(), nontrivial: false, bumps: vec![], discard: Some(last_err) }
}

/// Runs the cases four at a time (each has its own runtime, unit, listener and routers), journaled per chunk.
fn busy_cases(rec: &mut Recorder, cases: &[BusyCase]) {
    for chunk in cases.chunks(4) {
        verif_harness::journal(&chunk.iter().map(busy_line).collect::<Vec<_>>());
        let outs: Vec<BusyOutcome> = std::thread::scope(|s| {
            let hs: Vec<_> = chunk.iter().map(|c| s.spawn(move || busy_case(c))).collect();
            hs.into_iter().map(|h| h.join().unwrap_or_else(|_| BusyOutcome { case: String::new(), imp: String::new(), oracle: String::new(), nontrivial: false, bumps: vec![], discard: Some("engine-thread-panicked".into()) })).collect()
        });
        for o in outs {
            rec.bump("kind.busy");
            match o.discard {
                Some(why) => rec.bump(&format!("busy.environment:{}", why.replace(' ', "_"))),
                None => { for b in &o.bumps { rec.bump(b); } rec.case(o.case, o.imp, o.oracle, o.nontrivial); }
            }
        }
    }
}

fn parse_tag(tag: &str) -> Option<(usize, u64, bool)> {
    let t = tag.strip_prefix('w')?;
    let (k, rest) = t.split_once('s')?;
    let thorough = rest.ends_with('T');
    Some((k.parse().ok()?, rest[..rest.len() - 1].parse().ok()?, thorough))
}

fn main() {
    let args = parse_args();
    let t0 = Instant::now();
    std::panic::set_hook(Box::new(|info| {
        let loc = info.location().map(|l| format!("{}:{}", l.file(), l.line())).unwrap_or("?".into());
        let msg = info.payload().downcast_ref::<String>().cloned().or_else(|| info.payload().downcast_ref::<&str>().map(|s| s.to_string())).unwrap_or_default();
        let msg: String = msg.chars().map(|c| if c.is_ascii_graphic() { c } else { '_' }).take(100).collect();
        if std::env::var("VERIF_DEBUG").is_ok() { eprintln!("panic: {} {}", loc, msg); }
        let tname = std::thread::current().name().unwrap_or("").to_string();
        if tname.starts_with("busy-") { if let Ok(mut g) = PANICS.lock() { g.push((tname, format!("{} {}", loc, msg))); } }
        PANIC_AT.with(|p| *p.borrow_mut() = format!("{} {}", loc, msg));
    }));
    let mut rec = Recorder::new("hyper::Requests into the real Server::handle_request of a running bmp-tcp-in -> rib -> null-out pipeline with 0..7 routers connected over loopback TCP that sent real Initiation (hostile / long / empty / shared sysName, sysDescr, string TLVs), Peer Up and Route Monitoring messages: router list (all sort keys, orders, malformed and duplicate parameters), router pages by ingress id / router id / sysName / address with flags and prefixes blocks and trailing segments, unknown routers, /status/graph[/traces/<n>] over the real tracer, RIB queries over the filled store, fixed and unknown paths, other methods, byte mutations; plus extract_msg_indices on real Traces; plus (busy) the list page and the pages of a busy and an idle router requested concurrently while the busy router's handler is parked in process_msg on gate.update_data of a real bmp-tcp-in unit with a slow direct-link downstream (parked by a Route Monitoring or a Peer Down, connection optionally closed while parked, requests repeated right after the release and at rest); non-trivial = a GET answered 200/400 or a panic (or a non-empty index set; or a busy case in which a request waited for the downstream); distinct = distinct case lines");
    let rt = tokio::runtime::Builder::new_multi_thread().worker_threads(2).enable_all().build().unwrap();
    let mut g = Rng::new(args.seed);
    let _enter = rt.enter(); // TcpStreams are dropped on this thread

    if let Some(path) = &args.replay {
        // group the replayed cases by world tag, rebuild each world from its tag
        let mut by_world: BTreeMap<String, Vec<String>> = BTreeMap::new();
        let mut busy: Vec<BusyCase> = vec![];
        for line in replay_cases(path) {
            if line.starts_with("idx|") { continue; }
            if line.starts_with("busy|") { if let Some(c) = parse_busy(&line) { busy.push(c); } continue; }
            let tag = line.rsplit('|').next().unwrap_or("").to_string();
            by_world.entry(tag).or_default().push(line);
        }
        busy_cases(&mut rec, &busy);
        for (tag, lines) in by_world {
            let Some((k, seed, thorough)) = parse_tag(&tag) else { continue };
            match build_world(&rt, gen_world(seed, k, thorough)) {
                Ok(w) => for l in lines {
                    let f: Vec<&str> = l.split('|').collect();
                    if f.len() != 10 { continue; }
                    if let (Some(p), q) = (unhex(f[6]), if f[7] == "-" { None } else { unhex(f[7]) }) {
                        run_case(&mut rec, &rt, &w, &Case { method: f[5].to_string(), path: p, query: q, expect: None, kind: "replay" });
                    }
                },
                Err(e) => rec.bump(&format!("world.failed:{}", e.replace(' ', "_"))),
            }
        }
        rec.finish(&args, t0.elapsed().as_secs_f64());
        std::process::exit(0);
    }

    idx_cases(&mut rec, &mut g, if args.thorough { 3000 } else { 300 });
    {
        let mut bg = Rng::new(args.seed.wrapping_mul(31).wrapping_add(0xB05));
        let cases: Vec<BusyCase> = (0..if args.thorough { 600 } else { 96 }).map(|k| gen_busy(&mut bg, k)).collect();
        busy_cases(&mut rec, &cases);
    }
    let n_worlds = if args.thorough { 40 } else { 6 };
    let per_world = if args.thorough { 4000 } else { 700 };
    for k in 0..n_worlds {
        let spec = gen_world(args.seed, k, args.thorough);
        let w = match build_world(&rt, spec) {
            Ok(w) => w,
            Err(e) => { if std::env::var("VERIF_DEBUG").is_ok() { eprintln!("world {k} failed: {e}: {:?}", gen_world(args.seed, k, args.thorough)); } rec.bump(&format!("world.failed:{}", e.replace(' ', "_"))); continue; }
        };
        rec.bump("world.built");
        rec.bump_by("world.routers-connected", w.routers.len() as u64);
        rec.bump_by("world.peer-rows", w.routers.iter().map(|r| r.peers.len() as u64).sum());
        rec.bump_by("world.bmp-messages", w.n_msgs as u64);
        if k == 0 {
            // the witness first: the router list while a router with a 60-byte ASCII + `é` sysName is connected
            let failed = run_case(&mut rec, &rt, &w, &Case { method: "GET".into(), path: b"/routers/".to_vec(), query: None, expect: None, kind: "witness" });
            rec.variant("listslice", if failed { "as-written" } else { "repaired" });
        }
        let mut wg = g.fork();
        for _ in 0..(if k == 0 { per_world / 4 } else { per_world }) {
            let c = gen_case(&mut wg, &w);
            run_case(&mut rec, &rt, &w, &c);
        }
        let Built { mut live, .. } = w;
        live.conns.clear();
        live.manager.terminate();
        rt.block_on(tokio::time::sleep(Duration::from_millis(20)));
    }
    let _ = pct_all;
    rec.finish(&args, t0.elapsed().as_secs_f64());
    std::process::exit(0);
}
