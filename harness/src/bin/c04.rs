//! C04 engine: real `UpdateMessage::from_octets` + rotonda's
//! `explode_announcements` / `explode_withdrawals` vs the Lean reference codec
//! (`Model/Codec.lean`) on the same PDU bytes.
//!
//! Streams (first token of a case line):
//!   wf   structured well-formed UPDATE built field by field by `Gen` (the only
//!        stream that can produce a violation); the full ordered event list is compared
//!   mal  a well-formed PDU damaged by one mutation; only the ok/err class is compared
//!   bgp / bmpd / bmpu / mrt  the same PDUs through the real ingress call sites
//!        (`Processor::process_update`, `BmpState::process_msg` in Dumping / Updating,
//!        `MrtInRunner::process_file`); the payloads handed to the gate are compared
//! Case line: `<stream> <2|4> <hex PDU>`.
//! Oracle (does not use the Lean model): an independent RFC 4271/4760 decoder
//! written here (`reference`), cross-checked against the generator's own
//! ground truth, compared with what the real code produced. At the call sites the
//! oracle applies RFC 4271 4.3 (`rfc43`): a prefix that one UPDATE both withdraws and
//! announces yields its announcement and no withdrawal. The direct `wf` stream calls
//! `explode_announcements` and `explode_withdrawals` itself and expects both lists whole.
use std::time::Instant;

use rotonda::payload::{RotondaRoute, Update};
use rotonda::roto_runtime::types::{Provenance, RouteContext};
use rotonda::verif::bmp_sm::{BmpStepper, StepOutcome};
use rotonda::verif::rib::BgpUpdateProcessor;
use rotonda_store::prelude::multi::RouteStatus;
use rotonda::verif::codec::{explode_announcements, explode_withdrawals};
use routecore::bgp::message::{SessionConfig, UpdateMessage};
use routecore::bgp::nlri::afisafi::AfiSafiNlri;
use verif_harness::{join, parse_args, rng::Rng, Recorder};

// ------------------------------------------------------------------ data

#[derive(Clone, Debug, PartialEq, Eq)]
struct P { len: u8, addr: Vec<u8> }

#[derive(Clone, Debug, PartialEq, Eq)]
struct A { flags: u8, code: u8, value: Vec<u8> }

#[derive(Clone, Debug, PartialEq, Eq)]
struct Ev { announce: bool, fam: &'static str, pfx: P, attrs: Vec<A>, as4: bool }

fn nbytes(len: u8) -> usize { (len as usize + 7) / 8 }
fn hex(b: &[u8]) -> String { if b.is_empty() { return "-".into(); } let mut s = String::with_capacity(b.len() * 2); for x in b { s.push_str(&format!("{:02x}", x)); } s }
fn hexz(b: &[u8]) -> String { if b.is_empty() { String::new() } else { hex(b) } }
fn unhex(s: &str) -> Vec<u8> { if s == "-" { return vec![]; } (0..s.len() / 2).map(|i| u8::from_str_radix(&s[2 * i..2 * i + 2], 16).unwrap()).collect() }

fn pad_dirty(p: &P) -> bool {
    let k = 8 * nbytes(p.len) - p.len as usize;
    match p.addr.last() { Some(b) if k > 0 => (*b as u16) % (1u16 << k) != 0, _ => false }
}
fn canon(p: &P) -> P {
    let mut q = p.clone();
    let k = 8 * nbytes(p.len) - p.len as usize;
    if let Some(b) = q.addr.last_mut() { if k > 0 { *b &= !(((1u16 << k) - 1) as u8); } }
    q
}

fn show_attrs(as4: bool, attrs: &[A]) -> String {
    let mut ss: Vec<String> = attrs.iter().map(|a| format!("{:02x}.{:02x}.{}", a.code, a.flags, hexz(&a.value))).collect();
    ss.sort();
    format!("{}:[{}]", if as4 { 4 } else { 2 }, ss.join(" "))
}
fn show_events(es: &[Ev]) -> String {
    let mut tbl: Vec<String> = vec![];
    let mut out = vec![];
    for e in es {
        let k = show_attrs(e.as4, &e.attrs);
        let idx = match tbl.iter().position(|x| *x == k) { Some(i) => i, None => { tbl.push(k); tbl.len() - 1 } };
        out.push(format!("{} {} {}/{} @{}", if e.announce { "A" } else { "W" }, e.fam, e.pfx.len, hexz(&e.pfx.addr), idx));
    }
    format!("ok {} | {}", out.join(";"), join(tbl.iter().enumerate().map(|(i, k)| format!("@{i}={k}")), " "))
}

// ------------------------------------------------------------ encoding

fn enc_pfxs(ps: &[P]) -> Vec<u8> { let mut v = vec![]; for p in ps { v.push(p.len); v.extend(&p.addr); } v }
fn enc_attr(a: &A) -> Vec<u8> {
    let mut v = vec![a.flags, a.code];
    if a.flags & 0x10 != 0 { v.extend((a.value.len() as u16).to_be_bytes()); } else { v.push(a.value.len() as u8); }
    v.extend(&a.value);
    v
}
fn enc_pdu(wd: &[P], attrs: &[A], nlri: &[P]) -> Vec<u8> {
    let w = enc_pfxs(wd);
    let a: Vec<u8> = attrs.iter().flat_map(enc_attr).collect();
    let n = enc_pfxs(nlri);
    let total = 19 + 2 + w.len() + 2 + a.len() + n.len();
    let mut v = vec![0xff; 16];
    v.extend((total as u16).to_be_bytes());
    v.push(2);
    v.extend((w.len() as u16).to_be_bytes()); v.extend(w);
    v.extend((a.len() as u16).to_be_bytes()); v.extend(a);
    v.extend(n);
    v
}

// ------------------------------------------------- the real code

fn route_ev(announce: bool, r: &RotondaRoute) -> Result<Ev, &'static str> {
    let (fam, prefix) = match r {
        RotondaRoute::Ipv4Unicast(n, _) => ("4u", *n.nlri()),
        RotondaRoute::Ipv4Multicast(n, _) => ("4m", *n.nlri()),
        RotondaRoute::Ipv6Unicast(n, _) => ("6u", *n.nlri()),
        RotondaRoute::Ipv6Multicast(n, _) => ("6m", *n.nlri()),
    };
    let len = prefix.len();
    let addr = match prefix.addr() {
        std::net::IpAddr::V4(a) => a.octets()[..nbytes(len)].to_vec(),
        std::net::IpAddr::V6(a) => a.octets()[..nbytes(len)].to_vec(),
    };
    let map = r.rotonda_pamap();
    let as4 = map.0.pdu_parse_info().four_octet_enabled();
    let raw = map.0.clone().into_vec();
    // attributes read back from the stored map
    let attrs = split_attrs(&raw).ok_or("stored-attribute-bytes-unframed")?;
    // and as routecore's iterator sees them
    let n_iter = map.0.iter().filter(|x| x.is_ok()).count();
    if n_iter != attrs.len() { return Err("stored-attribute-iter-mismatch"); }
    Ok(Ev { announce, fam, pfx: P { len, addr }, attrs, as4 })
}

/// What rotonda derives from these bytes: `Err` = no routes (parse error at either stage).
fn real(as4: bool, pdu: &[u8]) -> Result<Vec<Ev>, &'static str> {
    let cfg = if as4 { SessionConfig::modern() } else { SessionConfig::legacy() };
    let upd = UpdateMessage::from_octets(pdu.to_vec(), &cfg).map_err(|_| "from_octets")?;
    let reach = explode_announcements(&upd).map_err(|_| "explode_announcements")?;
    let unreach = explode_withdrawals(&upd).map_err(|_| "explode_withdrawals")?;
    let mut out = vec![];
    for (announce, routes) in [(true, reach), (false, unreach)] {
        for r in routes { out.push(route_ev(announce, &r)?); }
    }
    Ok(out)
}

/// The payloads an ingress unit hands to its gate -> events (kind from the payload's route status).
fn update_evs(u: &Update) -> Result<Vec<Ev>, &'static str> {
    let Update::Bulk(ps) = u else { return Err("not-a-bulk-update") };
    let mut out = vec![];
    for p in ps.iter() {
        let status = match &p.context { RouteContext::Fresh(c) => c.status, RouteContext::Mrt(c) => c.status, RouteContext::Reprocess => return Err("reprocess-context") };
        let announce = match status { RouteStatus::Active => true, RouteStatus::Withdrawn => false, _ => return Err("unexpected-route-status") };
        out.push(route_ev(announce, &p.rx_value)?);
    }
    Ok(out)
}

/// BGP session path: `from_octets` as the session does, then the real private
/// `bgp_tcp_in::router_handler::Processor::process_update`.
fn real_bgp(proc_: &mut BgpUpdateProcessor, as4: bool, pdu: &[u8]) -> Result<Vec<Ev>, &'static str> {
    let cfg = if as4 { SessionConfig::modern() } else { SessionConfig::legacy() };
    let upd = UpdateMessage::from_octets(bytes::Bytes::copy_from_slice(pdu), &cfg).map_err(|_| "from_octets")?;
    let prov = Provenance::for_bgp(7, "192.0.2.7".parse().unwrap(), inetnum::asn::Asn::from_u32(64500));
    let u = futures::executor::block_on(proc_.process_update(upd, prov)).map_err(|_| "process_update")?;
    update_evs(&u)
}

// ---- MRT (RFC 6396) BGP4MP_MESSAGE (subtype 1, 2-octet AS) / BGP4MP_MESSAGE_AS4 (subtype 4)
fn mrt_record(as4: bool, pdu: &[u8]) -> Vec<u8> {
    let mut b = vec![];
    if as4 { b.extend(64500u32.to_be_bytes()); b.extend(64512u32.to_be_bytes()); } else { b.extend(64500u16.to_be_bytes()); b.extend(64512u16.to_be_bytes()); }
    b.extend(0u16.to_be_bytes()); b.extend(1u16.to_be_bytes());
    b.extend([192, 0, 2, 7]); b.extend([192, 0, 2, 1]);
    b.extend(pdu);
    let mut v = 1_700_000_000u32.to_be_bytes().to_vec();
    v.extend(16u16.to_be_bytes()); v.extend((if as4 { 4u16 } else { 1u16 }).to_be_bytes());
    v.extend((b.len() as u32).to_be_bytes()); v.extend(b);
    v
}

/// MRT path: the records are written to one update file which the real
/// `MrtInRunner::process_file` reads; returns the `Update`s that left the gate and
/// whether `process_file` returned an error.
fn real_mrt_file(rt: &tokio::runtime::Runtime, dir: &std::path::Path, recs: &[(bool, Vec<u8>)]) -> (Vec<Update>, bool) {
    let path = dir.join("c04.mrt");
    let mut raw = vec![];
    for (as4, pdu) in recs { raw.extend(mrt_record(*as4, pdu)); }
    std::fs::write(&path, raw).unwrap();
    rt.block_on(async {
        let (gate, mut agent) = rotonda::comms::Gate::new(1_000_000);
        let mut link = agent.create_link();
        let register = rotonda::verif::c17::new_register();
        let parent = rotonda::verif::c17::register(&register);
        gate.process_until(link.connect(false)).await.unwrap().unwrap();
        let res = rotonda::units::verif_mrt_file_in_c16::process_file(gate.clone(), register.clone(), parent, path.clone()).await;
        let mut out = vec![];
        while let Ok(Ok(u)) = tokio::time::timeout(std::time::Duration::from_millis(20), link.query()).await { out.push(u); }
        drop(agent);
        (out, res.is_err())
    })
}

// ---- BMP framing (RFC 7854), written here; the monitored peer is 192.0.2.7 AS 64500
fn bmp_msg(typ: u8, body: &[u8]) -> bytes::Bytes {
    let mut v = vec![3u8];
    v.extend(((6 + body.len()) as u32).to_be_bytes());
    v.push(typ);
    v.extend(body);
    bytes::Bytes::from(v)
}
fn bmp_pph() -> Vec<u8> {
    let mut v = vec![0u8, 0u8];               // global instance peer, IPv4, pre-policy
    v.extend([0u8; 8]);                        // distinguisher
    v.extend([0u8; 12]); v.extend([192, 0, 2, 7]);
    v.extend(64500u32.to_be_bytes());
    v.extend([192, 0, 2, 7]);                  // BGP id
    v.extend([0u8; 8]);                        // timestamp
    v
}
fn bgp_open(asn: u16, as4: bool, gr: bool) -> Vec<u8> {
    let mut caps: Vec<u8> = vec![];
    if as4 { caps.extend([65, 4]); caps.extend((asn as u32).to_be_bytes()); }
    if gr { caps.extend([64, 2, 0, 120]); }
    let mut opt = vec![];
    if !caps.is_empty() { opt.push(2); opt.push(caps.len() as u8); opt.extend(caps); }
    let mut v = vec![0xffu8; 16];
    v.extend(((29 + opt.len()) as u16).to_be_bytes());
    v.push(1); v.push(4);
    v.extend(asn.to_be_bytes()); v.extend(180u16.to_be_bytes()); v.extend([192, 0, 2, 7]);
    v.push(opt.len() as u8); v.extend(opt);
    v
}
fn bmp_initiation() -> bytes::Bytes { bmp_msg(4, &[0, 2, 0, 2, b'r', b'1', 0, 1, 0, 1, b'd']) }
fn bmp_peer_up(as4: bool, gr: bool) -> bytes::Bytes {
    let mut b = bmp_pph();
    b.extend([0u8; 12]); b.extend([192, 0, 2, 1]);
    b.extend(179u16.to_be_bytes()); b.extend(40000u16.to_be_bytes());
    b.extend(bgp_open(64501, as4, gr)); b.extend(bgp_open(64500, as4, gr));
    bmp_msg(3, &b)
}
fn bmp_route_monitoring(pdu: &[u8]) -> bytes::Bytes { let mut b = bmp_pph(); b.extend(pdu); bmp_msg(0, &b) }

/// BMP path: fresh session -> Initiation -> Peer Up (-> End-of-RIB, to reach Updating) -> one
/// Route Monitoring message carrying the PDU, through the real `BmpState::process_msg`.
fn real_bmp(as4: bool, gr: bool, updating: bool, pdu: &[u8]) -> Result<Vec<Ev>, &'static str> {
    let mut st = BmpStepper::new();
    st.step(bmp_initiation()).map_err(|_| "setup-initiation")?;
    st.step(bmp_peer_up(as4, gr)).map_err(|_| "setup-peer-up")?;
    if st.phase() != 1 || st.peers().len() != 1 || st.peers()[0].four_octet != as4 { return Err("setup-not-dumping"); }
    if updating {
        st.step(bmp_route_monitoring(&enc_pdu(&[], &[], &[]))).map_err(|_| "setup-eor")?;
        if st.phase() != 2 { return Err("setup-not-updating"); }
    }
    match st.step(bmp_route_monitoring(pdu)) {
        Err(_) => Err("bmp-message-rejected"),
        Ok((_, StepOutcome::Routing(u))) => update_evs(&u),
        Ok((_, StepOutcome::Invalid(_))) => Err("invalid-message"),
        // Dumping: the UPDATE was taken for the End-of-RIB marker, nothing extracted
        Ok((2, StepOutcome::Transition)) if !updating => Ok(vec![]),
        Ok(_) => Err("unexpected-outcome"),
    }
}

fn split_attrs(mut b: &[u8]) -> Option<Vec<A>> {
    let mut out = vec![];
    while !b.is_empty() {
        if b.len() < 3 { return None; }
        let (flags, code) = (b[0], b[1]);
        let (hl, len) = if flags & 0x10 != 0 { if b.len() < 4 { return None; } (4, u16::from_be_bytes([b[2], b[3]]) as usize) } else { (3, b[2] as usize) };
        if b.len() < hl + len { return None; }
        out.push(A { flags, code, value: b[hl..hl + len].to_vec() });
        b = &b[hl + len..];
    }
    Some(out)
}

// ------------------------------------- independent reference decoder (oracle)

fn fam_of(afi: u16, safi: u8) -> Option<(&'static str, usize)> {
    match (afi, safi) { (1, 1) => Some(("4u", 32)), (1, 2) => Some(("4m", 32)), (2, 1) => Some(("6u", 128)), (2, 2) => Some(("6m", 128)), _ => None }
}
/// routecore knows these but rotonda does not turn them into routes; their NLRI grammar is not modelled.
fn known_unsupported(afi: u16, safi: u8) -> bool {
    matches!((afi, safi), (1, 4) | (1, 128) | (1, 132) | (1, 133) | (2, 4) | (2, 128) | (2, 133) | (25, 65) | (25, 70))
}
fn ref_pfxs(mut b: &[u8], width: usize) -> Result<Vec<P>, String> {
    let mut out = vec![];
    while !b.is_empty() {
        let len = b[0];
        if len as usize > width { return Err(format!("prefix length {len} > {width}")); }
        let n = nbytes(len);
        if b.len() < 1 + n { return Err("prefix truncated".into()); }
        // RFC 4271 4.3: the value of the trailing bits is irrelevant
        out.push(canon(&P { len, addr: b[1..1 + n].to_vec() }));
        b = &b[1 + n..];
    }
    Ok(out)
}
/// RFC 4271 / 4760 reading of one UPDATE PDU -> route events. Written without looking at the Lean model's structure.
fn reference(as4: bool, pdu: &[u8]) -> Result<Vec<Ev>, String> {
    if pdu.len() < 23 || pdu[..16] != [0xff; 16] { return Err("header".into()); }
    let total = u16::from_be_bytes([pdu[16], pdu[17]]) as usize;
    if pdu[18] != 2 || total < 23 || total > pdu.len() { return Err("header".into()); }
    let body = &pdu[19..total];
    let wl = u16::from_be_bytes([body[0], body[1]]) as usize;
    if body.len() < 2 + wl + 2 { return Err("withdrawn length".into()); }
    let wd = ref_pfxs(&body[2..2 + wl], 32)?;
    let al = u16::from_be_bytes([body[2 + wl], body[3 + wl]]) as usize;
    if body.len() < 4 + wl + al { return Err("attribute length".into()); }
    let attrs = split_attrs(&body[4 + wl..4 + wl + al]).ok_or("attribute framing")?;
    let nlri = ref_pfxs(&body[4 + wl + al..], 32)?;
    let mut ann = vec![];
    let mut wdr = vec![];
    if let Some(a) = attrs.iter().find(|a| a.code == 14) {
        let v = &a.value;
        if v.len() < 5 || v.len() < 5 + v[3] as usize { return Err("mp_reach short".into()); }
        let (afi, safi, nhl) = (u16::from_be_bytes([v[0], v[1]]), v[2], v[3] as usize);
        if let Some((fam, width)) = fam_of(afi, safi) {
            for p in ref_pfxs(&v[5 + nhl..], width)? { ann.push(Ev { announce: true, fam, pfx: p, attrs: attrs.clone(), as4 }); }
        }
    }
    for p in nlri { ann.push(Ev { announce: true, fam: "4u", pfx: p, attrs: attrs.clone(), as4 }); }
    if let Some(a) = attrs.iter().find(|a| a.code == 15) {
        let v = &a.value;
        if v.len() < 3 { return Err("mp_unreach short".into()); }
        if let Some((fam, width)) = fam_of(u16::from_be_bytes([v[0], v[1]]), v[2]) {
            for p in ref_pfxs(&v[3..], width)? { wdr.push(Ev { announce: false, fam, pfx: p, attrs: vec![], as4 }); }
        }
    }
    for p in wd { wdr.push(Ev { announce: false, fam: "4u", pfx: p, attrs: vec![], as4 }); }
    ann.extend(wdr);
    Ok(ann)
}

/// RFC 4271 4.3 at an ingress call site: "A BGP speaker SHOULD treat an UPDATE message of this
/// form as though the WITHDRAWN ROUTES do not contain the address prefix": the withdrawal of a
/// (family, prefix) that the same UPDATE announces is not a route event.
fn rfc43(es: &[Ev]) -> Vec<Ev> {
    es.iter().filter(|w| w.announce || !es.iter().any(|a| a.announce && a.fam == w.fam && a.pfx == w.pfx)).cloned().collect()
}

/// Does any prefix field of the PDU (conventional or supported-family MP) carry non-zero pad bits?
fn has_dirty_pad(pdu: &[u8]) -> bool {
    fn dirty(mut b: &[u8]) -> bool {
        while !b.is_empty() {
            let n = nbytes(b[0]);
            if b.len() < 1 + n { return false; }
            if pad_dirty(&P { len: b[0], addr: b[1..1 + n].to_vec() }) { return true; }
            b = &b[1 + n..];
        }
        false
    }
    if pdu.len() < 23 { return false; }
    let body = &pdu[19..];
    let wl = u16::from_be_bytes([body[0], body[1]]) as usize;
    if body.len() < 4 + wl { return false; }
    let al = u16::from_be_bytes([body[2 + wl], body[3 + wl]]) as usize;
    if body.len() < 4 + wl + al { return false; }
    if dirty(&body[2..2 + wl]) || dirty(&body[4 + wl + al..]) { return true; }
    if let Some(attrs) = split_attrs(&body[4 + wl..4 + wl + al]) {
        if let Some(a) = attrs.iter().find(|a| a.code == 14) { let v = &a.value; if v.len() >= 5 && v.len() >= 5 + v[3] as usize && fam_of(u16::from_be_bytes([v[0], v[1]]), v[2]).is_some() && dirty(&v[5 + v[3] as usize..]) { return true; } }
        if let Some(a) = attrs.iter().find(|a| a.code == 15) { let v = &a.value; if v.len() >= 3 && fam_of(u16::from_be_bytes([v[0], v[1]]), v[2]).is_some() && dirty(&v[3..]) { return true; } }
    }
    false
}

/// The MP families (first type-14 / type-15 attribute) of a possibly damaged PDU, read leniently.
fn mp_families(pdu: &[u8]) -> Vec<(u16, u8)> {
    let mut out = vec![];
    if pdu.len() < 23 { return out; }
    let body = &pdu[19..];
    let wl = u16::from_be_bytes([body[0], body[1]]) as usize;
    if body.len() < 4 + wl { return out; }
    let al = u16::from_be_bytes([body[2 + wl], body[3 + wl]]) as usize;
    if body.len() < 4 + wl + al { return out; }
    if let Some(attrs) = split_attrs(&body[4 + wl..4 + wl + al]) {
        for code in [14u8, 15] {
            if let Some(a) = attrs.iter().find(|a| a.code == code) { if a.value.len() >= 3 { out.push((u16::from_be_bytes([a.value[0], a.value[1]]), a.value[2])); } }
        }
    }
    out
}

/// (afi, safi, NLRI length) of the first MP_UNREACH of a well-formed PDU.
fn mp_unreach_first(pdu: &[u8]) -> Option<(u16, u8, usize)> {
    let body = &pdu[19..];
    let wl = u16::from_be_bytes([body[0], body[1]]) as usize;
    let al = u16::from_be_bytes([body[2 + wl], body[3 + wl]]) as usize;
    let attrs = split_attrs(&body[4 + wl..4 + wl + al])?;
    let a = attrs.iter().find(|a| a.code == 15)?;
    if a.value.len() < 3 { return None; }
    Some((u16::from_be_bytes([a.value[0], a.value[1]]), a.value[2], a.value.len() - 3))
}

// ------------------------------------------------------------ generator

struct Built { as4: bool, pdu: Vec<u8>, truth: Vec<Ev>, dirty: bool, tags: Vec<&'static str> }

struct Gen { rng: Rng }
impl Gen {
    fn bytes(&mut self, n: usize) -> Vec<u8> { (0..n).map(|_| self.rng.below(256) as u8).collect() }
    fn plen(&mut self, width: u8) -> u8 {
        match self.rng.below(10) {
            0 => 0, 1 => width, 2 => (self.rng.below(width as u64 / 8 + 1) * 8) as u8,
            3 => *self.rng.pick(&[1u8, 7, 9, 15, 17, 23, 25, 31]),
            _ => self.rng.range(0, width as u64) as u8,
        }
    }
    /// a prefix with zero pad bits; `dirty` sets at least one pad bit if there is one
    fn pfx(&mut self, width: u8, dirty: bool) -> P {
        let mut len = self.plen(width);
        if dirty && len % 8 == 0 { len = if len == 0 { 3 } else { len - 3 }; }
        let addr = match self.rng.below(6) { 0 => vec![0u8; nbytes(len)], 1 => vec![0xffu8; nbytes(len)], _ => self.bytes(nbytes(len)) };
        let mut p = canon(&P { len, addr });
        if dirty { let k = 8 * nbytes(len) - len as usize; let bits = self.rng.range(1, (1u64 << k) - 1) as u8; *p.addr.last_mut().unwrap() |= bits; }
        p
    }
    fn pfxs(&mut self, width: u8, max: u64) -> Vec<P> {
        let n = match self.rng.below(8) { 0 => 0, 1 => 1, 2 => max, _ => self.rng.range(1, max.max(1)) };
        (0..n).map(|_| self.pfx(width, false)).collect()
    }
    fn asn(&mut self, as4: bool) -> Vec<u8> { if as4 { self.bytes(4) } else { self.bytes(2) } }
    fn aspath(&mut self, as4: bool) -> Vec<u8> {
        let mut v = vec![];
        for _ in 0..self.rng.below(3) { let n = self.rng.range(1, 5); v.push(*self.rng.pick(&[1u8, 2])); v.push(n as u8); for _ in 0..n { v.extend(self.asn(as4)); } }
        v
    }
    /// one ordinary attribute (never 14 / 15): (default flags, code, value)
    fn attr(&mut self, as4: bool, code_used: &mut Vec<u8>) -> Option<A> {
        let pool: [u8; 17] = [1, 2, 3, 4, 5, 6, 7, 8, 9, 10, 16, 17, 18, 32, 35, 99, 200];
        let code = *self.rng.pick(&pool);
        if code_used.contains(&code) { return None; }
        code_used.push(code);
        let (flags, value): (u8, Vec<u8>) = match code {
            1 => (0x40, vec![self.rng.below(3) as u8]),
            2 => (0x40, self.aspath(as4)),
            3 => (0x40, self.bytes(4)),
            4 => (0x80, self.bytes(4)),
            5 => (0x40, self.bytes(4)),
            6 => (0x40, vec![]),
            7 => (0xc0, { let mut v = self.asn(as4); v.extend(self.bytes(4)); v }),
            8 => (0xc0, { let n = if self.rng.chance(1, 12) { self.rng.range(64, 90) } else { self.rng.range(1, 6) }; self.bytes(4 * n as usize) }),
            9 => (0x80, self.bytes(4)),
            10 => (0x80, { let n = self.rng.range(1, 4); self.bytes(4 * n as usize) }),
            16 => (0xc0, { let n = self.rng.range(1, 4); self.bytes(8 * n as usize) }),
            17 => (0xc0, self.aspath(true)),
            18 => (0xc0, self.bytes(8)),
            32 => (0xc0, { let n = if self.rng.chance(1, 10) { self.rng.range(22, 40) } else { self.rng.range(1, 4) }; self.bytes(12 * n as usize) }),
            35 => (0xc0, self.bytes(4)),
            _ => (0xc0, { let n = if self.rng.chance(1, 10) { self.rng.range(256, 700) } else { self.rng.below(20) }; self.bytes(n as usize) }),
        };
        Some(self.flagged(flags, code, value))
    }
    /// arbitrary flags: partial bit, stray low bits, wrong optional/transitive bits; the
    /// extended-length bit is free for short values and forced for long ones
    fn flagged(&mut self, mut flags: u8, code: u8, value: Vec<u8>) -> A {
        if self.rng.chance(1, 8) { flags |= 0x20; }
        if self.rng.chance(1, 16) { flags ^= *self.rng.pick(&[0x80u8, 0x40, 0xc0]); }
        if self.rng.chance(1, 16) { flags |= self.rng.range(1, 15) as u8; }
        if value.len() > 255 || self.rng.chance(1, 6) { flags |= 0x10; }
        A { flags, code, value }
    }
    fn build(&mut self) -> Built {
        let as4 = self.rng.chance(2, 3);
        let mut tags = vec![];
        let dirty = self.rng.chance(1, 25);
        // one UPDATE that withdraws what it announces (RFC 4271 4.3), same family and across
        // the conventional / MP fields
        let overlap = !dirty && self.rng.chance(1, 8);
        // which prefix-carrying fields exist
        let shape = self.rng.below(12);
        let (has_w, has_n, has_reach, has_unreach) = match shape {
            0 => (false, false, false, false),               // End-of-RIB (IPv4 unicast) / attributes only
            1 => (false, false, false, true),
            2 => (true, false, false, false),
            3 | 4 => (false, true, false, false),
            5 | 6 => (false, false, true, false),
            7 => (true, true, false, false),
            8 => (false, false, true, true),
            9 => (false, true, true, false),
            10 => (true, false, false, true),
            _ => (self.rng.chance(1, 2), self.rng.chance(1, 2), self.rng.chance(1, 2), self.rng.chance(1, 2)),
        };
        let (has_w, has_n, has_reach, has_unreach) = if overlap { match self.rng.below(4) { 0 => (true, true, false, false), 1 => (false, false, true, true), 2 => (true, false, true, false), _ => (true, true, true, true) } } else { (has_w, has_n, has_reach, has_unreach) };
        let big = self.rng.chance(1, 20);
        let maxp = if big { 60 } else { 6 };
        let mut wd = if has_w { self.pfxs(32, maxp) } else { vec![] };
        let mut nlri = if has_n { self.pfxs(32, maxp) } else { vec![] };
        let mut attrs: Vec<A> = vec![];
        let mut used = vec![];
        let nattr = if has_n || has_reach { self.rng.range(1, 7) } else if self.rng.chance(1, 4) { self.rng.range(1, 3) } else { 0 };
        for _ in 0..nattr { if let Some(a) = self.attr(as4, &mut used) { attrs.push(a); } }
        // dirty pad bits go into exactly one field that has a prefix
        let mut dirty_done = false;
        let mut dirty_field = if dirty { self.rng.below(4) } else { 9 };
        let mut reach_truth: Vec<(&'static str, P)> = vec![];
        let mut unreach_truth: Vec<(&'static str, P)> = vec![];
        let mut reach_family: Option<(u16, u8, Option<(&'static str, u8)>)> = None;
        let mut overlapped = false;
        for (is_reach, want) in [(true, has_reach), (false, has_unreach)] {
            if !want { continue; }
            let mut pick = match self.rng.below(10) {
                0 | 1 => (1, 1, Some(("4u", 32))),
                2 | 3 => (1, 2, Some(("4m", 32))),
                4 | 5 | 6 => (2, 1, Some(("6u", 128))),
                7 | 8 => (2, 2, Some(("6m", 128))),
                _ => { let (a, s) = *self.rng.pick(&[(1u16, 3u8), (1, 5), (1, 66), (1, 129), (2, 3), (2, 99), (3, 1), (3, 128), (25, 1), (16388, 71), (0, 0), (65535, 255)]); (a, s, None) }
            };
            // overlap: mostly the family of the MP_REACH (sometimes the sibling SAFI: same prefix, no overlap);
            // an MP_REACH that is to overlap conventional withdrawals is IPv4 unicast
            if overlap && is_reach && !has_unreach && self.rng.chance(2, 3) { pick = (1, 1, Some(("4u", 32))); }
            if overlap && !is_reach { if let Some(rf) = reach_family { if self.rng.chance(4, 5) { pick = rf; } else if let (a, s, Some((_, w))) = rf { let s2 = 3 - s; pick = (a, s2, Some((match (a, s2) { (1, 1) => "4u", (1, 2) => "4m", (2, 1) => "6u", _ => "6m" }, w))); } } }
            if is_reach { reach_family = Some(pick); }
            let (afi, safi, fam): (u16, u8, Option<(&'static str, u8)>) = pick;
            let mut v = afi.to_be_bytes().to_vec();
            v.push(safi);
            if is_reach {
                let nh = match (afi, fam.is_some()) { (1, true) => self.bytes(4), (2, true) => { let n = *self.rng.pick(&[16usize, 16, 32]); self.bytes(n) }, _ => { let n = self.rng.below(40) as usize; self.bytes(n) } };
                v.push(nh.len() as u8); v.extend(nh);
                v.push(if self.rng.chance(1, 10) { self.rng.below(256) as u8 } else { 0 }); // reserved
            }
            match fam {
                Some((name, width)) => {
                    let mut ps = self.pfxs(width, maxp);
                    if overlap && !is_reach && !reach_truth.is_empty() {
                        // withdraw (under this attribute's family) prefixes the MP_REACH announces
                        if ps.is_empty() { ps.push(reach_truth[0].1.clone()); }
                        for _ in 0..self.rng.range(1, 3) { let i = self.rng.below(ps.len() as u64) as usize; let j = self.rng.below(reach_truth.len() as u64) as usize; if reach_truth[j].1.len <= width { ps[i] = reach_truth[j].1.clone(); if reach_truth[j].0 == name { overlapped = true; } } }
                    }
                    if dirty && !dirty_done && dirty_field == (if is_reach { 2 } else { 3 }) && !ps.is_empty() {
                        let i = self.rng.below(ps.len() as u64) as usize; ps[i] = self.pfx(width, true); dirty_done = true;
                    }
                    v.extend(enc_pfxs(&ps));
                    for p in ps { if is_reach { reach_truth.push((name, canon(&p))); } else { unreach_truth.push((name, canon(&p))); } }
                    tags.push(if is_reach { "mp_reach.supported" } else { "mp_unreach.supported" });
                }
                None => { let n = self.rng.below(30) as usize; v.extend(self.bytes(n)); tags.push(if is_reach { "mp_reach.unsupported" } else { "mp_unreach.unsupported" }); }
            }
            let a = self.flagged(0x80, if is_reach { 14 } else { 15 }, v);
            let pos = self.rng.below(attrs.len() as u64 + 1) as usize;
            attrs.insert(pos, a);
        }
        if overlap && !wd.is_empty() {
            // conventional withdrawals of prefixes announced conventionally or in an IPv4 MP_REACH
            let cands: Vec<(&'static str, P)> = nlri.iter().map(|p| ("4u", p.clone())).chain(reach_truth.iter().filter(|(_, p)| p.len <= 32).cloned()).collect();
            if !cands.is_empty() {
                for _ in 0..self.rng.range(1, 3) { let i = self.rng.below(wd.len() as u64) as usize; let (f, p) = self.rng.pick(&cands).clone(); wd[i] = p; if f == "4u" { overlapped = true; } }
            }
        }
        if dirty && !dirty_done {
            if dirty_field >= 2 { dirty_field = self.rng.below(2); }
            let f = if dirty_field == 0 && !wd.is_empty() { Some(&mut wd) } else if !nlri.is_empty() { Some(&mut nlri) } else if !wd.is_empty() { Some(&mut wd) } else { None };
            if let Some(f) = f { let i = self.rng.below(f.len() as u64) as usize; f[i] = self.pfx(32, true); dirty_done = true; }
        }
        // shuffle the attribute order
        for i in (1..attrs.len()).rev() { let j = self.rng.below(i as u64 + 1) as usize; attrs.swap(i, j); }
        // stay inside a 4096 byte PDU (RFC 4271) by shedding conventional prefixes, then attributes
        loop {
            let pdu = enc_pdu(&wd, &attrs, &nlri);
            if pdu.len() <= 4096 { break; }
            if nlri.len() > 1 { nlri.pop(); } else if wd.len() > 1 { wd.pop(); }
            else if let Some(i) = attrs.iter().position(|a| a.code != 14 && a.code != 15 && a.value.len() > 100) { attrs.remove(i); }
            else { break; }
        }
        let dirty_final = wd.iter().chain(nlri.iter()).any(pad_dirty) || (dirty_done && (reach_truth.len() + unreach_truth.len() > 0) && has_dirty_pad(&enc_pdu(&wd, &attrs, &nlri)));
        let pdu = enc_pdu(&wd, &attrs, &nlri);
        let mut truth = vec![];
        for (f, p) in &reach_truth { truth.push(Ev { announce: true, fam: f, pfx: p.clone(), attrs: attrs.clone(), as4 }); }
        for p in &nlri { truth.push(Ev { announce: true, fam: "4u", pfx: canon(p), attrs: attrs.clone(), as4 }); }
        for (f, p) in &unreach_truth { truth.push(Ev { announce: false, fam: f, pfx: p.clone(), attrs: vec![], as4 }); }
        for p in &wd { truth.push(Ev { announce: false, fam: "4u", pfx: canon(p), attrs: vec![], as4 }); }
        if !wd.is_empty() { tags.push("conv.withdrawn"); }
        if !nlri.is_empty() { tags.push("conv.nlri"); }
        if attrs.iter().any(|a| a.flags & 0x10 != 0 && a.value.len() <= 255) { tags.push("attr.extlen_short_value"); }
        if attrs.iter().any(|a| a.value.len() > 255) { tags.push("attr.extlen_long_value"); }
        if truth.is_empty() { tags.push("no_routes(eor_or_unsupported_only)"); }
        if dirty_final { tags.push("dirty_pad_bits"); }
        if overlapped && rfc43(&truth).len() != truth.len() { tags.push("overlap.withdrawn_and_announced"); }
        Built { as4, pdu, truth, dirty: dirty_final, tags }
    }

    /// one mutation of a well-formed PDU
    fn damage(&mut self, pdu: &[u8]) -> (Vec<u8>, &'static str) {
        let mut v = pdu.to_vec();
        let kind = self.rng.below(8);
        match kind {
            0 => { let n = self.rng.range(0, v.len() as u64 - 1) as usize; v.truncate(n); (v, "truncate") }
            1 => { let i = self.rng.range(19, v.len() as u64 - 1) as usize; v[i] = self.rng.below(256) as u8; (v, "byte_in_body") }
            2 => { let i = self.rng.below(19) as usize; v[i] = self.rng.below(256) as u8; (v, "byte_in_header") }
            3 => { let d = self.rng.range(1, 6) as u16; let l = u16::from_be_bytes([v[16], v[17]]); let l2 = if self.rng.chance(1, 2) { l.wrapping_add(d) } else { l.wrapping_sub(d) }; v[16..18].copy_from_slice(&l2.to_be_bytes()); (v, "header_length") }
            4 => { let l = u16::from_be_bytes([v[19], v[20]]).wrapping_add(self.rng.range(1, 5) as u16); v[19..21].copy_from_slice(&l.to_be_bytes()); (v, "withdrawn_length") }
            5 => { let wl = u16::from_be_bytes([v[19], v[20]]) as usize; let at = 21 + wl; let l = u16::from_be_bytes([v[at], v[at + 1]]); let l2 = if self.rng.chance(1, 2) { l.wrapping_add(self.rng.range(1, 5) as u16) } else { l.wrapping_sub(self.rng.range(1, 5) as u16) }; v[at..at + 2].copy_from_slice(&l2.to_be_bytes()); (v, "attributes_length") }
            6 => { let i = self.rng.range(19, v.len() as u64) as usize; let n = self.rng.range(1, 4) as usize; let ins = self.bytes(n); for (k, b) in ins.into_iter().enumerate() { v.insert(i + k, b); } let l = (v.len() as u16).to_be_bytes(); v[16..18].copy_from_slice(&l); (v, "insert_bytes_fix_header") }
            _ => { if v.len() > 24 { let i = self.rng.range(19, v.len() as u64 - 2) as usize; v.remove(i); let l = (v.len() as u16).to_be_bytes(); v[16..18].copy_from_slice(&l); } (v, "delete_byte_fix_header") }
        }
    }
}

// ------------------------------------------------------------------ cases

fn sorted_events(es: &[Ev]) -> Vec<Ev> {
    let mut v = es.to_vec();
    v.sort_by_key(|e| (e.announce, e.fam, e.pfx.len, e.pfx.addr.clone(), e.as4, show_attrs(e.as4, &e.attrs)));
    v
}

fn describe_diff(exp: &[Ev], got: &[Ev]) -> String {
    if exp.len() != got.len() { return format!("expected {} events, got {}", exp.len(), got.len()); }
    for (i, (e, g)) in exp.iter().zip(got).enumerate() {
        if e != g {
            let what = if e.announce != g.announce { "kind" } else if e.fam != g.fam { "family" } else if e.pfx != g.pfx { "prefix" } else if e.as4 != g.as4 { "as-width" } else { "attributes" };
            return format!("event {} differs in {}: expected {} {}/{} got {} {}/{}", i, what, e.fam, e.pfx.len, hex(&e.pfx.addr), g.fam, g.pfx.len, hex(&g.pfx.addr));
        }
    }
    "equal".into()
}

/// How the PDU reaches rotonda.
#[derive(Clone, Copy, PartialEq)]
enum Path { Direct, Bgp, BmpDumping, BmpUpdating, Mrt }
impl Path {
    fn tag(self) -> &'static str { match self { Path::Direct => "wf", Path::Bgp => "bgp", Path::BmpDumping => "bmpd", Path::BmpUpdating => "bmpu", Path::Mrt => "mrt" } }
    fn parse(s: &str) -> Path { match s { "bgp" => Path::Bgp, "bmpd" => Path::BmpDumping, "bmpu" => Path::BmpUpdating, "mrt" => Path::Mrt, _ => Path::Direct } }
}

struct Ctx { bgp: BgpUpdateProcessor, rt: tokio::runtime::Runtime, dir: std::path::PathBuf }

/// One PDU through the MRT path on its own (one-record file).
fn real_mrt(cx: &Ctx, as4: bool, pdu: &[u8]) -> Result<Vec<Ev>, &'static str> {
    let (ups, failed) = real_mrt_file(&cx.rt, &cx.dir, &[(as4, pdu.to_vec())]);
    match (ups.as_slice(), failed) {
        ([u], false) => update_evs(u),
        ([], _) => Err("mrt-record-yielded-nothing"),
        _ => Err("mrt-unexpected-updates"),
    }
}

/// routecore's `is_eor()` would say yes (read from the reference decoding, not from routecore).
fn looks_like_eor_to_routecore(pdu: &[u8]) -> bool {
    if pdu.len() == 23 { return true; }
    match mp_unreach_first(pdu) { Some((afi, safi, nlri_len)) => !(fam_of(afi, safi).is_some() || known_unsupported(afi, safi)) || nlri_len == 0, None => false }
}

/// Run one well-formed case. `truth` = the generator's ground truth when available.
fn wf_case(rec: &mut Recorder, cx: &mut Ctx, path: Path, as4: bool, pdu: &[u8], truth: Option<&[Ev]>) -> Result<Vec<Ev>, &'static str> {
    let got = std::panic::catch_unwind(std::panic::AssertUnwindSafe(|| match path {
        Path::Direct => real(as4, pdu),
        Path::Bgp => real_bgp(&mut cx.bgp, as4, pdu),
        Path::BmpDumping => real_bmp(as4, pdu.len() % 2 == 0, false, pdu),
        Path::BmpUpdating => real_bmp(as4, pdu.len() % 2 == 0, true, pdu),
        Path::Mrt => real_mrt(cx, as4, pdu),
    })).unwrap_or(Err("panic"));
    finish_wf_case(rec, path, as4, pdu, truth, got)
}

/// Judge and record one well-formed case whose real-code result is `got`.
fn finish_wf_case(rec: &mut Recorder, path: Path, as4: bool, pdu: &[u8], truth: Option<&[Ev]>, got: Result<Vec<Ev>, &'static str>) -> Result<Vec<Ev>, &'static str> {
    let imp = match &got { Ok(es) => show_events(es), Err("panic") => "panic".to_string(), Err(s) if s.starts_with("setup") => format!("engine-error {s}"), Err(_) => "err".to_string() };
    let exp = reference(as4, pdu);
    let oracle = match (&exp, truth) {
        (Err(e), _) => format!("fail engine-selfcheck the reference decoder rejects a PDU of the well-formed stream: {e}"),
        (Ok(r), Some(t)) if r.as_slice() != t => format!("fail engine-selfcheck reference decoder and generator ground truth disagree: {}", describe_diff(t, r)),
        (Ok(raw), _) => {
            // what the property demands: the two explode functions on their own yield every
            // listed prefix; an ingress call site additionally applies RFC 4271 4.3
            let r = &if path == Path::Direct { raw.clone() } else { rfc43(raw) };
            let overlapping = r.len() != raw.len();
            let as2 = |es: &[Ev]| sorted_events(&es.iter().cloned().map(|mut e| { e.as4 = false; e }).collect::<Vec<_>>());
            match &got {
                // the property speaks of *which* events are derived; their order is compared by the
                // correspondence with the model, not judged here
                Ok(es) if sorted_events(es) == sorted_events(r) => "ok".to_string(),
                Ok(es) if es.is_empty() && path == Path::BmpDumping && looks_like_eor_to_routecore(pdu) =>
                    format!("fail bmp-dumping:update-taken-for-end-of-rib {} route event(s) of a well-formed UPDATE lost: is_eor() is true for it and no End-of-RIB was pending", r.len()),
                Ok(es) if overlapping && (sorted_events(es) == sorted_events(raw) || (path == Path::Mrt && !as4 && as2(es) == sorted_events(raw))) =>
                    format!("fail overlap:withdrawal-kept-after-announcement-of-same-update {} prefix(es) that this UPDATE both withdraws and announces left the call site as an announcement followed by a withdrawal (RFC 4271 4.3: as though not withdrawn)", raw.len() - r.len()),
                Ok(es) if path == Path::Mrt && !as4 && as2(es) == sorted_events(r) =>
                    "fail mrt:two-octet-as-record-tagged-four-octet the attribute maps of a BGP4MP_MESSAGE (2-octet AS) record are tagged 4-octet-AS, so AS_PATH / AGGREGATOR read back wrongly".to_string(),
                Ok(es) => format!("fail events-mismatch {}", describe_diff(&sorted_events(r), &sorted_events(es))),
                Err(stage) if has_dirty_pad(pdu) && *stage != "panic" && !stage.starts_with("stored") && !stage.starts_with("setup") =>
                    format!("fail padbits:nonzero-trailing-bits-update-rejected {} failed; {} route event(s) of a well-formed UPDATE lost", stage, r.len()),
                Err(stage) => format!("fail update-rejected:{} {} route event(s) of a well-formed UPDATE lost", stage, r.len()),
            }
        }
    };
    let nontrivial = exp.as_ref().map(|r| !r.is_empty()).unwrap_or(false);
    rec.case(format!("{} {} {}", path.tag(), if as4 { 4 } else { 2 }, hex(pdu)), imp, oracle, nontrivial);
    got
}

fn mal_case(rec: &mut Recorder, as4: bool, pdu: &[u8]) {
    // outside the model: NLRI grammars of families routecore parses but rotonda drops
    if mp_families(pdu).iter().any(|(a, s)| known_unsupported(*a, *s)) { rec.bump("mal.skipped_unmodelled_family"); return; }
    let got = std::panic::catch_unwind(|| real(as4, pdu)).unwrap_or(Err("panic"));
    let imp = match &got { Ok(es) => format!("ok ## {}", show_events(es)), Err("panic") => "panic".to_string(), Err(s) => format!("err ## {s}") };
    rec.bump(match &got { Ok(_) => "mal.impl_ok", Err(_) => "mal.impl_err" });
    // no claim of C04 on malformed input except: never a panic
    let oracle = if matches!(got, Err("panic")) { "fail panic-on-malformed-update the decoder panicked".to_string() } else { "ok".to_string() };
    rec.case(format!("mal {} {}", if as4 { 4 } else { 2 }, hex(pdu)), imp, oracle, got.is_err());
}

/// Hand-made corpus: counterexample witness first, then shapes worth pinning.
fn corpus() -> Vec<(bool, Vec<u8>)> {
    let p = |len: u8, addr: &[u8]| P { len, addr: addr.to_vec() };
    let a = |flags: u8, code: u8, value: &[u8]| A { flags, code, value: value.to_vec() };
    let base = vec![a(0x40, 1, &[0]), a(0x40, 2, &[]), a(0x40, 3, &[10, 0, 0, 1])];
    let mut out = vec![];
    // End-of-RIB, IPv4 unicast and MP
    out.push((true, enc_pdu(&[], &[], &[])));
    out.push((true, enc_pdu(&[], &[a(0x80, 15, &[0, 2, 1])], &[])));
    // plain announcement / withdrawal
    out.push((true, enc_pdu(&[], &base, &[p(24, &[10, 0, 0]), p(0, &[]), p(32, &[1, 2, 3, 4])])));
    out.push((false, enc_pdu(&[p(8, &[10]), p(17, &[172, 16, 128])], &[], &[])));
    // MP_REACH v6 unicast with link-local next hop + conventional NLRI in one UPDATE
    let mut v = vec![0, 2, 1, 32]; v.extend([0x20; 32]); v.push(0); v.extend(enc_pfxs(&[p(48, &[0x20, 1, 0xd, 0xb8, 0, 1]), p(128, &[1; 16]), p(0, &[])]));
    let mut at = base.clone(); at.insert(1, a(0x90, 14, &v));
    out.push((true, enc_pdu(&[], &at, &[p(16, &[192, 168])])));
    // empty MP_UNREACH (would be End-of-RIB on its own) together with announcements
    let mut at = base.clone(); at.push(a(0x80, 15, &[0, 1, 1]));
    out.push((true, enc_pdu(&[], &at, &[p(24, &[203, 0, 113])])));
    // unsupported family in MP_REACH next to conventional NLRI
    let mut at = base.clone(); at.push(a(0x80, 14, &[0, 1, 66, 2, 9, 9, 0, 1, 2, 3, 4, 5]));
    out.push((true, enc_pdu(&[p(24, &[198, 51, 100])], &at, &[p(24, &[203, 0, 113])])));
    // RFC 4271 4.3 shapes: withdrawn and announced in one UPDATE
    out.push(witness_overlap());
    // ... some of several, a duplicate withdrawal, a withdrawal of something else kept
    out.push((false, enc_pdu(&[p(24, &[203, 0, 113]), p(8, &[10]), p(24, &[203, 0, 113]), p(16, &[192, 168])], &base, &[p(16, &[192, 168]), p(24, &[203, 0, 113]), p(0, &[])])));
    // ... MP_REACH + MP_UNREACH of one IPv6 prefix (and one more of each)
    let mut r = vec![0, 2, 1, 16]; r.extend([0x20; 16]); r.push(0); r.extend(enc_pfxs(&[p(48, &[0x20, 1, 0xd, 0xb8, 0, 1]), p(32, &[0x20, 1, 0xd, 0xb8])]));
    let mut u = vec![0, 2, 1]; u.extend(enc_pfxs(&[p(64, &[0x20, 1, 0xd, 0xb8, 0, 2, 0, 0]), p(48, &[0x20, 1, 0xd, 0xb8, 0, 1])]));
    let mut at = base.clone(); at.push(a(0x90, 14, &r)); at.push(a(0x90, 15, &u));
    out.push((true, enc_pdu(&[], &at, &[])));
    // ... IPv4 unicast MP_REACH vs conventional withdrawal (same family: overlap), and conventional NLRI vs MP_UNREACH
    let mut r = vec![0, 1, 1, 4, 10, 0, 0, 1, 0]; r.extend(enc_pfxs(&[p(24, &[203, 0, 113])]));
    let mut u = vec![0, 1, 1]; u.extend(enc_pfxs(&[p(24, &[198, 51, 100])]));
    let mut at = base.clone(); at.push(a(0x80, 14, &r)); at.push(a(0x80, 15, &u));
    out.push((true, enc_pdu(&[p(24, &[203, 0, 113])], &at, &[p(24, &[198, 51, 100])])));
    // ... same prefix under the sibling SAFI (multicast announced, unicast withdrawn): NOT the same NLRI, both stay
    let mut r = vec![0, 1, 2, 4, 10, 0, 0, 1, 0]; r.extend(enc_pfxs(&[p(24, &[203, 0, 113])]));
    let mut at = base.clone(); at.push(a(0x80, 14, &r));
    out.push((true, enc_pdu(&[p(24, &[203, 0, 113])], &at, &[])));
    out
}

/// The witness of `C04_caller_counterexample`: 203.0.113.0/24 in WITHDRAWN ROUTES and in NLRI of one UPDATE.
fn witness_overlap() -> (bool, Vec<u8>) {
    let a = |flags: u8, code: u8, value: &[u8]| A { flags, code, value: value.to_vec() };
    let p = P { len: 24, addr: vec![203, 0, 113] };
    (true, enc_pdu(&[p.clone()], &[a(0x40, 1, &[0]), a(0x40, 2, &[]), a(0x40, 3, &[10, 0, 0, 1])], &[p]))
}

/// The witness of `C04_counterexample`: 10.0.0.0/7 announced with the pad bit set (byte 0x0b).
fn witness() -> (bool, Vec<u8>) {
    let a = |flags: u8, code: u8, value: &[u8]| A { flags, code, value: value.to_vec() };
    (true, enc_pdu(&[], &[a(0x40, 1, &[0]), a(0x40, 2, &[]), a(0x40, 3, &[10, 0, 0, 1])], &[P { len: 7, addr: vec![0x0b] }]))
}

/// The witness of `C04_bmp_counterexample`: 203.0.113.0/24 announced in an UPDATE that also
/// carries an empty MP_UNREACH for IPv4 unicast.
fn witness_bmp_eor() -> (bool, Vec<u8>) {
    let a = |flags: u8, code: u8, value: &[u8]| A { flags, code, value: value.to_vec() };
    (true, enc_pdu(&[], &[a(0x40, 1, &[0]), a(0x40, 2, &[]), a(0x40, 3, &[10, 0, 0, 1]), a(0x80, 15, &[0, 1, 1])], &[P { len: 24, addr: vec![203, 0, 113] }]))
}

/// The witness of `C04_mrt_counterexample`: a 2-octet-AS session's UPDATE (AS_PATH 64500 64501
/// in 2-byte encoding) in a BGP4MP_MESSAGE record.
fn witness_mrt_as2() -> (bool, Vec<u8>) {
    let a = |flags: u8, code: u8, value: &[u8]| A { flags, code, value: value.to_vec() };
    (false, enc_pdu(&[], &[a(0x40, 1, &[0]), a(0x40, 2, &[2, 2, 0xfb, 0xf4, 0xfb, 0xf5]), a(0x40, 3, &[10, 0, 0, 1])], &[P { len: 24, addr: vec![203, 0, 113] }]))
}

fn main() {
    std::panic::set_hook(Box::new(|_| {}));
    let args = parse_args();
    let t0 = Instant::now();
    let mut rec = Recorder::new("wf: structured well-formed UPDATE PDUs (conventional withdrawn/NLRI, MP_REACH/MP_UNREACH for v4/v6 unicast/multicast and AFI/SAFIs unknown to routecore, 2/4-octet AS, prefix lengths 0..32/128, shuffled attributes with arbitrary flags and extended length), fed as bytes to the real UpdateMessage::from_octets + explode_announcements/withdrawals; mal: one mutation of such a PDU (ok/err class only). non-trivial = a wf case whose reference decoding has at least one route event, or a mal case the real decoder rejects; distinct = distinct case lines");

    let dir = std::env::temp_dir().join(format!("verif-{}-c04", std::process::id()));
    std::fs::create_dir_all(&dir).unwrap();
    let rt = tokio::runtime::Builder::new_multi_thread().worker_threads(2).enable_all().build().unwrap();
    let mut cx = Ctx { bgp: BgpUpdateProcessor::new(), rt, dir: dir.clone() };

    if let Some(path) = &args.replay {
        for line in verif_harness::replay_cases(path) {
            let parts: Vec<&str> = line.split_whitespace().collect();
            if parts.len() != 3 { continue; }
            let (as4, pdu) = (parts[1] == "4", unhex(parts[2]));
            if parts[0] == "mal" { mal_case(&mut rec, as4, &pdu); } else { let _ = wf_case(&mut rec, &mut cx, Path::parse(parts[0]), as4, &pdu, None); }
        }
        rec.finish(&args, t0.elapsed().as_secs_f64());
        return;
    }

    // 0. the witnesses decide which variant this tree is
    let (as4, w) = witness();
    let r = wf_case(&mut rec, &mut cx, Path::Direct, as4, &w, None);
    rec.variant("padbits", if r.is_err() { "as-written" } else { "repaired" });
    let (as4, w) = witness_bmp_eor();
    let r = wf_case(&mut rec, &mut cx, Path::BmpDumping, as4, &w, None);
    rec.variant("bmpeor", if matches!(&r, Ok(es) if es.is_empty()) { "as-written" } else { "repaired" });
    let (as4, w) = witness_mrt_as2();
    let r = wf_case(&mut rec, &mut cx, Path::Mrt, as4, &w, None);
    rec.variant("mrtas", if matches!(&r, Ok(es) if es.iter().all(|e| e.as4)) { "as-written" } else { "repaired" });
    let (as4, w) = witness_overlap();
    let r = wf_case(&mut rec, &mut cx, Path::Bgp, as4, &w, None);
    rec.variant("overlap", if matches!(&r, Ok(es) if es.iter().any(|e| !e.announce)) { "as-written" } else { "repaired" });
    for (as4, pdu) in corpus() {
        for path in [Path::Direct, Path::Bgp, Path::BmpDumping, Path::BmpUpdating, Path::Mrt] { let _ = wf_case(&mut rec, &mut cx, path, as4, &pdu, None); rec.bump("corpus"); }
    }

    let mut g = Gen { rng: Rng::new(args.seed) };

    // 1. exhaustive prefix lengths x {zero, ones-masked, random} x the five prefix fields
    for width_fam in [(32u8, None), (32, Some((1u16, 1u8))), (32, Some((1, 2))), (128, Some((2, 1))), (128, Some((2, 2)))] {
        let (width, fam) = width_fam;
        for len in 0..=width {
            for fill in 0..3 {
                let addr = match fill { 0 => vec![0u8; nbytes(len)], 1 => vec![0xff; nbytes(len)], _ => g.bytes(nbytes(len)) };
                let p = canon(&P { len, addr });
                let base = vec![A { flags: 0x40, code: 1, value: vec![0] }, A { flags: 0x40, code: 2, value: vec![] }];
                for withdraw in [false, true] {
                    let pdu = match (fam, withdraw) {
                        (None, false) => enc_pdu(&[], &base, &[p.clone()]),
                        (None, true) => enc_pdu(&[p.clone()], &[], &[]),
                        (Some((afi, safi)), false) => { let mut v = afi.to_be_bytes().to_vec(); v.push(safi); let nh = if afi == 1 { 4 } else { 16 }; v.push(nh); v.extend(vec![1u8; nh as usize]); v.push(0); v.extend(enc_pfxs(&[p.clone()])); let mut at = base.clone(); at.push(A { flags: 0x80, code: 14, value: v }); enc_pdu(&[], &at, &[]) }
                        (Some((afi, safi)), true) => { let mut v = afi.to_be_bytes().to_vec(); v.push(safi); v.extend(enc_pfxs(&[p.clone()])); enc_pdu(&[], &[A { flags: 0x80, code: 15, value: v }], &[]) }
                    };
                    let _ = wf_case(&mut rec, &mut cx, Path::Direct, true, &pdu, None);
                    if fill == 2 { let path = [Path::Bgp, Path::BmpDumping, Path::BmpUpdating][(len as usize + withdraw as usize) % 3]; let _ = wf_case(&mut rec, &mut cx, path, true, &pdu, None); }
                    rec.bump("sweep.prefix_lengths");
                }
            }
        }
    }

    let mut mrt_batch: Vec<Built> = vec![];
    // 2. random structured PDUs + one mutation of every fourth
    let n = if args.thorough { 200_000 } else { 12_000 };
    for i in 0..n {
        let b = g.build();
        for t in &b.tags { rec.bump(t); }
        rec.bump(if b.as4 { "as4" } else { "as2" });
        let _ = wf_case(&mut rec, &mut cx, Path::Direct, b.as4, &b.pdu, Some(&b.truth));
        if i % 4 == 1 {
            let path = [Path::Bgp, Path::BmpDumping, Path::BmpUpdating][(i / 4 % 3) as usize];
            rec.bump(&format!("path.{}", path.tag()));
            let _ = wf_case(&mut rec, &mut cx, path, b.as4, &b.pdu, Some(&b.truth));
        }
        if i % 4 == 3 { mrt_batch.push(Built { as4: b.as4, pdu: b.pdu.clone(), truth: b.truth.clone(), dirty: b.dirty, tags: vec![] }); }
        if i % 4 == 0 && !b.dirty {
            let (m, kind) = g.damage(&b.pdu);
            rec.bump(&format!("mal.{kind}"));
            mal_case(&mut rec, b.as4, &m);
        }
    }

    // 3. MRT path: the PDUs the direct path accepts go into ONE update file (one Update per
    //    record, in order); the others are run one file each (process_file gives up on them).
    let (good, bad): (Vec<Built>, Vec<Built>) = mrt_batch.into_iter().partition(|b| real(true, &b.pdu).is_ok());
    let recs: Vec<(bool, Vec<u8>)> = good.iter().map(|b| (b.as4, b.pdu.clone())).collect();
    let (ups, failed) = real_mrt_file(&cx.rt, &cx.dir, &recs);
    for (k, b) in good.iter().enumerate() {
        let got = if failed || ups.len() != good.len() { Err("mrt-batch-misaligned") } else { update_evs(&ups[k]) };
        rec.bump("path.mrt");
        let _ = finish_wf_case(&mut rec, Path::Mrt, b.as4, &b.pdu, Some(&b.truth), got);
    }
    for b in bad.iter().take(if args.thorough { 400 } else { 40 }) {
        rec.bump("path.mrt");
        let _ = wf_case(&mut rec, &mut cx, Path::Mrt, b.as4, &b.pdu, Some(&b.truth));
    }
    let _ = std::fs::remove_dir_all(&dir);
    rec.finish(&args, t0.elapsed().as_secs_f64());
}
