//! C06 engine: byte streams and I/O faults through the real BMP framing
//! (`bmp_read`) and the real per-router read loop (`read_from_router`) vs the
//! Lean model `Model/BmpIo.lean`.
//!
//! * `fatal` cases: the real `FatalError::is_fatal` for every `ErrorKind` vs the extracted table.
//! * `frame` cases: one real `bmp_read` on a scripted in-memory reader.
//! * `sess`  cases: the real `RouterHandler::read_from_router` (real gate, real BMP state
//!   machine, real metrics) on a scripted reader; counters are read at the moment the reader
//!   delivers its terminal event (everything before is completely processed then).
//! Every case runs in its own tokio task; a panic or a watchdog timeout is an observation.
//! Oracle (no Lean model involved): no panic, no hang, no busy loop, the task completes.
//! A labelled *testing-only* section fuzzes the BGP UPDATE / MRT parsers for panics.
use std::io::ErrorKind;
use std::sync::atomic::Ordering::SeqCst;
use std::sync::{Arc, Mutex};
use std::time::{Duration, Instant};

use rotonda::verif::bmp_io as hooks;
use verif_harness::bmpio::*;
use verif_harness::{parse_args, rng::Rng, Recorder};

const WATCHDOG: Duration = Duration::from_secs(10);

// ------------------------------------------------------------------ frame

struct FrameObs { line: String, outcome: String, site: String, polls: usize }

async fn run_frame(script: Script, chunk_seed: u64) -> FrameObs {
    let total = script_len(&script);
    let (reader, shared) = ScriptReader::new(&script, chunk_seed, None);
    let h = tokio::spawn(async move {
        match hooks::bmp_read_once(reader).await {
            Ok((_rx, bytes, _)) => format!("ok {}", bytes.len()),
            Err((_rx, err)) => {
                if err.kind() == ErrorKind::Other && err.get_ref().is_some() { "parse".to_string() } else { format!("io {}", kind_model_name(err.kind())) }
            }
        }
    });
    let id = h.id();
    let ab = h.abort_handle();
    let (outcome, site) = tokio::select! {
        r = tokio::time::timeout(WATCHDOG, h) => match r {
            Ok(Ok(o)) => (o, String::new()),
            Ok(Err(e)) if e.is_panic() => ("panic".to_string(), take_panic(id)),
            Ok(Err(_)) => ("cancelled".to_string(), String::new()),
            Err(_) => ("hang".to_string(), String::new()),
        },
        _ = shared.spinning.notified() => { ab.abort(); ("hang".to_string(), "keeps reading after end of input".to_string()) }
    };
    let rest = total - shared.consumed.load(SeqCst);
    FrameObs { line: format!("{} rest={}", outcome, rest), outcome, site, polls: shared.polls.load(SeqCst) }
}

// ---------------------------------------------------------------- session

struct SessObs { line: String, end: &'static str, site: String, polls: usize, msgs: u64 }

async fn run_session(script: Script, chunk_seed: u64) -> SessObs {
    let total = script_len(&script);
    let (mut sess, gate) = hooks::Session::new("127.0.0.1:11019".parse().unwrap());
    // the unit: keeps its gate processed, drops it when terminated
    let unit = tokio::spawn(async move { while gate.process().await.is_ok() {} drop(gate); });
    let _ = sess.link.connect(false).await;
    let sess = Arc::new(sess);
    let snap: Arc<Mutex<Option<(u64, u64)>>> = Arc::new(Mutex::new(None));
    let on_event: EventFn = {
        let s = sess.clone();
        let snap = snap.clone();
        Arc::new(move || {
            let t = s.metrics_text();
            *snap.lock().unwrap() = Some((metric_sum(&t, "num_receive_io_errors"), metric_sum(&t, "num_bmp_messages_received")));
        })
    };
    let (reader, shared) = ScriptReader::new(&script, chunk_seed, Some(on_event.clone()));
    let term = {
        let agent = sess.agent.clone();
        let sh = shared.clone();
        // The unit terminates while the connection is silent. Give the freshly cloned gates time to
        // attach to the unit's gate first: a clone that is not yet attached when the unit terminates
        // can miss the termination (a scheduling race in comms.rs observed at ~1/1000 when the gate
        // is terminated within microseconds of the session start; see notes/C06.md) — outside the
        // modelled behaviour, so the engine does not provoke it (VERIF_C06_RACE=1 does).
        let race = std::env::var("VERIF_C06_RACE").is_ok();
        tokio::spawn(async move { sh.want_term.notified().await; if !race { tokio::time::sleep(Duration::from_millis(3)).await; } agent.terminate().await; })
    };
    let s2 = sess.clone();
    let h = tokio::spawn(async move { s2.read_from_router(reader).await });
    let id = h.id();
    let ab = h.abort_handle();
    let (end, site) = tokio::select! {
        r = tokio::time::timeout(WATCHDOG, h) => match r {
            Ok(Ok(())) => ("done", String::new()),
            Ok(Err(e)) if e.is_panic() => ("panic", take_panic(id)),
            Ok(Err(_)) => ("cancelled", String::new()),
            Err(_) => ("hang", String::new()),
        },
        _ = shared.spinning.notified() => { ab.abort(); ("hang", "keeps reading after end of input".to_string()) }
    };
    if end == "hang" && std::env::var("VERIF_C06_STRESS").is_ok() {
        eprintln!("hang diag: root_closed={} unit_finished={} term_finished={} updates={} phase={:?}", sess.agent.is_terminated(), unit.is_finished(), term.is_finished(), sess.updates().len(), sess.phase());
    }
    term.abort();
    if end == "panic" { on_event(); } // nothing removed the router's counters: read them now
    let (ioerrs, msgs) = snap.lock().unwrap().unwrap_or((0, 0));
    let rest = total - shared.consumed.load(SeqCst);
    sess.agent.terminate().await;
    let _ = tokio::time::timeout(Duration::from_secs(2), unit).await;
    SessObs { line: format!("ioerrs={} msgs={} rest={} end={}", ioerrs, msgs, rest, end), end, site, polls: shared.polls.load(SeqCst), msgs }
}

// ------------------------------------------------------------- generators

fn hdr(version: u8, len: u32) -> Vec<u8> { let mut v = vec![version]; v.extend(len.to_be_bytes()); v }

const FAULTS: [ErrorKind; 8] = [ErrorKind::Interrupted, ErrorKind::TimedOut, ErrorKind::Other, ErrorKind::ConnectionReset,
    ErrorKind::ConnectionAborted, ErrorKind::BrokenPipe, ErrorKind::WouldBlock, ErrorKind::HostUnreachable];

fn some_message(g: &mut Rng) -> Vec<u8> {
    if g.chance(1, 3) { return any_variant(g); }
    match g.below(7) {
        0 => initiation(),
        1 => peer_up(g.below(3) as usize),
        2 => peer_down(g.below(3) as usize),
        3 | 4 => route_monitoring(g.below(3) as usize, g.below(50) as usize),
        5 => statistics(g.below(3) as usize),
        _ => termination(),
    }
}

/// A plausible session: Initiation, peers up, traffic, sometimes a Termination.
fn valid_stream(g: &mut Rng) -> Vec<Vec<u8>> {
    let mut v = vec![initiation()];
    let np = g.range(1, 3) as usize;
    for i in 0..np { v.push(peer_up(i)); }
    for n in 0..g.range(0, 6) {
        let p = g.below(np as u64) as usize;
        match g.below(9) {
            0 => v.push(statistics(p)),
            1 => v.push(peer_down(p)),
            2 => v.push(statistics_variant(p, g.below(N_STATISTICS_VARIANTS))),
            3 => v.push(peer_down_variant(p, g.below(N_PEER_DOWN_VARIANTS))),
            4 => v.push(route_mirroring(p, g.below(3))),
            _ => v.push(route_monitoring(p, n as usize)),
        }
    }
    // a session ends with any legal Termination message (string and reason TLVs in any number and order)
    match g.below(8) { 0 | 1 => v.push(termination()), 2 | 3 => v.push(termination_variant(g.below(N_TERMINATION_VARIANTS))), _ => {} }
    if g.chance(1, 4) { v[0] = initiation_variant(g.below(N_INITIATION_VARIANTS)); }
    else if g.chance(1, 5) { v[0] = initiation_long(g); }
    // a re-Initiation with long texts in the middle of the session
    if g.chance(1, 8) { let at = g.range(1, v.len() as u64) as usize; v.insert(at, initiation_long(g)); }
    v
}

/// Mutate one message: length field, type, version, flags, a random byte, truncation.
fn mutate(g: &mut Rng, m: &mut Vec<u8>, rec: &mut Recorder) {
    if m.len() < 6 { return; }
    let true_len = m.len() as u32;
    match g.below(8) {
        0 => { // boundary / off-by-one declared lengths
            let cand = [0u32, 1, 2, 3, 4, 5, 6, true_len.saturating_sub(1), true_len + 1, 1 << 16, 1 << 18];
            let l = *g.pick(&cand);
            m[1..5].copy_from_slice(&l.to_be_bytes());
            rec.bump(&format!("mut.len.{}", if l < 5 { "lt5" } else if l < true_len { "short" } else if l == true_len { "same" } else { "long" }));
        }
        1 => { m[5] = g.below(256) as u8; rec.bump("mut.type"); }
        2 => { m[0] = g.below(256) as u8; rec.bump("mut.version"); }
        3 if m.len() > 7 => { m[7] = g.below(256) as u8; rec.bump("mut.peerflags"); }
        4 => { let n = g.range(0, m.len() as u64 - 1) as usize; m.truncate(n); rec.bump("mut.truncate"); }
        5 => { for _ in 0..g.range(1, 4) { let i = g.below(m.len() as u64) as usize; m[i] = g.below(256) as u8; } rec.bump("mut.bytes"); }
        6 if m.len() > 50 => { // inside the BGP payload: attribute / length fields
            let i = g.range(48, m.len() as u64 - 1) as usize; m[i] = m[i].wrapping_add(g.range(1, 255) as u8); rec.bump("mut.payload");
        }
        _ => { let i = g.below(m.len() as u64) as usize; m[i] ^= 1 << g.below(8); rec.bump("mut.bitflip"); }
    }
}

fn gen_frame_script(g: &mut Rng, rec: &mut Recorder) -> Script {
    let mut s: Script = vec![];
    match g.below(10) {
        0 => { // random bytes
            let n = g.range(0, 24) as usize;
            s.push(Item::Data((0..n).map(|_| g.below(256) as u8).collect()));
            rec.bump("frame.random");
        }
        1 | 2 => { // boundary declared lengths with 0..len body bytes supplied
            let l = *g.pick(&[0u32, 1, 2, 3, 4, 5, 6, 7, 1 << 16, (1 << 16) + 1, 1 << 18]);
            s.push(Item::Data(hdr(3, l)));
            let supply = match g.below(3) { 0 => 0, 1 => (l as usize).saturating_sub(5), _ => g.below((l as u64).saturating_sub(4).min(64)) as usize };
            if supply > 0 { if supply > 4096 { s.push(Item::Zeros(supply)); } else { s.push(Item::Data((0..supply).map(|_| g.below(256) as u8).collect())); } }
            if g.chance(1, 2) { s.push(Item::Data(vec![7, 7, 7])); }
            rec.bump(&format!("frame.boundary.{}", if l < 5 { "lt5" } else { "ge5" }));
        }
        3..=6 => { // a (possibly mutated) real message, possibly followed by more
            let mut m = some_message(g);
            if g.chance(1, 2) { mutate(g, &mut m, rec); }
            s.push(Item::Data(m));
            if g.chance(1, 3) { s.push(Item::Data(some_message(g))); }
            rec.bump("frame.message");
        }
        _ => { // a fault somewhere inside a real message
            let m = some_message(g);
            let cut = g.range(0, m.len() as u64) as usize;
            s.push(Item::Data(m[..cut].to_vec()));
            s.push(Item::Fault(*g.pick(&FAULTS)));
            s.push(Item::Data(m[cut..].to_vec()));
            rec.bump("frame.fault");
        }
    }
    s
}

fn gen_session_script(g: &mut Rng, rec: &mut Recorder) -> Script {
    let run = g.chance(1, 8);
    let long = run || g.chance(1, 6);
    let mut msgs = if run { rec.bump("sess.rejected-run"); run_stream(g) } else if long { rec.bump("sess.long-invalid"); long_stream(g) } else if g.chance(3, 4) { valid_stream(g) } else { (0..g.range(1, 6)).map(|_| some_message(g)).collect() };
    let nmut = if long { 0 } else { match g.below(4) { 0 => 0, 1 | 2 => 1, _ => 2 } };
    for _ in 0..nmut { let i = g.below(msgs.len() as u64) as usize; if !msgs[i].is_empty() { let mut m = msgs[i].clone(); if m.len() >= 6 { mutate(g, &mut m, rec); } msgs[i] = m; } }
    let mut s: Script = vec![];
    for m in msgs {
        // a long run of rejected messages is meant to be received in full: few injected faults there
        if g.chance(1, if run { 150 } else { 6 }) && m.len() > 1 {
            let cut = g.range(0, m.len() as u64) as usize;
            s.push(Item::Data(m[..cut].to_vec()));
            s.push(Item::Fault(*g.pick(&FAULTS)));
            s.push(Item::Data(m[cut..].to_vec()));
            rec.bump("sess.fault-inside");
        } else {
            s.push(Item::Data(m));
        }
        if g.chance(1, if run { 200 } else { 10 }) { s.push(Item::Fault(*g.pick(&FAULTS))); rec.bump("sess.fault-between"); }
    }
    match g.below(8) {
        0 => { s.push(Item::Term); if g.chance(1, 2) { s.push(Item::Data(some_message(g))); } rec.bump("sess.gate-terminated"); }
        1 => { let n = g.range(1, 9) as usize; s.push(Item::Data((0..n).map(|_| g.below(256) as u8).collect())); rec.bump("sess.trailing-garbage"); }
        _ => {}
    }
    s
}

// ------------------------------------------------------------------ cases

/// (validity tokens from the real parser, number of complete frames, ends at a short length)
fn valid_tokens(script: &Script, fatal: &dyn Fn(ErrorKind) -> bool) -> (String, usize, bool) {
    let w = walk(script, fatal);
    let toks: String = w.frames.iter().map(|f| parser_verdict(f)).collect();
    (if toks.is_empty() { "-".into() } else { toks }, w.frames.len(), w.short_len)
}

/// Generated inputs never declare more than 1 MiB (the real code allocates and zeroes the declared
/// length before reading: gigabyte declarations would only exercise the allocator, see notes).
const MAX_DECLARED: usize = 1 << 20;

fn oracle(outcome_end: &str, site: &str, short_len: bool, polls: usize, total: usize) -> String {
    match outcome_end {
        "panic" => {
            let file = panic_file(site);
            if file == "bmp_tcp_in/io.rs" && short_len {
                format!("fail panic:bmp_read-declared-length-below-5 {}", sanitize(site))
            } else {
                format!("fail {} {}", sanitize(&panic_signature(site)), sanitize(site))
            }
        }
        "hang" if !site.is_empty() => format!("fail hang:busy-loop {}", sanitize(site)),
        "hang" => "fail hang the receiver did not finish a finite input within the watchdog".into(),
        "cancelled" => "fail cancelled task was cancelled".into(),
        _ if polls > 6 * total + 200 => format!("fail busy-loop {} reader polls for {} scripted items", polls, total),
        _ => "ok".into(),
    }
}

fn base_line(line: &str) -> String { line.split('|').take(3).collect::<Vec<_>>().join("|") }

fn record_frame(rec: &mut Recorder, line: &str, script: &Script, o: FrameObs, fatal: &dyn Fn(ErrorKind) -> bool) {
    let (_, _, short) = valid_tokens(script, fatal);
    let flat = flatten(script);
    let nontrivial = flat.len() >= 5 && flat[..5].iter().all(|f| matches!(f, Flat::B(_)));
    rec.bump(&format!("frame.outcome.{}", o.outcome.split(' ').take(if o.outcome.starts_with("io") { 2 } else { 1 }).collect::<Vec<_>>().join(".")));
    let orc = oracle(&o.outcome, &o.site, short, o.polls, flat.len());
    rec.case(base_line(line), o.line, orc, nontrivial);
}

/// Index (among accepted messages) of the first Termination message processed after an accepted
/// Initiation: where a tree in which Termination ends the session (C07's repair) leaves the loop.
fn termination_index(script: &Script, fatal: &dyn Fn(ErrorKind) -> bool) -> Option<u64> {
    let w = walk(script, fatal);
    let mut accepted = 0u64;
    let mut active = false;
    for f in &w.frames {
        if parser_verdict(f) != '1' { continue; }
        match f[5] { 4 => active = true, 5 if active => return Some(accepted), _ => {} }
        accepted += 1;
    }
    None
}

static TERM_ENDS: std::sync::atomic::AtomicBool = std::sync::atomic::AtomicBool::new(false);

fn record_sess(rec: &mut Recorder, line: &str, script: &Script, o: SessObs, fatal: &dyn Fn(ErrorKind) -> bool) {
    let (toks, nframes, short) = valid_tokens(script, fatal);
    let nfaults = script.iter().filter(|i| matches!(i, Item::Fault(k) if !fatal(*k))).count();
    rec.bump(&format!("sess.end.{}", o.end));
    let orc = oracle(o.end, &o.site, short, o.polls, script_len(script));
    // a panic inside process_msg (state machine / routecore accessors): the handler is a parameter of
    // the model, so the model is told on which accepted message the real handler crashed
    let mut line = base_line(line);
    if o.end == "panic" && panic_file(&o.site) != "bmp_tcp_in/io.rs" && !toks.contains('p') && o.msgs > 0 {
        line.push_str(&format!("|crash={}", o.msgs - 1));
        rec.bump("sess.handler-crash");
    }
    if TERM_ENDS.load(SeqCst) {
        if let Some(k) = termination_index(script, fatal) { line.push_str(&format!("|abort={}", k)); }
    }
    rec.case(line, o.line, orc, nframes + nfaults >= 1);
}

fn main() {
    let args = parse_args();
    let t0 = Instant::now();
    install_panic_recorder();
    let rt = tokio::runtime::Builder::new_multi_thread().worker_threads(24).enable_all().build().unwrap();
    let mut rec = Recorder::new("fatal: every ErrorKind through the real is_fatal; frame: one real bmp_read on a scripted reader (random bytes, boundary declared lengths 0..7/2^16/2^24, real BMP messages with mutated length/type/version/flag/payload fields, truncations, concatenations, a fault at a random offset); sess: the real read_from_router on scripts of mostly valid multi-message streams with 0-2 mutated messages, one in six a long (12-64 messages) stream of lifecycle violations and damaged payloads in intact frames, faults inside/between messages, gate termination, trailing garbage; random read chunking and spurious Pending; non-trivial = the length logic ran (>= 5 header bytes delivered without fault) for frame cases, >= 2 loop iterations for sess cases; distinct = distinct case lines");
    let fatal = |k: ErrorKind| hooks::is_fatal(k);

    let run_case = |rec: &mut Recorder, line: &str, seed: u64| {
        let parts: Vec<&str> = line.split('|').collect();
        match parts[0] {
            "fatal" => {
                let k = kind_of(parts[1]);
                rec.case(line.to_string(), format!("{}", hooks::is_fatal(k)), "ok".into(), true);
            }
            "frame" => {
                let script = parse_script(parts[1]);
                let o = rt.block_on(run_frame(script.clone(), seed));
                record_frame(rec, line, &script, o, &fatal);
            }
            _ => {
                let script = parse_script(parts[1]);
                let o = rt.block_on(run_session(script.clone(), seed));
                record_sess(rec, line, &script, o, &fatal);
            }
        }
    };

    if let Some(path) = &args.replay {
        // VERIF_C06_STRESS=n: run every replayed sess case n times concurrently (race hunting)
        if let Some(n) = std::env::var("VERIF_C06_STRESS").ok().and_then(|s| s.parse::<usize>().ok()) {
            for line in verif_harness::replay_cases(path) {
                let parts: Vec<&str> = line.split('|').collect();
                if parts[0] != "sess" { continue; }
                let script = parse_script(parts[1]);
                let ends: Vec<&'static str> = rt.block_on(async {
                    let hs: Vec<_> = (0..n).map(|i| { let s = script.clone(); tokio::spawn(async move { let o = run_session(s, i as u64).await; if o.end != "done" { eprintln!("stress seed {} -> {} polls={} site={}", i, o.line, o.polls, o.site); } o.end }) }).collect();
                    let mut v = vec![]; for h in hs { v.push(h.await.unwrap()); } v
                });
                let mut c = std::collections::BTreeMap::new();
                for e in ends { *c.entry(e).or_insert(0) += 1; }
                eprintln!("stress {:?}", c);
            }
        }
        for line in verif_harness::replay_cases(path) { run_case(&mut rec, &line, args.seed); }
        rec.finish(&args, t0.elapsed().as_secs_f64());
        return;
    }

    // 0. the witness of `C06_no_panic_counterexample`, then the length-guard probe that decides
    //    which variant of the defect site this tree is.
    run_case(&mut rec, "frame|x0300000000|-", 1);
    let witness_panics = rec.impls.last().unwrap().starts_with("panic");
    run_case(&mut rec, "sess|x0300000000|-", 1);
    let mut minlen = 0usize;
    if !witness_panics {
        for l in 0u32..12 {
            let mut s = vec![Item::Data(hdr(3, l))];
            if l > 5 { s.push(Item::Zeros(l as usize - 5)); }
            let o = rt.block_on(run_frame(s, 1));
            if o.outcome == "io invalidData" { minlen = l as usize + 1; } else { break; }
        }
    }
    rec.variant("minlen", &minlen.to_string());
    // does a Termination message end the session on this tree (C07's defect site)? Initiation,
    // Termination, Initiation: 3 messages counted as written, 2 when the loop is left at Termination
    {
        let s: Script = vec![Item::Data(initiation()), Item::Data(termination()), Item::Data(initiation())];
        let o = rt.block_on(run_session(s, 1));
        TERM_ENDS.store(o.msgs < 3, SeqCst);
        rec.extra.insert("termination_ends_session".into(), serde_json::json!(o.msgs < 3));
    }

    // 1. the is_fatal table
    for (name, _) in NAMED_KINDS.iter().chain(UNLISTED_KINDS.iter()) { run_case(&mut rec, &format!("fatal|{}", name), 1); }

    // 2. boundary lengths, deterministically: declared 0..8, 2^16, 2^24 x {no body, full body, short body}
    for l in [0u32, 1, 2, 3, 4, 5, 6, 7, 8, 1 << 16, 1 << 24] {
        for supply in 0..3 {
            let body = (l as usize).saturating_sub(5);
            let n = match supply { 0 => 0, 1 if l <= 1 << 16 => body, 1 => 100, _ => (body / 2).min(4096) };
            let mut s = vec![Item::Data(hdr(3, l))];
            if n > 0 { s.push(Item::Zeros(n)); }
            let (v, _, _) = valid_tokens(&s, &fatal);
            run_case(&mut rec, &format!("frame|{}|{}", show_script(&s), v), 1);
            run_case(&mut rec, &format!("sess|{}|{}", show_script(&s), v), 1);
        }
    }
    // every real message type alone and all concatenated
    let all = [initiation(), peer_up(0), route_monitoring(0, 1), statistics(0), peer_down(0), termination()];
    for m in &all {
        let s = vec![Item::Data(m.clone())];
        let (v, _, _) = valid_tokens(&s, &fatal);
        run_case(&mut rec, &format!("frame|{}|{}", show_script(&s), v), 1);
    }
    let s: Script = all.iter().map(|m| Item::Data(m.clone())).collect();
    let (v, _, _) = valid_tokens(&s, &fatal);
    run_case(&mut rec, &format!("sess|{}|{}", show_script(&s), v), 1);

    // a Peer Up whose received OPEN declares an optional-parameter length one byte shorter than
    // its (single) parameter: routecore's OpenMessage::parse subtracts past zero
    {
        let mut m = peer_up(0);
        let mut hit = false;
        for i in 0..m.len().saturating_sub(29) {
            if m[i..i + 16].iter().all(|b| *b == 0xff) && m[i + 28] > 0 { m[i + 28] -= 1; hit = true; }
        }
        if hit {
            let s = vec![Item::Data(m)];
            let (v, _, _) = valid_tokens(&s, &fatal);
            run_case(&mut rec, &format!("frame|{}|{}", show_script(&s), v), 1);
            run_case(&mut rec, &format!("sess|{}|{}", show_script(&s), v), 1);
        }
    }

    // a Peer Up whose received OPEN has an optional parameter (length 2) shorter than the capability in it:
    // the framing parser accepts it, the state machine's `capabilities()` walk unwraps a ShortInput
    {
        let mut m = peer_up(0);
        let mut hit = false;
        for i in 0..m.len().saturating_sub(4) {
            if m[i..i + 4] == [0x02, 0x04, 0x40, 0x02] { m[i + 1] = 0x02; hit = true; }
        }
        if hit {
            let s = vec![Item::Data(initiation()), Item::Data(m)];
            let (v, _, _) = valid_tokens(&s, &fatal);
            run_case(&mut rec, &format!("sess|{}|{}", show_script(&s), v), 1);
        }
    }

    // 3. generated
    let mut g = Rng::new(args.seed);
    let (mut nframe, mut nsess) = if args.thorough { (400000, 200000) } else { (20000, 12000) };
    if let Some(n) = std::env::var("VERIF_C06_N").ok().and_then(|s| s.parse::<usize>().ok()) { nframe = n; nsess = n; }
    if let Some(n) = std::env::var("VERIF_C06_NS").ok().and_then(|s| s.parse::<usize>().ok()) { nsess = n; }
    // generate first (deterministic), run in parallel batches, record in order
    let mut lines: Vec<(String, u64)> = vec![];
    for _ in 0..nframe {
        let mut s = gen_frame_script(&mut g, &mut rec);
        while walk(&s, &fatal).max_len > MAX_DECLARED { rec.bump("gen.rejected-huge-declared-length"); s = gen_frame_script(&mut g, &mut rec); }
        let (v, _, _) = valid_tokens(&s, &fatal);
        lines.push((format!("frame|{}|{}", show_script(&s), v), g.next()));
    }
    for _ in 0..nsess {
        let mut s = gen_session_script(&mut g, &mut rec);
        while walk(&s, &fatal).max_len > MAX_DECLARED { rec.bump("gen.rejected-huge-declared-length"); s = gen_session_script(&mut g, &mut rec); }
        let (v, _, _) = valid_tokens(&s, &fatal);
        lines.push((format!("sess|{}|{}", show_script(&s), v), g.next()));
    }
    enum Obs { F(FrameObs), S(SessObs) }
    let mut hangs = 0usize;
    // a case that wedges the real code in a synchronous loop keeps one worker thread for good: chunks of 16 and at most
    // 4 + 16 wedged cases leave workers free for the watchdogs (24 workers)
    for chunk in lines.chunks(16) {
        if hangs >= 4 { rec.bump("stopped-early-after-4-hangs"); break; }
        verif_harness::journal(&chunk.iter().map(|(l, _)| base_line(l)).collect::<Vec<_>>());
        let obs: Vec<Obs> = rt.block_on(async {
            let hs: Vec<_> = chunk.iter().map(|(line, seed)| {
                let parts: Vec<&str> = line.split('|').collect();
                let script = parse_script(parts[1]);
                let seed = *seed;
                if parts[0] == "frame" { tokio::spawn(async move { Obs::F(run_frame(script, seed).await) }) }
                else { tokio::spawn(async move { Obs::S(run_session(script, seed).await) }) }
            }).collect();
            let mut out = vec![];
            for h in hs { out.push(h.await.expect("case task")); }
            out
        });
        for ((line, _), o) in chunk.iter().zip(obs) {
            let parts: Vec<&str> = line.split('|').collect();
            let script = parse_script(parts[1]);
            match o {
                Obs::F(o) => record_frame(&mut rec, line, &script, o, &fatal),
                Obs::S(o) => { if o.end == "hang" { hangs += 1; } record_sess(&mut rec, line, &script, o, &fatal); }
            }
        }
    }

    // 4. TESTING ONLY (no model, not part of the proof): panic-oracle fuzz of the parsers the
    //    model takes as a parameter. Results go to `extra`, a crash is reported as an oracle failure.
    let mut parser_inputs = 0u64;
    let mut parser_panics: Vec<String> = vec![];
    let nfuzz = if args.thorough { 2000000 } else { 100000 };
    for _ in 0..nfuzz {
        let mut m = some_message(&mut g);
        for _ in 0..g.range(1, 3) { mutate(&mut g, &mut m, &mut rec); }
        if m.len() < 6 { continue; }
        let l = m.len() as u32;
        if g.chance(3, 4) { m[1..5].copy_from_slice(&l.to_be_bytes()); }
        parser_inputs += 1;
        let mm = m.clone();
        let r = std::panic::catch_unwind(move || {
            if let Ok(msg) = routecore::bmp::message::Message::from_octets(&mm[..]) {
                // touch the accessors the receiver uses
                let _ = format!("{}", msg.common_header().msg_type());
                if let routecore::bmp::message::Message::RouteMonitoring(rm) = &msg {
                    let _ = rm.per_peer_header().address();
                    let _ = rm.bgp_update(&routecore::bgp::message::SessionConfig::modern());
                }
                if let routecore::bmp::message::Message::PeerUpNotification(pu) = &msg {
                    let _ = pu.session_config();
                    let _ = pu.bgp_open_rcvd().capabilities().count();
                }
            }
        });
        if r.is_err() { parser_panics.push(show_script(&vec![Item::Data(m)])); }
    }
    rec.extra.insert("testing_only_parser_fuzz_inputs".into(), serde_json::json!(parser_inputs));
    rec.extra.insert("testing_only_parser_fuzz_panics".into(), serde_json::json!(parser_panics.len()));
    rec.extra.insert("testing_only_parser_fuzz_panic_samples".into(), serde_json::json!(parser_panics.iter().take(3).collect::<Vec<_>>()));
    rec.finish(&args, t0.elapsed().as_secs_f64());
}
