//! BgpBytes engine (property C06, BGP receiver): arbitrary bytes into the REAL bgp-tcp-in stack.
//!
//! One case = one TCP connection of a "victim" peer to the real unit (`BgpTcpInRunner::run`, real listener, real
//! accept loop, real `handle_connection` -> routecore's real `Session` (read_frame / parse_frame / from_octets / FSM) ->
//! real `Processor::process`), driven into a session state with well-formed bytes (A = Active with the DelayOpenTimer
//! running (prefix-configured peer), S = OpenSent, C = OpenConfirm, E = Established), then fed the case's byte stream
//! (chunk by chunk), then end of input (FIN). A second, long-lived "bystander" session on the same unit announces a route
//! after every case: other sessions keep working.
//! case   `Y|<d|n>|<A|S|C|E>|<allowed AS or ->|<split>|<hex chunk> <hex chunk> …`
//!        d = Debug/Trace log level enabled (arguments of `debug!` are evaluated), n = Info; split = write every chunk in
//!        pieces of that many bytes (0 = whole; engine-only, the model sees the concatenation).
//! impl   `tx=<what the unit sent after the set-up: O,K,N<code>.<sub>> rx=<gate output of the session: B<n>,B?,W>
//!         live=<key still in live_sessions> panic=<site|->`
//! oracle Rust only, no Lean model: no panic (panic hook, by runtime thread), no wedge (the unit closes the connection
//!        within a generous bound after the peer's FIN), the session's end is cleaned up (key removed, Withdraw sent when
//!        the session had been negotiated, nothing after the Withdraw), the bystander's next UPDATE still arrives and its
//!        key is still live, the unit's task is still running.
//! Barriers (deterministic under load, no sleeps): the unit handles one connection's frames in order, so set-up bytes and
//! stream need no waits; but `Processor::process` picks between "next frame" and "next queued message" at random
//! (`tokio::select!`), so after a chunk that is a valid OPEN the engine waits for the unit's KEEPALIVE and the live key,
//! after a valid UPDATE on an established session for the Bulk, after a short NOTIFICATION under Debug for the
//! connection to go down (bounded; the wait ends as soon as the event arrives or the unit closes the connection).
use std::collections::BTreeMap;
use std::net::{IpAddr, Ipv4Addr, SocketAddr};
use std::sync::atomic::{AtomicBool, AtomicUsize, Ordering::SeqCst};
use std::sync::{Arc, Mutex};
use std::time::{Duration, Instant};

use rotonda::payload::Update;
use rotonda::roto_runtime::types::RouteContext;
use rotonda::verif::bgp_in as hook;
use rotonda::verif::gate::FnTarget;
use rotonda::verif::ingress as ving;
use tokio::io::{AsyncReadExt, AsyncWriteExt};
use tokio::net::{TcpSocket, TcpStream};
use verif_harness::{join, parse_args, replay_cases, rng::Rng, Recorder};

const ARRIVE: Duration = Duration::from_secs(6);
const WEDGE: Duration = Duration::from_secs(20);
const NOTIF_WAIT: Duration = Duration::from_secs(3);
const EXACT_ASN: u32 = 65001;
const POOL: usize = 220; // exact peers per unit

// ------------------------------------------------------------------ case

#[derive(Clone, Debug, PartialEq)]
struct Case { debug: bool, st: char, split: usize, chunks: Vec<Vec<u8>> }

fn hex(b: &[u8]) -> String { b.iter().map(|x| format!("{x:02x}")).collect() }
fn unhex(s: &str) -> Option<Vec<u8>> {
    if s.len() % 2 != 0 { return None; }
    (0..s.len() / 2).map(|i| u8::from_str_radix(&s[2 * i..2 * i + 2], 16).ok()).collect()
}
fn allowed_of(st: char) -> String { if st == 'A' { "-".into() } else { EXACT_ASN.to_string() } }
fn show_case(c: &Case) -> String {
    format!("Y|{}|{}|{}|{}|{}", if c.debug { "d" } else { "n" }, c.st, allowed_of(c.st), c.split, join(c.chunks.iter().map(|x| hex(x)), " "))
}
fn parse_case(l: &str) -> Option<Case> {
    let f: Vec<&str> = l.split('|').collect();
    if f.len() != 6 || f[0] != "Y" { return None; }
    let st = f[2].chars().next()?;
    if !"ASCE".contains(st) { return None; }
    Some(Case { debug: f[1] == "d", st, split: f[4].parse().ok()?, chunks: f[5].split_whitespace().map(unhex).collect::<Option<Vec<_>>>()? })
}

// ------------------------------------------------------------------ BGP bytes

fn hdr_len(ty: u8, body: &[u8], len: u16) -> Vec<u8> {
    let mut v = vec![0xFF; 16];
    v.extend_from_slice(&len.to_be_bytes());
    v.push(ty);
    v.extend_from_slice(body);
    v
}
fn hdr(ty: u8, body: &[u8]) -> Vec<u8> { hdr_len(ty, body, (19 + body.len()) as u16) }
fn cap(t: u8, v: &[u8]) -> Vec<u8> { let mut c = vec![t, v.len() as u8]; c.extend_from_slice(v); c }
/// OPEN body from the capabilities parameter bytes (`params` = complete optional parameters area)
fn open_body(asn2: u16, hold: u16, params: &[u8]) -> Vec<u8> {
    let mut b = vec![4];
    b.extend_from_slice(&asn2.to_be_bytes());
    b.extend_from_slice(&hold.to_be_bytes());
    b.extend_from_slice(&[10, 0, 0, 1]);
    b.push(params.len() as u8);
    b.extend_from_slice(params);
    b
}
fn caps_param(caps: &[Vec<u8>]) -> Vec<u8> { let all: Vec<u8> = caps.concat(); let mut p = vec![2, all.len() as u8]; p.extend_from_slice(&all); p }
fn valid_open(asn: u32) -> Vec<u8> {
    hdr(1, &open_body(if asn > 65535 { 23456 } else { asn as u16 }, 90, &caps_param(&[cap(1, &[0, 1, 0, 1]), cap(65, &asn.to_be_bytes())])))
}
fn keepalive() -> Vec<u8> { hdr(4, &[]) }
fn attrs_std() -> Vec<u8> {
    let mut a = vec![0x40, 1, 1, 0]; // ORIGIN IGP
    a.extend_from_slice(&[0x40, 2, 6, 2, 1]); a.extend_from_slice(&EXACT_ASN.to_be_bytes()); // AS_PATH one segment, one 4-byte AS
    a.extend_from_slice(&[0x40, 3, 4, 10, 0, 0, 1]); // NEXT_HOP
    a
}
fn update_body(wd: &[u8], attrs: &[u8], nlri: &[u8]) -> Vec<u8> {
    let mut b = (wd.len() as u16).to_be_bytes().to_vec();
    b.extend_from_slice(wd);
    b.extend_from_slice(&(attrs.len() as u16).to_be_bytes());
    b.extend_from_slice(attrs);
    b.extend_from_slice(nlri);
    b
}
fn valid_update(k: u32) -> Vec<u8> { hdr(2, &update_body(&[], &attrs_std(), &[24, 10, (k >> 8) as u8, k as u8])) }
fn notification(code: u8, sub: u8, data: &[u8]) -> Vec<u8> { let mut b = vec![code, sub]; b.extend_from_slice(data); hdr(3, &b) }

// ------------------------------------------------------------------ panics (per worker runtime, by thread name)

static PANICS: Mutex<Vec<(String, String, u32, String)>> = Mutex::new(Vec::new());
fn install_panic_hook() {
    let loud = std::env::var("VERIF_PANICS").is_ok();
    let default = std::panic::take_hook();
    std::panic::set_hook(Box::new(move |info| {
        let t = std::thread::current().name().unwrap_or("").to_string();
        let (file, line) = info.location().map(|l| { let f = l.file(); (f.rsplit("/src/").next().unwrap_or(f).to_string(), l.line()) }).unwrap_or_default();
        let msg = info.payload().downcast_ref::<String>().cloned().or_else(|| info.payload().downcast_ref::<&str>().map(|s| s.to_string())).unwrap_or_default();
        PANICS.lock().unwrap().push((t, file, line, msg));
        if loud { default(info); }
    }));
}
/// (model site token, oracle signature) of a panic location
fn site_of(file: &str, line: u32, msg: &str) -> (String, String) {
    let slug: String = msg.split_whitespace().take(4).collect::<Vec<_>>().join("-").chars().filter(|c| c.is_ascii_alphanumeric() || *c == '-').collect();
    let known: &[(&str, &str, &str, &str)] = &[
        ("bgp/fsm/session.rs", "subtract with overflow", "frameLen", "bgp:session-end-without-cleanup:frame-length-below-19"),
        ("bgp/message/open.rs", "subtract with overflow", "capSub", "bgpbytes:open-capability-multisession-len0:subtract-overflow"),
        ("bgp/message/open.rs", "parsed before", "asn4", "bgpbytes:open-my_asn:four-octet-capability-length-not-4-expect"),
        ("bgp/message/notification.rs", "index out of bounds", "notifDetails", "bgpbytes:notification-details-debug-log:index-out-of-bounds:needs-debug-log-level"),
    ];
    for (f, m, tok, sig) in known { if file.ends_with(f) && msg.contains(m) { return (tok.to_string(), sig.to_string()); } }
    if file.ends_with("bgp/message/open.rs") && msg.contains("unwrap()") {
        // ParametersParser::next (lines 676-681) vs CapabilitiesIter::next (line 616)
        return if line > 650 { ("paramIter".into(), "bgpbytes:open-parameters-iterator:unwrap-on-short-parameter".into()) } else { ("capIter".into(), "bgpbytes:open-capabilities-iterator:unwrap-on-malformed-capability".into()) };
    }
    if file.ends_with("bgp/fsm/session.rs") && msg.contains("not yet implemented") {
        return if line < 1600 { ("fsmOpenConfirm".into(), "bgpbytes:fsm-open-in-openconfirm:todo".into()) } else { ("fsmEstablished".into(), "bgpbytes:fsm-open-in-established:todo".into()) };
    }
    let f = file.replace('/', "_");
    (format!("{f}:{line}"), format!("bgpbytes:panic:{f}:{line}:{slug}"))
}

// ------------------------------------------------------------------ a worker: one unit, one bystander, cases in sequence

static NEXT_PORT: AtomicUsize = AtomicUsize::new(0);
/// connections that were not ended within WEDGE after end of input; every one costs WEDGE seconds, so after a few the
/// remaining cases are skipped (the verdict is a violation already)
static WEDGES: AtomicUsize = AtomicUsize::new(0);
const WEDGE_BUDGET: usize = 6;
fn free_port() -> u16 {
    loop {
        let n = NEXT_PORT.fetch_add(1, SeqCst);
        let base = verif_harness::port_slot(2000);
        let port = (base + n % 2000) as u16;
        if std::net::TcpListener::bind(("127.0.0.1", port)).is_ok() { return port; }
    }
}

async fn wait_until(limit: Duration, mut f: impl FnMut() -> bool) -> bool {
    let t = Instant::now();
    loop {
        if f() { return true; }
        if t.elapsed() > limit { return false; }
        tokio::time::sleep(Duration::from_millis(1)).await;
    }
}

fn update_id(u: &Update) -> Option<u32> {
    match u {
        Update::Bulk(ps) => ps.iter().find_map(|p| match &p.context { RouteContext::Fresh(f) => Some(f.provenance.ingress_id), _ => None }),
        Update::Single(p) => match &p.context { RouteContext::Fresh(f) => Some(f.provenance.ingress_id), _ => None },
        Update::Withdraw(id, _) => Some(*id),
        _ => None,
    }
}

/// The receiving half of a harness-side BGP speaker: everything the unit sends, frame by frame, and whether it has closed.
struct Rx { frames: Arc<Mutex<Vec<(u8, Vec<u8>)>>>, closed: Arc<AtomicBool> }
fn spawn_reader(mut r: tokio::net::tcp::OwnedReadHalf) -> Rx {
    let frames = Arc::new(Mutex::new(vec![]));
    let closed = Arc::new(AtomicBool::new(false));
    let (f2, c2) = (frames.clone(), closed.clone());
    tokio::spawn(async move {
        loop {
            let mut h = [0u8; 19];
            if r.read_exact(&mut h).await.is_err() { break; }
            let len = u16::from_be_bytes([h[16], h[17]]) as usize;
            let mut body = vec![0u8; len.saturating_sub(19)];
            if r.read_exact(&mut body).await.is_err() { break; }
            f2.lock().unwrap().push((h[18], body));
        }
        c2.store(true, SeqCst);
    });
    Rx { frames, closed }
}

async fn connect_from(addr: Ipv4Addr, port: u16) -> Option<TcpStream> {
    let sock = TcpSocket::new_v4().ok()?;
    let _ = sock.set_reuseaddr(true);
    sock.bind(SocketAddr::from((addr, 0))).ok()?;
    let s = tokio::time::timeout(Duration::from_secs(5), sock.connect(SocketAddr::from(([127, 0, 0, 1], port)))).await.ok()?.ok()?;
    let _ = s.set_nodelay(true);
    Some(s)
}

struct Worker {
    wi: usize,
    unit: hook::BgpInUnit,
    _link: rotonda::comms::Link,
    _target: Arc<FnTarget>,
    port: u16,
    collected: Arc<Mutex<Vec<Update>>>,
    by_w: tokio::net::tcp::OwnedWriteHalf,
    by_rx: Rx,
    by_id: u32,
    by_addr: Ipv4Addr,
    used: usize,
    seq: u32,
}

fn exact_addr(wi: usize, k: usize) -> Ipv4Addr { Ipv4Addr::new(127, 2 + wi as u8, (k / 250) as u8, (k % 250) as u8 + 1) }

async fn start_worker(wi: usize) -> Option<Worker> {
    for _ in 0..20 {
        let port = free_port();
        let mut toml = format!("listen = \"127.0.0.1:{port}\"\nmy_asn = 64999\nmy_bgp_id = [9, 9, 9, 9]\n");
        toml.push_str(&format!("\n[peers.\"127.{}.0.0/16\"]\nname = \"delay\"\nremote_asn = []\nprotocols = [\"Ipv4Unicast\", \"Ipv6Unicast\"]\n", 100 + wi));
        toml.push_str(&format!("\n[peers.\"127.1.{}.1\"]\nname = \"bystander\"\nremote_asn = 65000\nprotocols = [\"Ipv4Unicast\", \"Ipv6Unicast\"]\n", wi));
        for k in 0..POOL { toml.push_str(&format!("\n[peers.\"{}\"]\nname = \"x{k}\"\nremote_asn = {EXACT_ASN}\nprotocols = [\"Ipv4Unicast\", \"Ipv6Unicast\"]\n", exact_addr(wi, k))); }
        let cfg = hook::parse_unit(&toml).expect("unit config");
        let reg = Arc::new(ving::new_register());
        let (u, mut link) = hook::start(cfg, reg);
        let collected: Arc<Mutex<Vec<Update>>> = Arc::new(Mutex::new(vec![]));
        let c2 = collected.clone();
        let target = Arc::new(FnTarget(Arc::new(move |u: Update| { c2.lock().unwrap().push(u); })));
        link.set_direct_update_target(target.clone());
        let _ = link.connect(false).await;
        if !wait_until(Duration::from_secs(2), || u.listener_bound_count() >= 1).await { u.task.abort(); continue; }
        // the bystander: an established session that announces one route now and one after every case
        let by_addr = Ipv4Addr::new(127, 1, wi as u8, 1);
        let s = connect_from(by_addr, port).await?;
        let (r, mut w) = s.into_split();
        let by_rx = spawn_reader(r);
        let _ = w.write_all(&valid_open(65000)).await;
        let f = by_rx.frames.clone();
        if !wait_until(ARRIVE, || f.lock().unwrap().iter().any(|(t, _)| *t == 4)).await { return None; }
        let _ = w.write_all(&keepalive()).await;
        let _ = w.write_all(&valid_update(60000)).await;
        let c3 = collected.clone();
        if !wait_until(ARRIVE, || !c3.lock().unwrap().is_empty()).await { return None; }
        let by_id = update_id(&collected.lock().unwrap()[0])?;
        collected.lock().unwrap().clear();
        return Some(Worker { wi, unit: u, _link: link, _target: target, port, collected, by_w: w, by_rx, by_id, by_addr, used: 0, seq: 0 });
    }
    None
}

struct Outcome { case: String, imp: String, oracle: String, nontrivial: bool, notes: Vec<String>, discard: bool, panic_tok: String }

/// Is this chunk exactly one frame that routecore's own parser accepts? (barrier decisions only)
fn accepted_frame(chunk: &[u8]) -> Option<u8> {
    if chunk.len() < 19 || chunk[..16] != [0xFF; 16] || u16::from_be_bytes([chunk[16], chunk[17]]) as usize != chunk.len() { return None; }
    let b = bytes::Bytes::copy_from_slice(chunk);
    let sc = routecore::bgp::message::SessionConfig::modern();
    match std::panic::catch_unwind(|| routecore::bgp::message::Message::from_octets(b, Some(&sc)).is_ok()) { Ok(true) => Some(chunk[18]), _ => None }
}
fn has_mp(chunk: &[u8]) -> bool {
    // attribute type codes of an UPDATE the parser accepted
    let b = &chunk[19..];
    if b.len() < 4 { return false; }
    let wl = u16::from_be_bytes([b[0], b[1]]) as usize;
    if b.len() < 4 + wl { return false; }
    let al = u16::from_be_bytes([b[2 + wl], b[3 + wl]]) as usize;
    let mut a = &b[4 + wl..(4 + wl + al).min(b.len())];
    while a.len() >= 3 {
        let (hl, l) = if a[0] & 0x10 != 0 { if a.len() < 4 { break; } (4, u16::from_be_bytes([a[2], a[3]]) as usize) } else { (3, a[2] as usize) };
        if a[1] == 14 || a[1] == 15 { return true; }
        if a.len() < hl + l { break; }
        a = &a[hl + l..];
    }
    false
}

async fn run_case(w: &mut Worker, c: &Case, tname: &str) -> Outcome {
    let case = show_case(c);
    let discard = |why: &str| Outcome { case: case.clone(), imp: String::new(), oracle: String::new(), nontrivial: false, notes: vec![format!("discarded.{why}")], discard: true, panic_tok: String::new() };
    let t_case = Instant::now();
    w.seq += 1;
    let vaddr = if c.st == 'A' { Ipv4Addr::new(127, 100 + w.wi as u8, (w.seq >> 8) as u8, w.seq as u8) } else { let a = exact_addr(w.wi, w.used); w.used += 1; a };
    { let mut g = PANICS.lock().unwrap(); g.retain(|(t, ..)| t != tname); }
    { let mut g = EXPLODE_ERRS.lock().unwrap(); g.retain(|t| t != tname); }
    w.collected.lock().unwrap().clear();
    let Some(s) = connect_from(vaddr, w.port).await else { return discard("connect"); };
    let (r, mut wr) = s.into_split();
    let rx = spawn_reader(r);
    let frames = rx.frames.clone();
    let closed0 = rx.closed.clone();
    let tn = tname.to_string();
    // "gone": the unit closed the connection, or the connection's task panicked (a panicked established session keeps
    // its write half open: live_sessions holds a clone of pdu_out_tx, so the writer task never ends and never closes)
    let gone = move || closed0.load(SeqCst) || PANICS.lock().unwrap().iter().any(|(t, ..)| *t == tn);
    let closed = rx.closed.clone();
    let live_has = |w: &Worker| w.unit.live_keys().iter().any(|(a, _)| *a == IpAddr::V4(vaddr));
    // ---- set-up with well-formed bytes
    let mut was_negotiated = false;
    if c.st != 'A' {
        let f = frames.clone();
        if !wait_until(ARRIVE, || f.lock().unwrap().iter().any(|(t, _)| *t == 1)).await { return discard("setup-no-open"); }
    }
    if c.st == 'C' || c.st == 'E' {
        let _ = wr.write_all(&valid_open(EXACT_ASN)).await;
        let f = frames.clone();
        if !wait_until(ARRIVE, || f.lock().unwrap().iter().any(|(t, _)| *t == 4)).await { return discard("setup-no-keepalive"); }
        if !wait_until(ARRIVE, || live_has(w)).await { return discard("setup-not-live"); }
        was_negotiated = true;
    }
    if c.st == 'E' { let _ = wr.write_all(&keepalive()).await; }
    let tx_base = frames.lock().unwrap().len();
    // ---- the stream
    let mut tst = c.st; // the engine's own reading of where a well-behaved session would be (barriers only)
    let mut aligned = true;
    // UPDATEs with MP_REACH/MP_UNREACH: (index among the session's Bulks, whether a Bulk arrived) -> token `B?` either way;
    // conventional UPDATEs that `process_update` refused: token `Bx` at that position
    let mut mp_marks: Vec<(usize, bool)> = vec![];
    let mut plain_refused: Vec<usize> = vec![];
    let mut notes = vec![];
    // the stream is written frame by frame as an RFC 4271 reader would cut it (length field, >= 19, complete), so that the
    // barriers below sit between frames even when the case glues frames or trailing bytes into one chunk; what follows
    // the first place where that reading fails is written as one piece
    let stream: Vec<u8> = c.chunks.concat();
    let mut pieces: Vec<Vec<u8>> = vec![];
    let mut pos = 0usize;
    while stream.len() - pos >= 19 {
        let l = u16::from_be_bytes([stream[pos + 16], stream[pos + 17]]) as usize;
        if l < 19 || pos + l > stream.len() { break; }
        pieces.push(stream[pos..pos + l].to_vec());
        pos += l;
    }
    if pos < stream.len() { pieces.push(stream[pos..].to_vec()); }
    for ch in &pieces {
        let n_k = frames.lock().unwrap().iter().filter(|(t, _)| *t == 4).count();
        let n_b = w.collected.lock().unwrap().iter().filter(|u| matches!(u, Update::Bulk(_)) && update_id(u) != Some(w.by_id)).count();
        let n_e = EXPLODE_ERRS.lock().unwrap().iter().filter(|t| t.as_str() == tname).count();
        if c.split == 0 { let _ = wr.write_all(ch).await; } else { for piece in ch.chunks(c.split) { let _ = wr.write_all(piece).await; let _ = wr.flush().await; tokio::task::yield_now().await; } }
        let acc = if aligned { accepted_frame(ch) } else { None };
        if aligned && !(ch.len() >= 19 && u16::from_be_bytes([ch[16], ch[17]]) as usize == ch.len()) { aligned = false; }
        let cl = gone.clone();
        match acc {
            Some(1) if tst == 'A' || tst == 'S' => {
                let f = frames.clone();
                let got = wait_until(ARRIVE, || cl() || f.lock().unwrap().iter().filter(|(t, _)| *t == 4).count() > n_k).await;
                if got && !gone() { let cl = gone.clone(); if wait_until(ARRIVE, || cl() || live_has(w)).await && live_has(w) { was_negotiated = true; tst = 'C'; } }
                if !got { notes.push("barrier.open-timeout".into()); }
            }
            Some(4) if tst == 'C' => tst = 'E',
            // Active with the delay-open timer running: a KEEPALIVE sends the FSM to Idle with the connection kept
            Some(4) if tst == 'A' => tst = 'I',
            // an UPDATE before any OPEN reaches the processor, which leaves its loop (no NegotiatedConfig): wait for that,
            // else the frames behind it race with the processor's break
            Some(2) if tst == 'A' || tst == 'I' => { if !wait_until(ARRIVE, || cl()).await { notes.push("barrier.update-before-open-timeout".into()); } }
            Some(2) if tst == 'E' => {
                let col = w.collected.clone();
                let by = w.by_id;
                let tn2 = tname.to_string();
                let bulks = move || col.lock().unwrap().iter().filter(|u| matches!(u, Update::Bulk(_)) && update_id(u) != Some(by)).count();
                let b2 = bulks.clone();
                // the UPDATE is either exploded into a Bulk or refused by `process_update` (logged at Error level)
                let got = wait_until(ARRIVE, || cl() || b2() > n_b || EXPLODE_ERRS.lock().unwrap().iter().filter(|t| **t == tn2).count() > n_e).await;
                if !got { notes.push("barrier.bulk-timeout".into()); }
                let arrived = bulks() > n_b;
                let tn3 = tname.to_string();
                // (the log line is only the fast path: if its wording changes, the bounded wait running out with the session
                // still up is the same observation)
                let refused = EXPLODE_ERRS.lock().unwrap().iter().filter(|t| **t == tn3).count() > n_e || (!got && !cl());
                // (if the session had already ended neither happens: no token)
                if has_mp(ch) { if arrived || refused { mp_marks.push((n_b, arrived)); } } else if !arrived && refused { plain_refused.push(n_b); }
            }
            Some(3) if c.debug && ch.len() < 21 => { wait_until(NOTIF_WAIT, || cl()).await; }
            _ => {}
        }
    }
    // ---- end of input; the unit must end the session
    let _ = wr.shutdown().await;
    let cl = gone.clone();
    let ended = wait_until(WEDGE, || cl()).await;
    if !ended { WEDGES.fetch_add(1, SeqCst); }
    let peer_told = closed.load(SeqCst);
    drop(wr);
    if c.st == 'A' && t_case.elapsed() > Duration::from_secs(8) { return discard("delay-open-timer"); }
    // ---- observations
    let tx: Vec<String> = frames.lock().unwrap()[tx_base..].iter().map(|(t, b)| match t { 1 => "O".to_string(), 4 => "K".to_string(), 3 => format!("N{}.{}", b.first().copied().unwrap_or(0), b.get(1).copied().unwrap_or(0)), x => format!("T{x}") }).collect();
    let ups: Vec<Update> = w.collected.lock().unwrap().iter().filter(|u| update_id(u) != Some(w.by_id)).cloned().collect();
    let mut bi = 0usize;
    let mut rxs: Vec<String> = vec![];
    let phantoms = |bi: usize, rxs: &mut Vec<String>| { for (i, arrived) in &mp_marks { if *i == bi && !*arrived { rxs.push("B?".to_string()); } } for i in &plain_refused { if *i == bi { rxs.push("Bx".to_string()); } } };
    for u in &ups {
        if matches!(u, Update::Bulk(_)) || matches!(u, Update::Withdraw(_, None)) { if bi != usize::MAX { phantoms(bi, &mut rxs); } }
        let tok = match u {
            Update::Bulk(ps) => { let mp = mp_marks.iter().any(|(i, a)| *i == bi && *a); bi += 1; if mp { "B?".to_string() } else { format!("B{}", ps.len()) } }
            Update::Withdraw(_, None) => { bi = usize::MAX; "W".to_string() }
            Update::Withdraw(_, Some(_)) => "Waf".to_string(),
            Update::Single(_) => "S1".to_string(),
            Update::WithdrawBulk(_) => "WB".to_string(),
            Update::UpstreamStatusChange(_) => "EOS".to_string(),
            Update::OutputStream(_) => "OS".to_string(),
            _ => "other".to_string(),
        };
        rxs.push(tok);
    }
    if bi != usize::MAX { phantoms(bi, &mut rxs); }
    let live = live_has(w);
    let panics: Vec<(String, u32, String)> = { let mut g = PANICS.lock().unwrap(); let (mine, rest): (Vec<_>, Vec<_>) = g.drain(..).partition(|(t, ..)| t == tname); *g = rest; mine.into_iter().map(|(_, f, l, m)| (f, l, m)).collect() };
    let sites: Vec<(String, String)> = panics.iter().map(|(f, l, m)| site_of(f, *l, m)).collect();
    let panic_tok = if sites.is_empty() { "-".to_string() } else { join(sites.iter().map(|s| s.0.clone()), "+") };
    // ---- the bystander still works
    let n_by = w.collected.lock().unwrap().iter().filter(|u| update_id(u) == Some(w.by_id)).count();
    let _ = w.by_w.write_all(&valid_update(w.seq & 0xffff)).await;
    let col = w.collected.clone();
    let by = w.by_id;
    let by_ok = wait_until(ARRIVE, || col.lock().unwrap().iter().filter(|u| update_id(u) == Some(by)).count() > n_by).await;
    let by_live = w.unit.live_keys().iter().any(|(a, n)| *a == IpAddr::V4(w.by_addr) && *n == 65000) && !w.by_rx.closed.load(SeqCst);
    let unit_alive = !w.unit.task.is_finished();
    // ---- oracle
    let mut fails: Vec<String> = vec![];
    for (i, s) in sites.iter().enumerate() { fails.push(format!("{} at {}:{} {}", s.1, panics[i].0, panics[i].1, panics[i].2.split_whitespace().take(8).collect::<Vec<_>>().join("_"))); }
    if !ended { fails.push("bgpbytes:reader:wedged-connection-not-closed-after-end-of-input".into()); }
    if !unit_alive { fails.push("bgpbytes:unit:task-ended".into()); }
    if !by_ok || !by_live { fails.push(format!("bgpbytes:bystander:other-session-disturbed by_ok={by_ok} by_live={by_live}")); }
    let nw = rxs.iter().filter(|t| *t == "W").count();
    if ended && sites.is_empty() {
        if live { fails.push("bgpbytes:epilogue:live-session-left-behind".into()); }
        if was_negotiated && nw == 0 { fails.push("bgpbytes:epilogue:no-withdraw-after-negotiated-session-ended".into()); }
    }
    if nw > 1 || rxs.iter().position(|t| t == "W").map(|p| p + 1 != rxs.len()).unwrap_or(false) { fails.push("bgpbytes:epilogue:output-after-withdraw".into()); }
    if rxs.iter().any(|t| !(t.starts_with('B') || t == "W")) { fails.push(format!("bgpbytes:gate:unexpected-output {}", rxs.join(","))); }
    let oracle = if fails.is_empty() { "ok".to_string() } else {
        // consequences of a panic (no cleanup) are listed as detail of the panic's own signature
        let mut d = fails.join(" ; ");
        if !sites.is_empty() { d.push_str(&format!(" ; consequences: live={} withdraws={nw}", live as u8)); }
        format!("fail {d}")
    };
    let imp = format!("tx={} rx={} live={} panic={}{} ## ended={} closed={} by={}", if tx.is_empty() { "-".into() } else { tx.join(",") }, if rxs.is_empty() { "-".into() } else { rxs.join(",") }, live as u8, panic_tok, if ended { "" } else { " wedged" }, ended as u8, peer_told as u8, by_ok as u8);
    let total: usize = c.chunks.iter().map(|x| x.len()).sum();
    Outcome { case, imp, oracle, nontrivial: total >= 19, notes, discard: false, panic_tok }
}

fn run_worker(wi: usize, cases: Vec<(usize, Case)>) -> Vec<(usize, Outcome)> {
    let tname = format!("bgpbytes-w{wi}");
    let rt = tokio::runtime::Builder::new_multi_thread().worker_threads(2).thread_name(tname.clone()).enable_all().build().unwrap();
    let out = rt.block_on(async {
        let mut outs = vec![];
        let mut w: Option<Worker> = None;
        for (idx, c) in cases {
            if WEDGES.load(SeqCst) >= WEDGE_BUDGET { outs.push((idx, Outcome { case: show_case(&c), imp: String::new(), oracle: String::new(), nontrivial: false, notes: vec!["discarded.wedge-budget-exhausted".into()], discard: true, panic_tok: String::new() })); continue; }
            if w.as_ref().map(|x| x.used >= POOL).unwrap_or(true) {
                if let Some(old) = w.take() { old.unit.agent.terminate().await; old.unit.task.abort(); }
                w = start_worker(wi).await;
            }
            let Some(wk) = w.as_mut() else { outs.push((idx, Outcome { case: show_case(&c), imp: String::new(), oracle: String::new(), nontrivial: false, notes: vec!["discarded.no-unit".into()], discard: true, panic_tok: String::new() })); continue; };
            let o = run_case(wk, &c, &tname).await;
            // a broken bystander would fail every later case of this worker: start afresh
            if o.oracle.contains("bgpbytes:bystander") || o.oracle.contains("bgpbytes:unit") { if let Some(old) = w.take() { old.unit.task.abort(); } }
            outs.push((idx, o));
        }
        if let Some(old) = w.take() { old.unit.task.abort(); }
        outs
    });
    rt.shutdown_timeout(Duration::from_millis(300));
    out
}

fn run_all(cases: Vec<Case>, nthreads: usize) -> Vec<Outcome> {
    let mut per: Vec<Vec<(usize, Case)>> = (0..nthreads).map(|_| vec![]).collect();
    for (i, c) in cases.into_iter().enumerate() { per[i % nthreads].push((i, c)); }
    let hs: Vec<_> = per.into_iter().enumerate().map(|(wi, cs)| std::thread::spawn(move || run_worker(wi, cs))).collect();
    let mut all: Vec<(usize, Outcome)> = hs.into_iter().flat_map(|h| h.join().unwrap_or_default()).collect();
    all.sort_by_key(|x| x.0);
    all.into_iter().map(|x| x.1).collect()
}

// ------------------------------------------------------------------ logger: what a deployment with that level evaluates

/// `error!("unexpected state: {e}")` of `Processor::process` (an UPDATE that `process_update` could not explode), per runtime thread
static EXPLODE_ERRS: Mutex<Vec<String>> = Mutex::new(Vec::new());
struct FmtLogger;
impl log::Log for FmtLogger {
    fn enabled(&self, _: &log::Metadata) -> bool { true }
    fn log(&self, r: &log::Record) { let s = format!("{}", r.args()); if r.level() == log::Level::Error && s.starts_with("unexpected state: error") { EXPLODE_ERRS.lock().unwrap().push(std::thread::current().name().unwrap_or("").to_string()); } if std::env::var("VERIF_LOG").is_ok() { eprintln!("[{}] {} {}", r.level(), r.target(), s); } std::hint::black_box(s); }
    fn flush(&self) {}
}
static LOGGER: FmtLogger = FmtLogger;

// ------------------------------------------------------------------ generator

struct Gen { g: Rng, k: u32 }
impl Gen {
    fn below(&mut self, n: usize) -> usize { self.g.below(n as u64) as usize }
    fn pick<T: Clone>(&mut self, v: &[T]) -> T { v[self.below(v.len())].clone() }
    fn next_k(&mut self) -> u32 { self.k += 1; self.k % 60000 }
}

/// a well-formed message of a type, with some variety in its optional parts
fn base_msg(g: &mut Gen, ty: u8) -> Vec<u8> {
    match ty {
        1 => {
            let mut caps = vec![cap(1, &[0, 1, 0, 1])];
            if g.below(2) == 0 { caps.push(cap(1, &[0, 2, 0, 1])); }
            if g.below(3) == 0 { caps.push(cap(2, &[])); }
            if g.below(3) == 0 { caps.push(cap(64, &[0, 120, 0, 1, 1, 0])); }
            if g.below(4) == 0 { caps.push(cap(69, &[0, 1, 1, g.pick(&[1u8, 2, 3])])); }
            if g.below(4) == 0 { caps.push(cap(5, &[0, 1, 0, 1, 0, 2])); }
            if g.below(4) == 0 { caps.push(cap(73, &[2, b'h', b'i', 1, b'd'])); }
            if g.below(4) == 0 { caps.push(cap(g.pick(&[6u8, 70, 9, 8, 71, 66, 68, 75, 99, 128, 130, 131, 3, 0]), &[])); }
            if g.below(5) != 0 { caps.push(cap(65, &EXACT_ASN.to_be_bytes())); }
            let mut params = if g.below(3) == 0 { caps.iter().map(|c| caps_param(&[c.clone()])).collect::<Vec<_>>().concat() } else { caps_param(&caps) };
            if g.below(8) == 0 { let mut p = vec![g.pick(&[1u8, 3, 255]), 2, 7, 7]; p.extend_from_slice(&params); params = p; }
            hdr(1, &open_body(EXACT_ASN as u16, 90, &params))
        }
        2 => {
            let k = g.next_k();
            let wd: Vec<u8> = if g.below(3) == 0 { vec![24, 10, (k >> 8) as u8, k as u8] } else { vec![] };
            let mut attrs = if g.below(6) == 0 { vec![] } else { attrs_std() };
            if g.below(3) == 0 { attrs.extend_from_slice(&[0x80, 4, 4, 0, 0, 0, 9]); }
            if g.below(4) == 0 { attrs.extend_from_slice(&[0xC0, 8, 4, 0xFD, 0xE8, 0, 1]); }
            if g.below(5) == 0 { attrs.extend_from_slice(&[0xD0, 99, 0, 3, 1, 2, 3]); } // extended length, unknown type
            // MP_REACH (IPv6 unicast, one /32) / MP_UNREACH; sometimes with a value too short for the afi/safi peek
            if g.below(7) == 0 { let mut v = vec![0, 2, 1, 16]; v.extend_from_slice(&[0x20, 1, 0x0d, 0xb8, 0, 0, 0, 0, 0, 0, 0, 0, 0, 0, 0, 1]); v.push(0); v.extend_from_slice(&[32, 0x20, 1, 0x0d, 0xb8]); let cut = if g.below(4) == 0 { g.below(v.len()) } else { v.len() }; v.truncate(cut); attrs.extend_from_slice(&[0x80, 14, v.len() as u8]); attrs.extend_from_slice(&v); }
            if g.below(9) == 0 { let mut v = vec![0, 2, 1, 32, 0x20, 1, 0x0d, 0xb8]; let cut = if g.below(4) == 0 { g.below(v.len()) } else { v.len() }; v.truncate(cut); attrs.extend_from_slice(&[0x80, 15, v.len() as u8]); attrs.extend_from_slice(&v); }
            let mut nlri = vec![];
            if !attrs.is_empty() { for _ in 0..g.below(3) { let k = g.next_k(); let bits = g.pick(&[0u8, 8, 16, 24, 32, 20]); nlri.push(bits); let full = [10, (k >> 8) as u8, k as u8 & 0xF0, 0]; nlri.extend_from_slice(&full[..((bits as usize) + 7) / 8]); } }
            if g.below(4) == 0 && !wd.is_empty() { nlri.extend_from_slice(&wd); }
            hdr(2, &update_body(&wd, &attrs, &nlri))
        }
        3 => { let n = g.pick(&[0usize, 0, 1, 4]); let d: Vec<u8> = (0..n).map(|i| i as u8).collect(); notification(g.pick(&[1u8, 2, 3, 4, 5, 6, 7, 99]), g.pick(&[0u8, 1, 2, 9]), &d) }
        4 => keepalive(),
        5 => hdr(5, &[0, 1, 0, 1]),
        t => { let n = g.below(6); hdr(t, &vec![0xAB; n]) }
    }
}

/// one damage applied to a well-formed frame; returns the chunk and a label (length class / mechanism)
fn damage(g: &mut Gen, m: &[u8]) -> (Vec<u8>, &'static str) {
    let ty = m[18];
    let true_len = m.len();
    let min_len = match ty { 1 => 29, 2 => 23, 3 => 21, 4 => 19, _ => 19 };
    match g.below(12) {
        0 => (m.to_vec(), "intact"),
        // declared length below the header / below 19 / below the type's minimum / one off
        1 => { let l = g.pick(&[0u16, 1, 7, 17, 18]); let mut x = m.to_vec(); x[16..18].copy_from_slice(&l.to_be_bytes()); (x, "declared-below-19") }
        2 => { let l = if min_len > 19 { 19 + g.below(min_len - 19) } else { 19 }; let mut x = m[..l.min(true_len)].to_vec(); let xl = x.len() as u16; x[16..18].copy_from_slice(&xl.to_be_bytes()); (x, "cut-below-type-minimum") }
        // the frame cut at an arbitrary place, framing kept in sync (every declared length 19..true)
        3 => { let l = 19 + g.below(true_len - 19 + 1); let mut x = m[..l].to_vec(); x[16..18].copy_from_slice(&(l as u16).to_be_bytes()); (x, "cut-anywhere") }
        // declared length longer than the body: swallows what follows / waits for more
        4 => { let l = true_len + g.pick(&[1usize, 2, 19, 100, 4096 - true_len.min(4096), 4097, 60000]); let mut x = m.to_vec(); x[16..18].copy_from_slice(&(l.min(65535) as u16).to_be_bytes()); (x, "declared-longer") }
        // body longer than declared: trailing bytes are read as the next frame
        5 => { let mut x = m.to_vec(); let n = 1 + g.below(24); for _ in 0..n { x.push(g.pick(&[0u8, 0xFF, 3, 19])); } (x, "trailing-bytes") }
        // padded body with framing in sync
        6 => { let mut x = m.to_vec(); let n = 1 + g.below(8); for _ in 0..n { x.push(g.pick(&[0u8, 1, 2, 0xFF])); } let l = x.len() as u16; x[16..18].copy_from_slice(&l.to_be_bytes()); (x, "padded") }
        // an internal length field off by a little / a lot
        7 | 8 => {
            let mut x = m.to_vec();
            if true_len > 19 {
                let cand: Vec<usize> = match ty { 1 if true_len > 31 => vec![28, 30, 32.min(true_len - 1), 34.min(true_len - 1)], 2 if true_len > 23 => vec![19, 20, true_len.min(22) - 1, 23.min(true_len - 1), 26.min(true_len - 1)], _ => (19..true_len).collect() };
                let i = g.pick(&cand);
                x[i] = match g.below(4) { 0 => x[i].wrapping_add(1), 1 => x[i].wrapping_sub(1), 2 => 0, _ => 0xFF };
            }
            (x, "inner-length-field")
        }
        // any byte flipped
        9 => { let mut x = m.to_vec(); let i = g.below(true_len); x[i] ^= 1 << g.below(8); (x, "bit-flip") }
        // the type byte replaced
        10 => { let mut x = m.to_vec(); x[18] = g.pick(&[0u8, 1, 2, 3, 4, 5, 6, 255]); (x, "type-replaced") }
        // marker damaged
        _ => { let mut x = m.to_vec(); let i = g.below(16); x[i] = g.pick(&[0u8, 0xFE]); (x, "marker") }
    }
}

/// capability-level damage of an OPEN (the typed capability parser behind the iterators)
fn odd_open(g: &mut Gen) -> (Vec<u8>, &'static str) {
    let t = g.pick(&[1u8, 2, 3, 5, 6, 8, 9, 64, 65, 66, 67, 68, 69, 70, 71, 73, 75, 76, 128, 130, 131, 77]);
    let n = g.pick(&[0usize, 0, 1, 2, 3, 4, 5, 6, 7, 8]);
    let val: Vec<u8> = (0..n).map(|_| g.pick(&[0u8, 1, 2, 3, 4, 9, 200])).collect();
    let odd = cap(t, &val);
    let asn = cap(65, &EXACT_ASN.to_be_bytes());
    let caps = match g.below(4) { 0 => vec![odd, asn], 1 => vec![asn, odd], 2 => vec![cap(1, &[0, 1, 0, 1]), odd], _ => vec![odd] };
    let params = if g.below(2) == 0 { caps_param(&caps) } else { caps.iter().map(|c| caps_param(&[c.clone()])).collect::<Vec<_>>().concat() };
    (hdr(1, &open_body(EXACT_ASN as u16, 90, &params)), "open-odd-capability")
}

/// what drives a session that survived up to a Bulk (more traffic after the damaged message)
fn completion(g: &mut Gen, st: char) -> Vec<Vec<u8>> {
    let k = g.next_k();
    match st { 'A' | 'S' => vec![valid_open(EXACT_ASN), keepalive(), valid_update(k)], 'C' => vec![keepalive(), valid_update(k)], _ => vec![valid_update(k)] }
}

fn gen_structured(g: &mut Gen, debug: bool) -> (Case, Vec<String>) {
    let st = g.pick(&['A', 'S', 'C', 'E', 'E', 'E', 'S', 'C']);
    let ty = g.pick(&[1u8, 2, 3, 4, 5, 1, 2, 3, 6, 0, 255]);
    let mut chunks = vec![];
    let mut labels = vec![];
    // valid traffic first (sometimes), as far as the state allows
    if st == 'E' && g.below(2) == 0 { let k = g.next_k(); chunks.push(valid_update(k)); }
    let (d, label) = if ty == 1 && g.below(3) == 0 { odd_open(g) } else { let m = base_msg(g, ty); damage(g, &m) };
    labels.push(format!("gen.type{}.{}.{}", if ty > 5 { "X".to_string() } else { ty.to_string() }, label, st));
    labels.push(format!("gen.lenclass.{}", match d.len() { 0..=18 => "lt19", 19 => "19", 20..=22 => "20-22", 23..=28 => "23-28", 29..=64 => "29-64", _ => "gt64" }));
    chunks.push(d);
    match g.below(3) { 0 => { labels.push("gen.tail.eof".into()); } _ => { labels.push("gen.tail.more".into()); chunks.extend(completion(g, st)); } }
    let split = if g.below(5) == 0 { g.pick(&[1usize, 2, 7, 18, 19]) } else { 0 };
    labels.push(format!("gen.state.{st}"));
    labels.push(format!("gen.log.{}", if debug { "debug" } else { "info" }));
    (Case { debug, st, split, chunks }, labels)
}

fn gen_malformed(g: &mut Gen, debug: bool) -> (Case, Vec<String>) {
    let st = g.pick(&['A', 'S', 'C', 'E']);
    let mut chunks = vec![];
    let kind = g.below(4);
    for _ in 0..1 + g.below(4) {
        let c: Vec<u8> = match kind {
            // random bytes
            0 => { let n = g.below(70); (0..n).map(|_| g.below(256) as u8).collect() }
            // a marker, then random length / type / body
            1 => { let n = g.below(40); let body: Vec<u8> = (0..n).map(|_| g.below(256) as u8).collect(); let l = match g.below(4) { 0 => g.below(64) as u16, 1 => (19 + n) as u16, 2 => g.below(65536) as u16, _ => (19 + n + g.below(4)) as u16 }; hdr_len(g.below(7) as u8, &body, l) }
            // valid frames with a few bytes overwritten
            2 => { let ty = g.pick(&[1u8, 2, 3, 4]); let mut m = base_msg(g, ty); for _ in 0..1 + g.below(3) { let i = 16 + g.below(m.len() - 16); m[i] = g.below(256) as u8; } m }
            // valid frames glued or cut at arbitrary places
            _ => { let t1 = g.pick(&[1u8, 2, 3, 4]); let mut m = base_msg(g, t1); let t2 = g.pick(&[2u8, 3, 4]); m.extend_from_slice(&base_msg(g, t2)); let cut = g.below(m.len() + 1); m.truncate(cut); m }
        };
        if !c.is_empty() { chunks.push(c); }
    }
    let split = if g.below(3) == 0 { g.pick(&[1usize, 3, 18]) } else { 0 };
    (Case { debug, st, split, chunks }, vec![format!("malformed.kind{kind}.{st}"), format!("gen.log.{}", if debug { "debug" } else { "info" })])
}

/// The systematic part: every message type at every declared length, in every state, followed by end of input or by
/// more traffic. (a) the canonical message cut to L bytes with the header saying L (19 <= L <= true length + 3, padded
/// with zeroes beyond the true length), (b) the whole canonical message with the header saying L (0 <= L <= true + 3).
fn sweep(debug: bool) -> Vec<(Case, Vec<String>)> {
    let mut g = Gen { g: Rng::new(99), k: 50000 };
    let canon: Vec<Vec<u8>> = vec![
        hdr(1, &open_body(EXACT_ASN as u16, 90, &caps_param(&[cap(1, &[0, 1, 0, 1]), cap(65, &EXACT_ASN.to_be_bytes())]))),
        hdr(2, &update_body(&[16, 10, 9], &attrs_std(), &[24, 10, 200, 1])),
        notification(6, 2, &[1, 2]),
        keepalive(),
        hdr(5, &[0, 1, 0, 1]),
        hdr(9, &[1, 2, 3]),
    ];
    let mut out = vec![];
    for m in &canon {
        let ty = m[18];
        if debug && !(ty == 1 || ty == 3) { continue; }
        for st in ['A', 'S', 'C', 'E'] {
            for more in [false, true] {
                for l in 0..=m.len() + 3 {
                    for kind in 0..2 {
                        if kind == 0 && l < 19 { continue; }
                        let mut x = m.clone();
                        if kind == 0 { x.resize(l, 0); }
                        x[16..18].copy_from_slice(&(l as u16).to_be_bytes());
                        let mut chunks = vec![x];
                        if more { chunks.extend(completion(&mut g, st)); }
                        out.push((Case { debug, st, split: 0, chunks }, vec![format!("sweep.type{ty}.{}.{st}.{}", if kind == 0 { "cut-to-declared" } else { "declared-only" }, if more { "more" } else { "eof" })]));
                    }
                }
            }
        }
    }
    out
}

fn m_ff() -> Vec<u8> { vec![0xFF; 16] }
/// (variant site, case) — the kernel-checked counterexamples of `Props/BgpBytes.lean`, replayed first
fn witnesses() -> Vec<(&'static str, Case)> {
    let short = { let mut b = m_ff(); b.extend_from_slice(&[0, 7, 2]); b };
    let open_with = |caps: Vec<Vec<u8>>| hdr(1, &open_body(EXACT_ASN as u16, 90, &caps_param(&caps)));
    vec![
        ("frame", Case { debug: false, st: 'E', split: 0, chunks: vec![valid_update(1), short] }),
        ("capiter", Case { debug: false, st: 'S', split: 0, chunks: vec![open_with(vec![cap(1, &[])])] }),
        ("asn4", Case { debug: false, st: 'S', split: 0, chunks: vec![open_with(vec![cap(65, &[0, 1]), cap(2, &[]), cap(2, &[])])] }),
        ("fsmopen", Case { debug: false, st: 'E', split: 0, chunks: vec![valid_update(2), valid_open(EXACT_ASN)] }),
        ("fsmopen-c", Case { debug: false, st: 'C', split: 0, chunks: vec![valid_open(EXACT_ASN)] }),
        ("paramiter", Case { debug: false, st: 'S', split: 0, chunks: vec![hdr(1, &open_body(EXACT_ASN as u16, 90, &[1, 200]))] }),
        ("capsub", Case { debug: false, st: 'S', split: 0, chunks: vec![open_with(vec![cap(68, &[]), cap(2, &[])])] }),
        ("notiflog", Case { debug: true, st: 'E', split: 0, chunks: vec![valid_update(3), hdr(3, &[]), valid_update(4)] }),
        ("notiflog-info", Case { debug: false, st: 'E', split: 0, chunks: vec![valid_update(5), hdr(3, &[]), valid_update(6)] }),
    ]
}

fn main() {
    let args = parse_args();
    let t0 = Instant::now();
    install_panic_hook();
    let _ = log::set_logger(&LOGGER);
    let mut rec = Recorder::new("the stream holds at least one complete header (19 bytes)");
    let nthreads = 12usize;
    let mut dist: BTreeMap<String, u64> = BTreeMap::new();
    let (info_cases, debug_cases, wit): (Vec<Case>, Vec<Case>, Vec<(&'static str, Case)>) = if let Some(path) = &args.replay {
        let cs: Vec<Case> = replay_cases(path).iter().filter_map(|l| parse_case(l)).collect();
        (cs.iter().filter(|c| !c.debug).cloned().collect(), cs.iter().filter(|c| c.debug).cloned().collect(), vec![])
    } else {
        let wit = witnesses();
        let mut g = Gen { g: Rng::new(args.seed), k: 100 };
        let n = if args.thorough { 160000 } else { 9000 };
        let mut info = vec![];
        let mut debug = vec![];
        for (_, c) in &wit { if c.debug { debug.push(c.clone()); } else { info.push(c.clone()); } }
        for dbg in [false, true] { for (c, labels) in sweep(dbg) { for l in labels { *dist.entry(l).or_insert(0) += 1; } if dbg { debug.push(c); } else { info.push(c); } } }
        for i in 0..n {
            let dbg = i % 3 == 2;
            let (c, labels) = if i % 4 == 3 { gen_malformed(&mut g, dbg) } else { gen_structured(&mut g, dbg) };
            for l in labels { *dist.entry(l).or_insert(0) += 1; }
            if dbg { debug.push(c); } else { info.push(c); }
        }
        (info, debug, wit)
    };
    // phase 1: Info level (what a default deployment evaluates); phase 2: Trace (Debug logging enabled)
    log::set_max_level(log::LevelFilter::Info);
    let mut outs = run_all(info_cases, nthreads);
    log::set_max_level(log::LevelFilter::Trace);
    outs.extend(run_all(debug_cases, nthreads));
    log::set_max_level(log::LevelFilter::Info);
    // variants from the witnesses' own observations
    if args.replay.is_none() {
        let find = |name: &str| -> Option<&Outcome> { let c = &wit.iter().find(|(n, _)| *n == name)?.1; let line = show_case(c); outs.iter().find(|o| o.case == line) };
        for (site, tok) in [("frame", "frameLen"), ("capiter", "capIter"), ("asn4", "asn4"), ("fsmopen", "fsmEstablished"), ("notiflog", "notifDetails")] {
            if let Some(o) = find(site) { if !o.discard { rec.variant(site, if o.panic_tok.contains(tok) { "as-written" } else { "repaired" }); } }
        }
    }
    for (k, v) in dist { rec.bump_by(&k, v); }
    for o in outs {
        if o.discard { for n in &o.notes { rec.bump(n); } continue; }
        for n in &o.notes { rec.bump(n); }
        rec.bump(&format!("outcome.{}", if o.panic_tok != "-" { format!("panic.{}", o.panic_tok) } else if o.imp.contains("rx=-") { "ended-nothing-to-clean".to_string() } else if o.imp.contains("W live=0") { "ended-with-cleanup".to_string() } else { "other".to_string() }));
        // what was observed: tokens the unit sent / emitted
        if let Some(obs) = o.imp.split(" ## ").next() { for part in obs.split_whitespace().take(2) { if let Some((k, v)) = part.split_once('=') { if v != "-" { for t in v.split(',') { rec.bump(&format!("obs.{k}.{t}")); } } } } }
        rec.case(o.case, o.imp, o.oracle, o.nontrivial);
    }
    rec.finish(&args, t0.elapsed().as_secs_f64());
}
