//! ReconfUnits engine: what the *running* bgp-tcp-in unit and file-out target (and, see the sections below,
//! mrt-file-in / filter / null-out) do with a `Reconfigure`, on the real code.
//!
//! `G|<cfg>|<ev>;<ev>;…`  bgp-tcp-in. The real `BgpTcpInRunner::run` (real listener on 127.0.0.1, real accept
//!     loop, real `handle_connection` -> routecore `Session` -> `Processor::process`) is started with `<cfg>`;
//!     harness BGP speakers connect from 127.x.y.z (`c<slot>.<addr>.<asn>`), announce (`u<k>`), close (`x<k>`);
//!     `R<cfg>` sends the real `GateAgent::reconfigure(Unit::BgpTcpIn(..), new gate)` (what the manager's
//!     `reconfigure_unit` does). After *every* event: which of the case's three ports are in LISTEN state
//!     (`/proc/net/tcp`), the keys of `live_sessions`, which speaker connections are still open; per
//!     connection the OPEN rotonda sent (my_asn, bgp id, hold time, MP and ADD-PATH capabilities).
//! `F|<cfg>|<ev>;…`  file-out. The real `File::run` behind a real gate the harness serves (`gate.process()`
//!     loop); `e<r>` publishes an output-stream record, `b` a route update passing by, `L<cfg>`/`M<cfg>` a
//!     reload (target command first / upstream gate first): `TargetCommand::Reconfigure { File{..new link} }`
//!     + `GateAgent::reconfigure` of the upstream gate, as `Manager::spawn_internal` does for a kept
//!     target and its kept upstream. Observation: target task alive after every event, and at the end the
//!     lines of all three candidate files, each classified `<format><record>`.
//! Oracle (Rust only, no Lean): reference semantics of the property's clause — after a Reconfigure has been
//!     handled everything is judged by the new configuration, state that is not concerned survives, an
//!     identical configuration changes nothing. Signatures `reconf:<unit>:<setting-or-mechanism>`.
use std::collections::{BTreeMap, BTreeSet};
use std::net::{IpAddr, Ipv4Addr, SocketAddr};
use std::sync::{Arc, Mutex};
use std::time::{Duration, Instant};

use rotonda::comms::{Gate, GateAgent};
use rotonda::manager::{Coordinator, TargetCommand, UpstreamLinkReport};
use rotonda::payload::Update;
use rotonda::roto_runtime::types::{LogEntry, OutputStreamMessage, RouteContext};
use rotonda::verif::bgp_in as hook;
use rotonda::verif::gate::FnTarget;
use rotonda::verif::ingress as ving;
use tokio::io::{AsyncReadExt, AsyncWriteExt};
use tokio::net::{TcpSocket, TcpStream};
use verif_harness::rib::{encode_update, pool, Nlri, Safi, Upd};
use verif_harness::{join, parse_args, replay_cases, rng::Rng, Recorder};

// =================================================================== shared

async fn wait_until(limit: Duration, mut f: impl FnMut() -> bool) -> bool {
    let t = Instant::now();
    loop {
        if f() { return true; }
        if t.elapsed() > limit { return false; }
        tokio::time::sleep(Duration::from_millis(1)).await;
    }
}

/// The defect sites as found on the tree under test (decided by the witnesses, which run first).
#[derive(Clone, Copy, Debug, Default, PartialEq)]
struct Flags {
    /// `PartialEq for PeerConfig` also compares `protocols` and `addpath`
    bgpeq: bool,
    /// a live session looks its peer config up by its remote address (`get`), not by the key it matched at accept
    bgpmatch: bool,
    /// a changed `listen` alone does not disconnect the sessions
    bgplisten: bool,
    /// file-out handles `Reconfigure`
    fileout: bool,
    /// mrt-file-in handles `Reconfiguring`
    mrt: bool,
    /// bmp-tcp-in moves its HTTP endpoints to a changed `http_api_path`
    bmppath: bool,
    /// bmp-tcp-in reads the first message after a changed `tracing_mode` with the new mode
    bmptrace: bool,
}

struct Outcome { case: String, imp: String, oracle: String, nontrivial: bool, notes: Vec<String>, discard: bool }

fn fail_line(fails: &mut Vec<String>) -> String {
    match fails.first() {
        None => "ok".into(),
        Some(f) => format!("fail {}{}", f, if fails.len() > 1 { format!(" (+{} more: {})", fails.len() - 1, join(fails[1..].iter().map(|x| x.split_whitespace().next().unwrap_or("").to_string()).collect::<BTreeSet<_>>(), ",")) } else { String::new() }),
    }
}

static CASE_NO: std::sync::atomic::AtomicUsize = std::sync::atomic::AtomicUsize::new(0);
static PANICS: Mutex<Vec<(String, String)>> = Mutex::new(Vec::new());

fn install_panic_hook() {
    let loud = std::env::var("VERIF_PANICS").is_ok();
    let default = std::panic::take_hook();
    std::panic::set_hook(Box::new(move |info| {
        let t = std::thread::current().name().unwrap_or("").to_string();
        let loc = info.location().map(|l| { let f = l.file(); let f = f.rsplit("/src/").next().unwrap_or(f); format!("{}:{}", f, l.line()) }).unwrap_or_default();
        let msg = info.payload().downcast_ref::<String>().cloned().or_else(|| info.payload().downcast_ref::<&str>().map(|s| s.to_string())).unwrap_or_default();
        PANICS.lock().unwrap().push((t, format!("{} {}", loc, msg.split_whitespace().take(4).collect::<Vec<_>>().join("-"))));
        if loud { default(info); }
    }));
}
fn take_panics(tname: &str) -> Vec<String> {
    let mut g = PANICS.lock().unwrap();
    let (mine, rest): (Vec<_>, Vec<_>) = g.drain(..).partition(|(t, _)| t == tname);
    *g = rest;
    mine.into_iter().map(|(_, m)| m).collect()
}

// =================================================================== bgp-tcp-in

#[derive(Clone, Debug, PartialEq)]
enum Key { Exact(u32), Prefix(u8, u32) } // prefix: len, top `len` bits
#[derive(Clone, Debug, PartialEq)]
enum Asns { One(u32), Many(Vec<u32>) }
#[derive(Clone, Debug, PartialEq)]
struct Peer { key: Key, asns: Asns, hold: u16, protos: u8, addpath: u8, name: u8 }
#[derive(Clone, Debug, PartialEq)]
struct BCfg { listen: u8, asn: u32, bgpid: u8, peers: Vec<Peer> }
#[derive(Clone, Debug, PartialEq)]
enum BEv { Conn(u8, u32, u32), Upd(usize), Fin(usize), Reconf(BCfg) }
/// what an OPEN of rotonda says
#[derive(Clone, Debug, PartialEq)]
struct OpenP { asn: u32, bgpid: u8, hold: u16, protos: u8, addpath: u8 }

const PROTOS: &[&[(u16, u8, &str)]] = &[
    &[(1, 1, "Ipv4Unicast")],
    &[(1, 1, "Ipv4Unicast"), (2, 1, "Ipv6Unicast")],
    &[(1, 1, "Ipv4Unicast"), (2, 1, "Ipv6Unicast"), (1, 2, "Ipv4Multicast")],
];
const ADDPATH: &[&[(u16, u8, &str)]] = &[&[], &[(1, 1, "Ipv4Unicast")]];

fn ip_of(a: u32) -> Ipv4Addr { Ipv4Addr::from(a.to_be_bytes()) }
fn a4(b: u8, c: u8, d: u8) -> u32 { u32::from_be_bytes([127, b, c, d]) }

fn show_key(k: &Key) -> String { match k { Key::Exact(a) => format!("e{a}"), Key::Prefix(l, b) => format!("p{l}.{b}") } }
fn show_peer(p: &Peer) -> String {
    let a = match &p.asns { Asns::One(n) => format!("o{n}"), Asns::Many(v) => if v.is_empty() { "a".into() } else { format!("m{}", join(v.iter(), "+")) } };
    format!("{}~{a}~{}~{}~{}~{}", show_key(&p.key), p.hold, p.protos, p.addpath, p.name)
}
fn parse_peer(s: &str) -> Option<Peer> {
    let f: Vec<&str> = s.split('~').collect();
    if f.len() != 6 { return None; }
    let key = if let Some(r) = f[0].strip_prefix('e') { Key::Exact(r.parse().ok()?) } else if let Some(r) = f[0].strip_prefix('p') { let (l, b) = r.split_once('.')?; Key::Prefix(l.parse().ok()?, b.parse().ok()?) } else { return None };
    let asns = if f[1] == "a" { Asns::Many(vec![]) } else if let Some(r) = f[1].strip_prefix('o') { Asns::One(r.parse().ok()?) } else if let Some(r) = f[1].strip_prefix('m') { Asns::Many(r.split('+').map(|x| x.parse().ok()).collect::<Option<Vec<u32>>>()?) } else { return None };
    Some(Peer { key, asns, hold: f[2].parse().ok()?, protos: f[3].parse().ok()?, addpath: f[4].parse().ok()?, name: f[5].parse().ok()? })
}
fn show_bcfg(c: &BCfg) -> String { let mut s = format!("{},{},{}", c.listen, c.asn, c.bgpid); for p in &c.peers { s.push('/'); s.push_str(&show_peer(p)); } s }
fn parse_bcfg(s: &str) -> Option<BCfg> {
    let mut it = s.split('/');
    let h: Vec<&str> = it.next()?.split(',').collect();
    if h.len() != 3 { return None; }
    Some(BCfg { listen: h[0].parse().ok()?, asn: h[1].parse().ok()?, bgpid: h[2].parse().ok()?, peers: it.map(parse_peer).collect::<Option<Vec<_>>>()? })
}
fn show_bev(e: &BEv) -> String { match e { BEv::Conn(s, a, n) => format!("c{s}.{a}.{n}"), BEv::Upd(k) => format!("u{k}"), BEv::Fin(k) => format!("x{k}"), BEv::Reconf(c) => format!("R{}", show_bcfg(c)) } }
fn parse_bev(s: &str) -> Option<BEv> {
    let (h, r) = s.split_at(1);
    Some(match h {
        "c" => { let f: Vec<&str> = r.split('.').collect(); if f.len() != 3 { return None; } BEv::Conn(f[0].parse().ok()?, f[1].parse().ok()?, f[2].parse().ok()?) }
        "u" => BEv::Upd(r.parse().ok()?), "x" => BEv::Fin(r.parse().ok()?), "R" => BEv::Reconf(parse_bcfg(r)?),
        _ => return None,
    })
}
fn show_bcase(c: &BCfg, evs: &[BEv]) -> String { format!("G|{}|{}", show_bcfg(c), join(evs.iter().map(show_bev), ";")) }
fn parse_bcase(line: &str) -> Option<(BCfg, Vec<BEv>)> {
    let f: Vec<&str> = line.split('|').collect();
    if f.len() != 3 || f[0] != "G" { return None; }
    Some((parse_bcfg(f[1])?, if f[2].is_empty() { vec![] } else { f[2].split(';').map(parse_bev).collect::<Option<Vec<_>>>()? }))
}

fn toml_of(c: &BCfg, ports: &[u16; 3]) -> String {
    let mut s = format!("listen = \"127.0.0.1:{}\"\nmy_asn = {}\nmy_bgp_id = [9, 9, 9, {}]\n", ports[c.listen as usize % 3], c.asn, c.bgpid);
    for p in &c.peers {
        let k = match &p.key { Key::Exact(a) => format!("{}", ip_of(*a)), Key::Prefix(l, b) => format!("{}/{}", ip_of(if *l == 0 { 0 } else { b << (32 - *l as u32) }), l) };
        s.push_str(&format!("\n[peers.\"{k}\"]\nname = \"n{}\"\n", p.name));
        match &p.asns { Asns::One(n) => s.push_str(&format!("remote_asn = {n}\n")), Asns::Many(v) => s.push_str(&format!("remote_asn = [{}]\n", join(v.iter(), ", "))) }
        s.push_str(&format!("hold_time = {}\n", p.hold));
        s.push_str(&format!("protocols = [{}]\n", join(PROTOS[p.protos as usize % PROTOS.len()].iter().map(|x| format!("\"{}\"", x.2)), ", ")));
        s.push_str(&format!("addpath = [{}]\n", join(ADDPATH[p.addpath as usize % ADDPATH.len()].iter().map(|x| format!("\"{}\"", x.2)), ", ")));
    }
    s
}

// ---- BGP bytes (as in the BgpIn engine)
fn hdr(ty: u8, body: &[u8]) -> Vec<u8> { let mut v = vec![0xFF; 16]; v.extend_from_slice(&((19 + body.len()) as u16).to_be_bytes()); v.push(ty); v.extend_from_slice(body); v }
fn open_bytes(asn: u32, hold: u16, id: [u8; 4]) -> Vec<u8> {
    let mut caps = vec![];
    for (afi, safi) in [(1u16, 1u8), (2, 1), (1, 2), (2, 2)] { caps.extend_from_slice(&[1, 4]); caps.extend_from_slice(&afi.to_be_bytes()); caps.extend_from_slice(&[0, safi]); }
    caps.extend_from_slice(&[65, 4]);
    caps.extend_from_slice(&asn.to_be_bytes());
    let mut b = vec![4];
    b.extend_from_slice(&(if asn > 65535 { 23456u16 } else { asn as u16 }).to_be_bytes());
    b.extend_from_slice(&hold.to_be_bytes());
    b.extend_from_slice(&id);
    b.push((caps.len() + 2) as u8);
    b.push(2);
    b.push(caps.len() as u8);
    b.extend_from_slice(&caps);
    hdr(1, &b)
}
fn keepalive() -> Vec<u8> { hdr(4, &[]) }

/// my_asn (4-octet capability if present), hold time, last octet of the BGP id, MP families, ADD-PATH families
fn parse_open(b: &[u8]) -> Option<OpenP> {
    if b.len() < 10 { return None; }
    let mut asn = u16::from_be_bytes([b[1], b[2]]) as u32;
    let hold = u16::from_be_bytes([b[3], b[4]]);
    let bgpid = b[8];
    let optlen = b[9] as usize;
    let opts = b.get(10..10 + optlen)?;
    let mut mp: Vec<(u16, u8)> = vec![];
    let mut ap: Vec<(u16, u8)> = vec![];
    let mut i = 0;
    while i + 2 <= opts.len() {
        let (ty, len) = (opts[i], opts[i + 1] as usize);
        let val = opts.get(i + 2..i + 2 + len)?;
        i += 2 + len;
        if ty != 2 { continue; }
        let mut j = 0;
        while j + 2 <= val.len() {
            let (code, clen) = (val[j], val[j + 1] as usize);
            let cv = val.get(j + 2..j + 2 + clen)?;
            j += 2 + clen;
            match code {
                1 if clen == 4 => mp.push((u16::from_be_bytes([cv[0], cv[1]]), cv[3])),
                65 if clen == 4 => asn = u32::from_be_bytes([cv[0], cv[1], cv[2], cv[3]]),
                69 => { for t in cv.chunks(4) { if t.len() == 4 { ap.push((u16::from_be_bytes([t[0], t[1]]), t[2])); } } }
                _ => {}
            }
        }
    }
    let idx = |tab: &[&[(u16, u8, &str)]], got: &Vec<(u16, u8)>| -> u8 { tab.iter().position(|l| { let mut a: Vec<(u16, u8)> = l.iter().map(|x| (x.0, x.1)).collect(); let mut g = got.clone(); a.sort(); g.sort(); a == g }).map(|i| i as u8).unwrap_or(99) };
    Some(OpenP { asn, bgpid, hold, protos: idx(PROTOS, &mp), addpath: idx(ADDPATH, &ap) })
}
fn show_open(o: &OpenP) -> String { format!("{}.{}.{}.{}.{}", o.asn, o.bgpid, o.hold, o.protos, o.addpath) }

#[derive(Debug)]
enum Frame { Msg(u8, Vec<u8>), Eof, Timeout }
async fn read_frame(s: &mut TcpStream, wait: Duration) -> Frame {
    let mut h = [0u8; 19];
    // peek first: a timeout in the middle of `read_exact` would lose the bytes already taken
    let mut p = [0u8; 19];
    match tokio::time::timeout(wait, s.peek(&mut p)).await {
        Err(_) => return Frame::Timeout,
        Ok(Err(_)) | Ok(Ok(0)) => return Frame::Eof,
        Ok(Ok(_)) => {}
    }
    match tokio::time::timeout(Duration::from_secs(2), s.read_exact(&mut h)).await { Ok(Ok(_)) => {} _ => return Frame::Eof }
    let len = u16::from_be_bytes([h[16], h[17]]) as usize;
    let mut body = vec![0u8; len.saturating_sub(19)];
    match tokio::time::timeout(Duration::from_secs(2), s.read_exact(&mut body)).await { Ok(Ok(_)) => Frame::Msg(h[18], body), _ => Frame::Eof }
}

static NEXT_PORT: std::sync::atomic::AtomicUsize = std::sync::atomic::AtomicUsize::new(0);
fn free_port() -> u16 {
    loop {
        let n = NEXT_PORT.fetch_add(1, std::sync::atomic::Ordering::SeqCst);
        // below the other engines' ranges (>= 10000) and below the ephemeral range
        let base = verif_harness::port_slot(2000);
        let port = (base + n % 2000) as u16;
        if std::net::TcpListener::bind(("127.0.0.1", port)).is_ok() { return port; }
    }
}
/// the ports among `ports` on which a socket bound to 127.0.0.1 is in LISTEN state
fn listening(ports: &[u16; 3]) -> Vec<usize> {
    let txt = std::fs::read_to_string("/proc/net/tcp").unwrap_or_default();
    let mut v = vec![];
    for (i, p) in ports.iter().enumerate() {
        let want = format!("0100007F:{:04X}", p);
        if txt.lines().any(|l| { let f: Vec<&str> = l.split_whitespace().collect(); f.len() > 3 && f[1] == want && f[3] == "0A" }) { v.push(i); }
    }
    v
}

struct BConn { stream: Option<TcpStream>, addr: u32, asn: u32, est: bool, id: Option<u32>, open: Option<OpenP>, key: Option<Key>, notif: Option<String> }

// ---- the engine's own transliteration of the session's decision (only used to know what to wait for)
fn key_contains(k: &Key, a: u32) -> bool { match k { Key::Exact(e) => *e == a, Key::Prefix(l, b) => *l == 0 || a >> (32 - *l as u32) == *b } }
/// exact entry, else longest prefix (the oracle's and the waiter's reading; `PeerConfigs::get` itself is on the Lean side and in the real code)
fn spec_match<'a>(c: &'a BCfg, addr: u32) -> Option<&'a Peer> {
    if let Some(e) = c.peers.iter().find(|e| e.key == Key::Exact(addr)) { return Some(e); }
    c.peers.iter().filter(|e| matches!(&e.key, Key::Prefix(..)) && key_contains(&e.key, addr)).max_by_key(|e| match &e.key { Key::Prefix(l, _) => *l, _ => 0 })
}
fn spec_allows(e: &Peer, asn: u32) -> bool { match &e.asns { Asns::One(n) => *n == asn, Asns::Many(v) => v.is_empty() || v.contains(&asn) } }
fn open_of(c: &BCfg, p: &Peer) -> OpenP { OpenP { asn: c.asn, bgpid: c.bgpid, hold: p.hold, protos: p.protos, addpath: p.addpath } }

/// Will the code under test (with the sites as detected) end this session on `new`? `at` = config at accept.
fn predict_end(f: Flags, at: &BCfg, key: &Key, addr: u32, new: &BCfg) -> bool {
    if (!f.bgplisten && at.listen != new.listen) || at.asn != new.asn || at.bgpid != new.bgpid { return true; }
    let cur = at.peers.iter().find(|p| p.key == *key);
    let np = if f.bgpmatch { spec_match(new, addr).filter(|p| p.key == *key) } else { new.peers.iter().find(|p| p.key == *key) };
    match (cur, np) {
        (Some(c), Some(n)) => !(c.asns == n.asns && c.hold == n.hold && (!f.bgpeq || (c.protos == n.protos && c.addpath == n.addpath))),
        _ => true,
    }
}

struct BRaw { toks: Vec<String>, states: Vec<(Vec<usize>, Vec<(u32, u32)>, Vec<usize>)>, conns: Vec<(bool, Option<u32>, Option<OpenP>)>, ended_by_reconf: Vec<Vec<(usize, bool, Option<String>)>>, discard: bool, unit_died: bool }

async fn run_bgp(flags: Flags, cfg0: &BCfg, evs: &[BEv]) -> BRaw {
    let reg = Arc::new(ving::new_register());
    let collected: Arc<Mutex<Vec<Update>>> = Arc::new(Mutex::new(vec![]));
    let ports = [free_port(), free_port(), free_port()];
    let bad = |why: &str| BRaw { toks: vec![why.to_string()], states: vec![], conns: vec![], ended_by_reconf: vec![], discard: true, unit_died: false };
    let parsed = match hook::parse_unit(&toml_of(cfg0, &ports)) { Ok(c) => c, Err(e) => return bad(&format!("bad-config:{}", e.replace(|c: char| c.is_whitespace() || c == '|', "_"))) };
    let (mut unit, mut link) = hook::start(parsed, reg.clone());
    let c2 = collected.clone();
    let target = Arc::new(FnTarget(Arc::new(move |u: Update| { c2.lock().unwrap().push(u); })));
    link.set_direct_update_target(target.clone());
    let _ = link.connect(false).await;
    let mut links = vec![link];
    if !wait_until(Duration::from_millis(2500), || unit.listener_bound_count() >= 1 && listening(&ports).contains(&(cfg0.listen as usize % 3))).await { unit.task.abort(); return bad("no-listener"); }
    let mut cur = cfg0.clone();
    let mut conns: Vec<BConn> = vec![];
    let mut at_accept: Vec<Option<BCfg>> = vec![];
    let mut toks = vec![];
    let mut states = vec![];
    let mut ended_by_reconf = vec![];
    let mut seen = 0usize;
    let info_ids = |reg: &ving::Register| -> Vec<u32> { (1..=300u32).filter(|i| reg.get(*i).is_some()).collect() };
    let mut closed_in_wait: Vec<usize> = vec![];
    for ev in evs {
        let tok: String = match ev {
            BEv::Conn(slot, addr, asn) => {
                let sock = TcpSocket::new_v4().unwrap();
                let _ = sock.set_reuseaddr(true);
                let bound = sock.bind(SocketAddr::from((ip_of(*addr), 0)));
                let before = info_ids(&reg);
                let res = match bound { Err(_) => None, Ok(()) => tokio::time::timeout(Duration::from_secs(2), sock.connect(SocketAddr::from(([127, 0, 0, 1], ports[*slot as usize % 3])))).await.ok().and_then(|r| r.ok()) };
                match res {
                    None => { conns.push(BConn { stream: None, addr: *addr, asn: *asn, est: false, id: None, open: None, key: None, notif: None }); at_accept.push(None); "refused".into() }
                    Some(mut s) => {
                        let _ = s.set_nodelay(true);
                        let _ = s.write_all(&open_bytes(*asn, 90, [10, 0, (*addr >> 8) as u8, *addr as u8])).await;
                        let (mut got_open, mut got_ka, mut verdict, mut newid) = (None, false, String::new(), None);
                        let t = Instant::now();
                        loop {
                            if t.elapsed() > Duration::from_secs(4) { verdict = "stuck".into(); break; }
                            match read_frame(&mut s, Duration::from_millis(5)).await {
                                Frame::Msg(1, b) => got_open = parse_open(&b),
                                Frame::Msg(4, _) => { if !got_ka { let _ = s.write_all(&keepalive()).await; } got_ka = true; }
                                Frame::Msg(3, b) => { verdict = format!("notif{}.{}", b.first().copied().unwrap_or(0), b.get(1).copied().unwrap_or(0)); }
                                Frame::Msg(_, _) => {}
                                Frame::Eof => { if verdict.is_empty() { verdict = if got_open.is_some() { "rejected".into() } else { "nocfg".into() }; } break; }
                                Frame::Timeout => {
                                    if got_open.is_some() && got_ka && verdict.is_empty() {
                                        let now = info_ids(&reg);
                                        if let Some(n) = now.iter().find(|i| !before.contains(i)) { newid = Some(*n); verdict = "neg".into(); break; }
                                    }
                                }
                            }
                        }
                        let est = verdict == "neg";
                        let v = match verdict.as_str() { "notif2.2" => "badas".to_string(), "notif6.5" => "rejected".to_string(), "neg" => format!("neg{}({})", newid.unwrap_or(0), got_open.as_ref().map(show_open).unwrap_or_default()), x => x.to_string() };
                        let key = spec_match(&cur, *addr).map(|p| p.key.clone());
                        conns.push(BConn { stream: if est { Some(s) } else { None }, addr: *addr, asn: *asn, est, id: newid, open: got_open, key, notif: None });
                        at_accept.push(Some(cur.clone()));
                        v
                    }
                }
            }
            BEv::Upd(k) => match conns.get_mut(*k).and_then(|c| c.stream.as_mut()) {
                None => "nc".into(),
                Some(s) => {
                    let p = pool();
                    let u = Upd { attr: 1 + (*k as u32 % 30), ann: vec![Nlri { pfx: p[*k % 4], safi: Safi::U }], wd: vec![], mp4: false, corrupt: 0 };
                    let (pdu, _) = encode_update(&u).unwrap();
                    let n0 = collected.lock().unwrap().len();
                    let sent = s.write_all(&pdu).await.is_ok();
                    let c3 = collected.clone();
                    let arrived = sent && wait_until(Duration::from_millis(1500), || c3.lock().unwrap().len() > n0).await;
                    if arrived { "sent".into() } else { "lost".into() }
                }
            },
            BEv::Fin(k) => match conns.get_mut(*k) {
                Some(c) if c.stream.is_some() => {
                    let mut s = c.stream.take().unwrap();
                    let n0 = collected.lock().unwrap().len();
                    let _ = s.shutdown().await;
                    drop(s);
                    let c3 = collected.clone();
                    if wait_until(Duration::from_secs(4), || c3.lock().unwrap().len() > n0).await { "ended".into() } else { "noend".into() }
                }
                _ => "nc".into(),
            },
            BEv::Reconf(new) => {
                let parsed = match hook::parse_unit(&toml_of(new, &ports)) { Ok(c) => c, Err(_) => { unit.task.abort(); return bad("bad-config"); } };
                let bound0 = unit.listener_bound_count();
                // The new gate, as the manager makes one per unit and load. The harness is the downstream: it
                // subscribes to the new gate *before* the gate is handed over, so that the swapped-in subscriber
                // map already contains it and nothing the unit publishes right after the swap is lost (the real
                // downstreams re-subscribe afterwards: known finding traffic:update-lost-in-reconfigure-window).
                let (new_gate, mut new_agent) = Gate::new(0);
                let mut l = new_agent.create_link();
                l.set_direct_update_target(target.clone());
                let _ = new_gate.process_until(async { let _ = l.connect(false).await; }).await;
                links.push(l);
                let sent = match unit.agent.reconfigure(rotonda::units::Unit::BgpTcpIn(parsed), new_gate).await {
                    Ok(()) => {
                        unit.agent = new_agent;
                        // acknowledgement: a ReportLinks sent through the new agent is handled after the Reconfigure
                        let rep = UpstreamLinkReport::new();
                        let _ = unit.agent.report_links(rep.clone()).await;
                        let r2 = rep.clone();
                        wait_until(Duration::from_secs(4), || r2.ready()).await
                    }
                    Err(_) => false,
                };
                if new.listen != cur.listen { wait_until(Duration::from_secs(4), || unit.listener_bound_count() > bound0 && listening(&ports) == vec![new.listen as usize % 3]).await; }
                // what this tree is expected to end; wait for exactly that (bounded), then a grace period for anything else
                let expect: Vec<usize> = (0..conns.len()).filter(|k| conns[*k].stream.is_some() && predict_end(flags, at_accept[*k].as_ref().unwrap(), conns[*k].key.as_ref().unwrap(), conns[*k].addr, new)).collect();
                let t = Instant::now();
                let mut done: Vec<usize> = vec![];
                while t.elapsed() < Duration::from_secs(4) && done.len() < expect.len() {
                    for k in &expect { if done.contains(k) { continue; } let c = &mut conns[*k]; if let Some(s) = c.stream.as_mut() { loop { match read_frame(s, Duration::from_millis(1)).await { Frame::Msg(3, b) => c.notif = Some(format!("{}.{}", b.first().copied().unwrap_or(0), b.get(1).copied().unwrap_or(0))), Frame::Msg(..) => {}, Frame::Eof => { c.stream = None; done.push(*k); closed_in_wait.push(*k); break; } Frame::Timeout => break } } } }
                    tokio::time::sleep(Duration::from_millis(2)).await;
                }
                let ids: Vec<u32> = expect.iter().filter_map(|k| conns[*k].id).collect();
                let c3 = collected.clone();
                wait_until(Duration::from_secs(2), || { let g = c3.lock().unwrap(); ids.iter().all(|i| g.iter().any(|u| matches!(u, Update::Withdraw(w, None) if w == i))) }).await;
                tokio::time::sleep(Duration::from_millis(if sent { 60 } else { 300 })).await;
                cur = new.clone();
                if sent { "r".into() } else { "r!".into() }
            }
        };
        // ---- state after the event
        tokio::time::sleep(Duration::from_millis(3)).await;
        let mut closed_now: Vec<usize> = std::mem::take(&mut closed_in_wait);
        for (k, c) in conns.iter_mut().enumerate() {
            if let Some(s) = c.stream.as_mut() {
                loop { match read_frame(s, Duration::from_millis(1)).await { Frame::Msg(3, b) => c.notif = Some(format!("{}.{}", b.first().copied().unwrap_or(0), b.get(1).copied().unwrap_or(0))), Frame::Msg(..) => {}, Frame::Eof => { c.stream = None; closed_now.push(k); break; } Frame::Timeout => break } }
            }
        }
        let outs: Vec<Update> = { let g = collected.lock().unwrap(); let v = g[seen..].to_vec(); seen = g.len(); v };
        let mut wd: Vec<u32> = outs.iter().filter_map(|u| if let Update::Withdraw(i, None) = u { Some(*i) } else { None }).collect();
        wd.sort();
        let bulk: Vec<u32> = outs.iter().filter_map(|u| match u { Update::Bulk(ps) => ps.iter().find_map(|p| match &p.context { RouteContext::Fresh(f) => Some(f.provenance.ingress_id), _ => None }), _ => None }).collect();
        let other = outs.iter().filter(|u| !matches!(u, Update::Withdraw(_, None) | Update::Bulk(_))).count();
        let mut tok = tok;
        if matches!(ev, BEv::Reconf(_)) {
            // sessions that ended during this step: (connection, withdrawn?, notification)
            let mut ended: Vec<(usize, bool, Option<String>)> = vec![];
            for (k, c) in conns.iter().enumerate() { if c.est && c.stream.is_none() && (closed_now.contains(&k) || c.id.map(|i| wd.contains(&i)).unwrap_or(false)) && !ended_by_reconf.iter().flatten().any(|(j, _, _): &(usize, bool, Option<String>)| *j == k) { ended.push((k, c.id.map(|i| wd.contains(&i)).unwrap_or(false), c.notif.clone())); } }
            let mut parts: Vec<String> = vec![];
            for (k, w, n) in &ended { parts.push(format!("{}{}{}", if *w { "W" } else { "C" }, conns[*k].id.unwrap_or(0), n.as_ref().map(|x| format!("n{x}")).unwrap_or("x".into()))); }
            parts.sort_by_key(|p| p[1..].split(|c: char| !c.is_ascii_digit()).next().unwrap_or("0").parse::<u32>().unwrap_or(0));
            for w in &wd { if !ended.iter().any(|(k, _, _)| conns[*k].id == Some(*w)) { parts.push(format!("w{w}")); } }
            tok = format!("{tok}[{}]", parts.join(","));
            ended_by_reconf.push(ended);
        } else {
            ended_by_reconf.push(vec![]);
            if !wd.is_empty() { tok = format!("{tok}>W{}", join(wd.iter(), ",W")); }
            if !closed_now.is_empty() && !matches!(ev, BEv::Fin(_)) { tok = format!("{tok}!closed{}", join(closed_now.iter(), ",")); }
        }
        if !bulk.is_empty() { tok = format!("{tok}>B{}", join(bulk.iter(), ",B")); }
        if other > 0 { tok = format!("{tok}>other{other}"); }
        let mut live: Vec<(u32, u32)> = unit.live_keys().into_iter().map(|(a, n)| (match a { IpAddr::V4(v) => u32::from_be_bytes(v.octets()), _ => 0 }, n)).collect();
        live.sort();
        let open: Vec<usize> = (0..conns.len()).filter(|k| conns[*k].stream.is_some()).collect();
        states.push((listening(&ports), live, open));
        toks.push(tok);
    }
    let unit_died = unit.task.is_finished();
    unit.agent.terminate().await;
    wait_until(Duration::from_secs(2), || unit.task.is_finished()).await;
    unit.task.abort();
    let cs = conns.iter().map(|c| (c.est, c.id, c.open.clone())).collect();
    drop(conns);
    drop(links);
    BRaw { toks, states, conns: cs, ended_by_reconf, discard: false, unit_died }
}

fn show_state(s: &(Vec<usize>, Vec<(u32, u32)>, Vec<usize>)) -> String {
    format!("P{}:L{}:O{}", join(s.0.iter(), ""), if s.1.is_empty() { "-".into() } else { join(s.1.iter().map(|(a, n)| format!("{a}.{n}")), ",") }, if s.2.is_empty() { "-".into() } else { join(s.2.iter(), ",") })
}

fn bgp_case(flags: Flags, cfg0: &BCfg, evs: &[BEv]) -> Outcome {
    let tname = format!("reconfunits-{}", CASE_NO.fetch_add(1, std::sync::atomic::Ordering::SeqCst));
    let rt = tokio::runtime::Builder::new_multi_thread().worker_threads(2).thread_name(tname.clone()).enable_all().build().unwrap();
    let raw = rt.block_on(run_bgp(flags, cfg0, evs));
    rt.shutdown_timeout(Duration::from_millis(200));
    let panics = take_panics(&tname);
    let mut fails: Vec<String> = vec![];
    let mut notes: Vec<String> = vec![];
    for p in &panics { fails.push(format!("reconf:bgp-tcp-in:panic {}", p.replace(' ', "_"))); }
    if raw.unit_died { fails.push("reconf:bgp-tcp-in:unit-task-ended".into()); }

    // ---- reference semantics (the property's reading; no transliteration of the session's decision)
    struct RS { conn: usize, addr: u32, asn: u32, open: OpenP, key: Key, id: Option<u32>, stale: bool }
    let mut cur = cfg0.clone();
    let mut live: Vec<RS> = vec![];
    let mut nconn = 0usize;
    let mut reconfs_with_sessions = 0usize;
    if !raw.discard {
        for (i, ev) in evs.iter().enumerate() {
            let tok = raw.toks.get(i).cloned().unwrap_or_default();
            let head = tok.split(|c| c == '>' || c == '[' || c == '!').next().unwrap_or("").to_string();
            let st = &raw.states[i];
            match ev {
                BEv::Conn(slot, addr, asn) => {
                    let k = nconn; nconn += 1;
                    let want = if *slot as usize % 3 != cur.listen as usize % 3 { "refused".to_string() } else {
                        match spec_match(&cur, *addr) {
                            None => "nocfg".into(),
                            Some(e) if !spec_allows(e, *asn) => "badas".into(),
                            Some(e) => if live.iter().any(|s| s.addr == *addr && s.asn == *asn) { "rejected".into() } else { format!("neg({})", show_open(&open_of(&cur, e))) },
                        }
                    };
                    // the id is not the subject here
                    let got = if head.starts_with("neg") { format!("neg{}", &head[head.find('(').unwrap_or(head.len())..]) } else { head.clone() };
                    if got != want {
                        let what = if want == "refused" || got == "refused" { "listen-not-adopted" } else if got.starts_with("neg") && want.starts_with("neg") { "new-session-parameters-not-from-current-config" } else { "new-connection-not-judged-by-current-config" };
                        fails.push(format!("reconf:bgp-tcp-in:{what} event {i} {} expected {want} got {got}", show_bev(ev)));
                    }
                    if got.starts_with("neg") {
                        let (_, id, open) = raw.conns[k].clone();
                        if let (Some(open), Some(e)) = (open, spec_match(&cur, *addr)) { live.push(RS { conn: k, addr: *addr, asn: *asn, open, key: e.key.clone(), id, stale: false }); }
                    }
                    notes.push(format!("conn-{}", want.split('(').next().unwrap_or("")));
                }
                BEv::Upd(k) => {
                    if let Some(s) = live.iter().find(|s| s.conn == *k) {
                        let ok = s.id.map(|id| tok.contains(&format!(">B{id}"))).unwrap_or(false);
                        if !ok { fails.push(format!("reconf:bgp-tcp-in:kept-session-not-delivering event {i} connection {k} got {tok}")); }
                        notes.push("upd-live".into());
                    } else if head != "nc" { fails.push(format!("reconf:bgp-tcp-in:ended-session-still-delivering event {i} connection {k} got {tok}")); }
                }
                BEv::Fin(k) => {
                    if let Some(p) = live.iter().position(|s| s.conn == *k) {
                        let s = live.remove(p);
                        if !s.id.map(|id| tok.contains(&format!(">W{id}"))).unwrap_or(false) { fails.push(format!("reconf:bgp-tcp-in:session-ended-without-cleanup event {i} close of connection {k}: no Withdraw, got {tok}")); }
                    }
                }
                BEv::Reconf(new) => {
                    if !live.is_empty() { reconfs_with_sessions += 1; }
                    if head != "r" { fails.push(format!("reconf:bgp-tcp-in:reconfigure-not-accepted event {i}")); }
                    let identical = *new == cur;
                    let ended = &raw.ended_by_reconf[i];
                    let mut keep: Vec<RS> = vec![];
                    for s in live.drain(..) {
                        let m = spec_match(new, s.addr);
                        let invalid = match m { None => true, Some(e) => !spec_allows(e, s.asn) || open_of(new, e) != s.open };
                        let oldp = cur.peers.iter().find(|p| p.key == s.key);
                        let touched = invalid || new.asn != cur.asn || new.bgpid != cur.bgpid || match (m, oldp) { (Some(e), Some(o)) => e != o, _ => true };
                        let was_ended = ended.iter().find(|(k, _, _)| *k == s.conn);
                        match was_ended {
                            Some((_, withdrawn, _)) => {
                                if !withdrawn { fails.push(format!("reconf:bgp-tcp-in:session-ended-without-cleanup event {i} connection {} closed by the reconfigure, no Withdraw for its ingress id", s.conn)); }
                                if st.1.contains(&(s.addr, s.asn)) { fails.push(format!("reconf:bgp-tcp-in:session-ended-without-cleanup event {i} connection {} closed by the reconfigure but still in live_sessions", s.conn)); }
                                if !touched && !s.stale {
                                    let sig = if identical { "identical-config-not-noop" } else if new.listen != cur.listen { "listen-change-drops-sessions" } else { "unconcerned-session-dropped" };
                                    fails.push(format!("reconf:bgp-tcp-in:{sig} event {i} connection {} ({}.{}): nothing that applies to it changed, yet it was disconnected", s.conn, s.addr, s.asn));
                                }
                                notes.push("session-ended-by-reconf".into());
                            }
                            None => {
                                let mut s = s;
                                if invalid {
                                    let sig = match m {
                                        None => "deconfigured-peer-kept",
                                        Some(_) if new.asn != s.open.asn || new.bgpid != s.open.bgpid => "my-asn-or-bgp-id-not-adopted",
                                        Some(e) if e.key != s.key => "peer-rematch-ignored",
                                        Some(e) if !spec_allows(e, s.asn) => "peer-remote-asn-not-adopted",
                                        Some(e) if e.hold != s.open.hold => "peer-hold-time-not-adopted",
                                        Some(_) => "peer-protocols-not-adopted",
                                    };
                                    let now = m.map(|e| format!("{} open {}", show_peer(e), show_open(&open_of(new, e)))).unwrap_or("no entry".into());
                                    fails.push(format!("reconf:bgp-tcp-in:{sig} event {i} connection {} ({}.{}) stays up with OPEN {} under key {}; the new configuration gives it {}", s.conn, s.addr, s.asn, show_open(&s.open), show_key(&s.key), now));
                                    s.stale = true;
                                }
                                if !st.1.contains(&(s.addr, s.asn)) || !st.2.contains(&s.conn) { fails.push(format!("reconf:bgp-tcp-in:kept-session-inconsistent event {i} connection {} live_sessions/TCP disagree: {}", s.conn, show_state(st))); }
                                notes.push("session-kept-by-reconf".into());
                                keep.push(s);
                            }
                        }
                    }
                    live = keep;
                    cur = new.clone();
                    notes.push(if identical { "reconf-identical".into() } else { "reconf-changed".into() });
                }
            }
            // what is listening where
            if st.0 != vec![cur.listen as usize % 3] { fails.push(format!("reconf:bgp-tcp-in:listen-not-adopted event {i}: listening on slots {:?}, configured {}", st.0, cur.listen)); }
            // live_sessions = the reference's live set
            let mut want: Vec<(u32, u32)> = live.iter().map(|s| (s.addr, s.asn)).collect();
            want.sort();
            if st.1 != want && !fails.iter().any(|f| f.contains(&format!("event {i} "))) { fails.push(format!("reconf:bgp-tcp-in:live-sessions-differ event {i} {} want {:?}", show_state(st), want)); }
        }
    }
    let case = show_bcase(cfg0, evs);
    let imp = if raw.discard { raw.toks.join(" ") } else { join(raw.toks.iter().zip(raw.states.iter()).map(|(t, s)| format!("{t}@{}", show_state(s))), " ") };
    let imp = if panics.is_empty() { imp } else { format!("{imp} ## panics: {}", panics.join("; ")) };
    for f in &fails { notes.push(format!("oracle-{}", f.split_whitespace().next().unwrap_or(""))); }
    let oracle = fail_line(&mut fails);
    Outcome { case, imp, oracle, nontrivial: reconfs_with_sessions >= 1, notes, discard: raw.discard }
}

// ---- generators
fn gen_peer(g: &mut Rng, key: Key) -> Peer {
    let asns = match g.below(4) { 0 => Asns::One(65001 + g.below(2) as u32), 1 => Asns::Many(vec![65001, 65002]), 2 => Asns::Many(vec![65002, 65003]), _ => Asns::Many(vec![]) };
    Peer { key, asns, hold: *g.pick(&[30u16, 60, 90]), protos: g.below(3) as u8, addpath: g.below(2) as u8, name: g.below(3) as u8 }
}
fn gen_bcfg(g: &mut Rng) -> BCfg {
    let mut peers: Vec<Peer> = vec![];
    for _ in 0..g.range(1, 4) {
        let key = match g.below(5) { 0 | 1 => Key::Exact(a4(1, 0, 1 + g.below(3) as u8)), 2 => Key::Prefix(24, a4(1, 0, 0) >> 8), 3 => Key::Prefix(16, a4(1, 0, 0) >> 16), _ => Key::Exact(a4(1, 1, 1)) };
        if peers.iter().any(|e| e.key == key) { continue; }
        let p = gen_peer(g, key);
        peers.push(p);
    }
    BCfg { listen: g.below(3) as u8, asn: 64999, bgpid: 9, peers }
}
/// an operator's edit of the running configuration
fn edit_bcfg(g: &mut Rng, c: &BCfg) -> BCfg {
    let mut n = c.clone();
    match g.below(12) {
        0 => {} // unchanged
        1 => n.listen = (c.listen + 1 + g.below(2) as u8) % 3,
        2 => n.asn = if c.asn == 64999 { 64998 } else { 64999 },
        3 => n.bgpid = if c.bgpid == 9 { 8 } else { 9 },
        4 => if !n.peers.is_empty() { let i = g.below(n.peers.len() as u64) as usize; n.peers.remove(i); },
        5 => { let key = match g.below(3) { 0 => Key::Exact(a4(1, 0, 1 + g.below(3) as u8)), 1 => Key::Prefix(24, a4(1, 0, 0) >> 8), _ => Key::Prefix(16, a4(1, 0, 0) >> 16) }; if !n.peers.iter().any(|e| e.key == key) { let p = gen_peer(g, key); n.peers.push(p); } }
        6 => if !n.peers.is_empty() { let i = g.below(n.peers.len() as u64) as usize; n.peers[i].hold = match n.peers[i].hold { 30 => 60, 60 => 90, _ => 30 }; },
        7 => if !n.peers.is_empty() { let i = g.below(n.peers.len() as u64) as usize; n.peers[i].protos = (n.peers[i].protos + 1 + g.below(2) as u8) % 3; },
        8 => if !n.peers.is_empty() { let i = g.below(n.peers.len() as u64) as usize; n.peers[i].addpath = 1 - n.peers[i].addpath % 2; },
        9 => if !n.peers.is_empty() { let i = g.below(n.peers.len() as u64) as usize; n.peers[i].asns = match g.below(3) { 0 => Asns::One(65001), 1 => Asns::Many(vec![65001, 65002]), _ => Asns::Many(vec![]) }; },
        10 => if !n.peers.is_empty() { let i = g.below(n.peers.len() as u64) as usize; n.peers[i].name = (n.peers[i].name + 1) % 3; },
        _ => { // a more specific entry for an address a prefix entry covers
            let key = Key::Exact(a4(1, 0, 1 + g.below(3) as u8));
            if !n.peers.iter().any(|e| e.key == key) { let p = gen_peer(g, key); n.peers.push(p); }
        }
    }
    n
}
fn gen_bgp(g: &mut Rng) -> (BCfg, Vec<BEv>) {
    let cfg0 = gen_bcfg(g);
    let mut cur = cfg0.clone();
    let mut evs = vec![];
    let mut nconn = 0usize;
    let addrs = [a4(1, 0, 1), a4(1, 0, 2), a4(1, 0, 3), a4(1, 1, 1), a4(2, 0, 1)];
    let n = g.range(5, 11);
    for i in 0..n {
        let r = g.below(100);
        if nconn == 0 || (i < 3 && r < 60) || r < 25 {
            let (a, asn) = if g.chance(4, 5) && !cur.peers.is_empty() {
                let e = &cur.peers[g.below(cur.peers.len() as u64) as usize];
                let a = match &e.key { Key::Exact(a) => *a, Key::Prefix(l, b) => (b << (32 - *l as u32)) | (1 + g.below(3) as u32) };
                let asn = match &e.asns { Asns::One(n) => *n, Asns::Many(v) if !v.is_empty() => v[g.below(v.len() as u64) as usize], _ => 65001 + g.below(3) as u32 };
                (a, if g.chance(1, 10) { 65009 } else { asn })
            } else { (addrs[g.below(addrs.len() as u64) as usize], 65001 + g.below(3) as u32) };
            let slot = if g.chance(7, 8) { cur.listen } else { g.below(3) as u8 };
            evs.push(BEv::Conn(slot, a, asn));
            nconn += 1;
        } else if r < 50 { evs.push(BEv::Upd(g.below(nconn as u64) as usize)); }
        else if r < 58 { evs.push(BEv::Fin(g.below(nconn as u64) as usize)); }
        else { let n = edit_bcfg(g, &cur); cur = n.clone(); evs.push(BEv::Reconf(n)); }
    }
    (cfg0, evs)
}

fn bgp_witnesses() -> Vec<(&'static str, BCfg, Vec<BEv>)> {
    let p1 = a4(1, 0, 1);
    let p2 = a4(1, 0, 2);
    let pfx = |asns: Asns, hold: u16, protos: u8| Peer { key: Key::Prefix(24, p1 >> 8), asns, hold, protos, addpath: 0, name: 0 };
    let base = |peers: Vec<Peer>| BCfg { listen: 0, asn: 64999, bgpid: 9, peers };
    vec![
        // protocols of the peer entry change: as written the session stays up with the capabilities of the old entry
        ("bgpeq", base(vec![pfx(Asns::Many(vec![]), 30, 0)]), vec![BEv::Conn(0, p1, 65001), BEv::Upd(0), BEv::Reconf(base(vec![pfx(Asns::Many(vec![]), 30, 1)])), BEv::Upd(0), BEv::Conn(0, p2, 65002)]),
        // an exact entry for the address of a session that came in under the prefix entry; it admits another AS only
        ("bgpmatch", base(vec![pfx(Asns::Many(vec![]), 30, 0)]), vec![BEv::Conn(0, p1, 65001), BEv::Reconf(base(vec![pfx(Asns::Many(vec![]), 30, 0), Peer { key: Key::Exact(p1), asns: Asns::One(65002), hold: 60, protos: 0, addpath: 0, name: 1 }])), BEv::Upd(0), BEv::Conn(0, p1, 65002)]),
        // only the listen address changes
        ("bgplisten", base(vec![pfx(Asns::Many(vec![]), 30, 0)]), vec![BEv::Conn(0, p1, 65001), BEv::Upd(0), BEv::Reconf(BCfg { listen: 1, ..base(vec![pfx(Asns::Many(vec![]), 30, 0)]) }), BEv::Upd(0), BEv::Conn(0, p2, 65001), BEv::Conn(1, p2, 65001)]),
        // what does work: hold time / my_asn / removal end the session with a Withdraw, an identical file changes nothing
        ("bgpok", base(vec![pfx(Asns::Many(vec![]), 30, 0), Peer { key: Key::Exact(p2), asns: Asns::One(65002), hold: 60, protos: 1, addpath: 1, name: 1 }]),
            vec![BEv::Conn(0, p1, 65001), BEv::Conn(0, p2, 65002), BEv::Upd(0), BEv::Reconf(base(vec![pfx(Asns::Many(vec![]), 30, 0), Peer { key: Key::Exact(p2), asns: Asns::One(65002), hold: 60, protos: 1, addpath: 1, name: 1 }])), BEv::Upd(1),
                 BEv::Reconf(base(vec![pfx(Asns::Many(vec![]), 60, 0), Peer { key: Key::Exact(p2), asns: Asns::One(65002), hold: 60, protos: 1, addpath: 1, name: 1 }])), BEv::Upd(1), BEv::Conn(0, p1, 65001),
                 BEv::Reconf(base(vec![pfx(Asns::Many(vec![]), 60, 0)])), BEv::Conn(0, p2, 65002), BEv::Reconf(BCfg { asn: 64998, ..base(vec![pfx(Asns::Many(vec![]), 60, 0)]) }), BEv::Conn(0, p1, 65001)]),
    ]
}

// =================================================================== file-out

#[derive(Clone, Copy, Debug, PartialEq)]
struct FCfg { fmt: char, file: u8 } // fmt: c | j | m
#[derive(Clone, Debug, PartialEq)]
enum FEv { Emit(u32), Pass, Reload(bool, FCfg) } // Reload(target first?, new config)

fn show_fcfg(c: &FCfg) -> String { format!("{}{}", c.fmt, c.file) }
fn parse_fcfg(s: &str) -> Option<FCfg> { let mut it = s.chars(); let fmt = it.next()?; if !"cjm".contains(fmt) { return None; } Some(FCfg { fmt, file: it.as_str().parse().ok()? }) }
fn show_fev(e: &FEv) -> String { match e { FEv::Emit(r) => format!("e{r}"), FEv::Pass => "b".into(), FEv::Reload(true, c) => format!("L{}", show_fcfg(c)), FEv::Reload(false, c) => format!("M{}", show_fcfg(c)) } }
fn parse_fev(s: &str) -> Option<FEv> { let (h, r) = s.split_at(1); Some(match h { "e" => FEv::Emit(r.parse().ok()?), "b" => FEv::Pass, "L" => FEv::Reload(true, parse_fcfg(r)?), "M" => FEv::Reload(false, parse_fcfg(r)?), _ => return None }) }
fn show_fcase(c: &FCfg, evs: &[FEv]) -> String { format!("F|{}|{}", show_fcfg(c), join(evs.iter().map(show_fev), ";")) }
fn parse_fcase(line: &str) -> Option<(FCfg, Vec<FEv>)> {
    let f: Vec<&str> = line.split('|').collect();
    if f.len() != 3 || f[0] != "F" { return None; }
    Some((parse_fcfg(f[1])?, if f[2].is_empty() { vec![] } else { f[2].split(';').map(parse_fev).collect::<Option<Vec<_>>>()? }))
}
fn fmt_name(c: char) -> &'static str { match c { 'c' => "csv", 'j' => "json", _ => "json-min" } }

fn entry_msg(r: u32) -> Update {
    let e = LogEntry { timestamp: chrono::DateTime::from_timestamp_micros(1_700_000_000_000_000).unwrap(), origin_as: Some(inetnum::asn::Asn::from_u32(r)), peer_as: None, as_path_hops: None, conventional_reach: 1, conventional_unreach: 0, mp_reach: None, mp_reach_afisafi: None, mp_unreach: None, mp_unreach_afisafi: None, custom: None };
    Update::OutputStream(smallvec::smallvec![OutputStreamMessage::entry(e, None)])
}
/// `<format><record>` of one line of an output file (`?` if it is none of the three renderings of a record)
fn classify(line: &str) -> String {
    if let Ok(serde_json::Value::Object(m)) = serde_json::from_str::<serde_json::Value>(line) {
        let r = m.get("origin_as").and_then(|v| v.as_u64());
        return match r { Some(r) => format!("{}{}", if m.contains_key("custom") { 'j' } else { 'm' }, r), None => "?".into() };
    }
    let mut rd = csv::ReaderBuilder::new().has_headers(false).flexible(true).from_reader(line.as_bytes());
    if let Some(Ok(rec)) = rd.records().next() { if let Some(r) = rec.get(1).and_then(|f| f.parse::<u32>().ok()) { return format!("c{r}"); } }
    "?".into()
}

struct FRaw { alive: Vec<bool>, files: Vec<Option<Vec<String>>>, panicked: bool }

async fn run_file(dir: &std::path::Path, cfg0: &FCfg, evs: &[FEv]) -> FRaw {
    let _ = std::fs::remove_dir_all(dir);
    std::fs::create_dir_all(dir).unwrap();
    let path = |f: u8| dir.join(format!("f{}.out", f % 3));
    let (gate, mut agent) = Gate::new(8);
    let link = agent.create_link();
    let comp = rotonda::manager::verif_hooks_c17::component("file", "file-out", rotonda::verif::c17::new_register());
    let file = rotonda::targets::verif_hooks_c17::file::file_target(fmt_name(cfg0.fmt), path(cfg0.file), link).unwrap();
    let coord = Coordinator::new(1);
    let wp = coord.clone().track("file".into());
    let (cmd_tx, cmd_rx) = tokio::sync::mpsc::channel::<TargetCommand>(100);
    let h = tokio::spawn(async move { file.run(comp, cmd_rx, wp).await });
    let gate = Arc::new(gate);
    gate.process_until(coord.wait(|_, _| {})).await.unwrap();
    // the upstream "unit": serves its gate like every unit's main loop does
    let g2 = gate.clone();
    let server = tokio::spawn(async move { loop { if g2.process().await.is_err() { break; } } });
    let mut agents: Vec<GateAgent> = vec![agent];
    let mut alive = vec![];
    for ev in evs {
        match ev {
            FEv::Emit(r) => {
                gate.update_data(entry_msg(*r)).await;
                let g3 = gate.clone();
                wait_until(Duration::from_secs(3), || rotonda::verif::reconfunits::gate_queue_backlog(&g3) == 0).await;
            }
            FEv::Pass => {
                gate.update_data(Update::Withdraw(3, None)).await;
                let g3 = gate.clone();
                wait_until(Duration::from_secs(3), || rotonda::verif::reconfunits::gate_queue_backlog(&g3) == 0).await;
            }
            FEv::Reload(target_first, new) => {
                let (new_gate, mut new_agent) = Gate::new(8);
                let new_link = new_agent.create_link();
                let new_target = rotonda::targets::Target::File(rotonda::targets::verif_hooks_c17::file::file_target(fmt_name(new.fmt), path(new.file), new_link).unwrap());
                let old_id = gate.id();
                let send_cmd = |new_target| async {
                    let ok = cmd_tx.send(TargetCommand::Reconfigure { new_config: new_target }).await.is_ok();
                    if ok {
                        let rep = UpstreamLinkReport::new();
                        if cmd_tx.send(TargetCommand::ReportLinks { report: rep.clone() }).await.is_ok() { let hh = &h; wait_until(Duration::from_secs(3), || rep.ready() || hh.is_finished()).await; }
                    }
                };
                let swap = |new_gate| async {
                    let _ = agents.last().unwrap().reconfigure(dummy_unit(), new_gate).await;
                    let g3 = gate.clone();
                    wait_until(Duration::from_secs(3), || g3.id() != old_id).await;
                };
                if *target_first { send_cmd(new_target).await; swap(new_gate).await; } else {
                    swap(new_gate).await;
                    { let hh = &h; wait_until(Duration::from_millis(150), || hh.is_finished()).await; }
                    send_cmd(new_target).await;
                }
                agents.push(new_agent);
                // settled: the target has left, or it is subscribed to the gate again
                let g3 = gate.clone();
                let hh = &h;
                wait_until(Duration::from_secs(3), || hh.is_finished() || rotonda::verif::gate::gate_slots(&g3).0.len() == 1).await;
            }
        }
        tokio::time::sleep(Duration::from_millis(2)).await;
        alive.push(!h.is_finished());
    }
    // the end: everything published has been taken off the queue; stop the target (it flushes) and read the files
    if !h.is_finished() { let _ = cmd_tx.send(TargetCommand::Terminate).await; }
    let res = tokio::time::timeout(Duration::from_secs(4), h).await;
    let panicked = matches!(res, Ok(Err(ref e)) if e.is_panic());
    for a in &agents { a.terminate().await; }
    let _ = tokio::time::timeout(Duration::from_secs(2), server).await;
    let files = (0..3u8).map(|f| std::fs::read_to_string(path(f)).ok().map(|t| t.lines().map(classify).collect())).collect();
    drop(cmd_tx);
    let _ = std::fs::remove_dir_all(dir);
    FRaw { alive, files, panicked }
}

fn file_case(cfg0: &FCfg, evs: &[FEv]) -> Outcome {
    let no = CASE_NO.fetch_add(1, std::sync::atomic::Ordering::SeqCst);
    let tname = format!("reconfunits-{no}");
    let rt = tokio::runtime::Builder::new_multi_thread().worker_threads(2).thread_name(tname.clone()).enable_all().build().unwrap();
    let dir = std::env::temp_dir().join(format!("reconfunits-{}-{no}", std::process::id()));
    let raw = rt.block_on(run_file(&dir, cfg0, evs));
    rt.shutdown_timeout(Duration::from_millis(200));
    let panics = take_panics(&tname);
    let mut fails: Vec<String> = vec![];
    let mut notes: Vec<String> = vec![];
    if raw.panicked || !panics.is_empty() { fails.push(format!("reconf:file-out:panic {}", panics.join(";").replace(' ', "_"))); }
    // ---- reference: every record once, in order, in the file and format of the configuration in force when it was emitted
    let mut cur = *cfg0;
    let mut want: Vec<Vec<String>> = vec![vec![], vec![], vec![]];
    let mut opened: BTreeSet<u8> = BTreeSet::from([cfg0.file % 3]);
    let mut reloads = 0usize;
    let mut emitted_after_reload = 0usize;
    let mut first_reload_identical = None;
    for ev in evs {
        match ev {
            FEv::Emit(r) => { want[cur.file as usize % 3].push(format!("{}{}", cur.fmt, r)); if reloads > 0 { emitted_after_reload += 1; } }
            FEv::Pass => {}
            FEv::Reload(_, c) => { if first_reload_identical.is_none() { first_reload_identical = Some(*c == cur); } reloads += 1; cur = *c; opened.insert(c.file % 3); }
        }
    }
    let got: Vec<Vec<String>> = raw.files.iter().map(|f| f.clone().unwrap_or_default()).collect();
    let all_want: Vec<&String> = want.iter().flatten().collect();
    let all_got: Vec<&String> = got.iter().flatten().collect();
    let dead_at = raw.alive.iter().position(|a| !*a);
    if let Some(i) = dead_at {
        let after_reload = matches!(evs.get(i), Some(FEv::Reload(..)));
        let sig = if after_reload { "reconfigure-ignored" } else { "target-stopped" };
        let how = if after_reload && first_reload_identical == Some(true) && evs[..i].iter().all(|e| !matches!(e, FEv::Reload(..))) { "a reload of the unchanged configuration" } else { "a reload" };
        fails.push(format!("reconf:file-out:{sig} event {i} {} ({how}): the target ignores the command, loses its link when the upstream gate is reconfigured and returns; {} records emitted later", show_fev(&evs[i]), evs[i..].iter().filter(|e| matches!(e, FEv::Emit(_))).count()));
    }
    if got != want {
        let lost = all_want.iter().filter(|l| !all_got.iter().any(|g| g[1..] == l[1..])).count();
        let dup = all_got.iter().filter(|l| all_got.iter().filter(|g| g[1..] == l[1..]).count() > 1).count();
        let what = if lost > 0 { "records-lost" } else if dup > 0 { "records-duplicated" } else if got.iter().flatten().map(|l| &l[1..]).collect::<Vec<_>>() != want.iter().flatten().map(|l| &l[1..]).collect::<Vec<_>>() && got.iter().map(|f| f.len()).collect::<Vec<_>>() != want.iter().map(|f| f.len()).collect::<Vec<_>>() { "filename-not-adopted" } else if got.iter().zip(want.iter()).all(|(g, w)| g.iter().map(|l| &l[1..]).collect::<Vec<_>>() == w.iter().map(|l| &l[1..]).collect::<Vec<_>>()) { "format-not-adopted" } else { "order-or-file-wrong" };
        fails.push(format!("reconf:file-out:{what} files {} expected {}", show_files(&raw.files), show_files(&want.iter().enumerate().map(|(i, w)| if opened.contains(&(i as u8)) { Some(w.clone()) } else { None }).collect::<Vec<_>>())));
    }
    let case = show_fcase(cfg0, evs);
    let imp = format!("{} | {}", if raw.alive.is_empty() { "-".into() } else { join(raw.alive.iter().map(|a| if *a { 'a' } else { 'd' }), "") }, show_files(&raw.files));
    for e in evs { notes.push(format!("fev-{}", &show_fev(e)[..1])); }
    for f in &fails { notes.push(format!("oracle-{}", f.split_whitespace().next().unwrap_or(""))); }
    // the stop is the mechanism, the loss its consequence: report the mechanism first
    fails.sort_by_key(|f| if f.contains("reconfigure-ignored") { 0 } else { 1 });
    let oracle = fail_line(&mut fails);
    Outcome { case, imp, oracle, nontrivial: reloads >= 1 && emitted_after_reload >= 1, notes, discard: false }
}
fn show_files(fs: &[Option<Vec<String>>]) -> String { join(fs.iter().enumerate().map(|(i, f)| format!("f{i}={}", match f { None => "-".to_string(), Some(v) if v.is_empty() => ".".to_string(), Some(v) => v.join(",") })), " ") }

fn gen_file(g: &mut Rng) -> (FCfg, Vec<FEv>) {
    let fc = |g: &mut Rng| FCfg { fmt: *g.pick(&['c', 'j', 'm']), file: g.below(3) as u8 };
    let cfg0 = fc(g);
    let mut cur = cfg0;
    let mut evs = vec![];
    let mut r = 100u32;
    for _ in 0..g.range(3, 12) {
        match g.below(10) {
            0..=5 => { r += 1; evs.push(FEv::Emit(r)); }
            6 => evs.push(FEv::Pass),
            _ => {
                let n = match g.below(4) { 0 => cur, 1 => FCfg { fmt: *g.pick(&['c', 'j', 'm']), ..cur }, 2 => FCfg { file: (cur.file + 1 + g.below(2) as u8) % 3, ..cur }, _ => fc(g) };
                cur = n;
                evs.push(FEv::Reload(g.chance(1, 2), n));
            }
        }
    }
    (cfg0, evs)
}
fn file_witnesses() -> Vec<(FCfg, Vec<FEv>)> {
    let j0 = FCfg { fmt: 'j', file: 0 };
    vec![
        // a reload of the unchanged file
        (j0, vec![FEv::Emit(1), FEv::Reload(true, j0), FEv::Emit(2)]),
        // new file name and format, upstream gate first
        (j0, vec![FEv::Emit(1), FEv::Emit(2), FEv::Reload(false, FCfg { fmt: 'c', file: 1 }), FEv::Emit(3), FEv::Pass, FEv::Reload(true, FCfg { fmt: 'm', file: 0 }), FEv::Emit(4)]),
        // no reload at all
        (FCfg { fmt: 'm', file: 2 }, vec![FEv::Emit(7), FEv::Pass, FEv::Emit(8)]),
    ]
}

// =================================================================== filter

#[derive(Clone, Debug, PartialEq)]
struct XCfg { name: u8, sources: Vec<u8> }
#[derive(Clone, Debug, PartialEq)]
enum XEv { Eos(u8, u32), Reload(bool, XCfg) } // Reload(filter first?, cfg): the order is not part of the case line (both must give the same)

fn show_units(v: &[u8]) -> String { if v.is_empty() { "-".into() } else { join(v.iter(), "+") } }
fn parse_units(s: &str) -> Option<Vec<u8>> { if s == "-" { Some(vec![]) } else { s.split('+').map(|x| x.parse().ok()).collect() } }
fn show_xcfg(c: &XCfg) -> String { format!("n{},{}", c.name, show_units(&c.sources)) }
fn parse_xcfg(s: &str) -> Option<XCfg> { let (n, u) = s.split_once(',')?; Some(XCfg { name: n.strip_prefix('n')?.parse().ok()?, sources: parse_units(u)? }) }
fn show_xev(e: &XEv) -> String { match e { XEv::Eos(u, t) => format!("s{u}.{t}"), XEv::Reload(_, c) => format!("R{}", show_xcfg(c)) } }
fn parse_xev(s: &str, k: usize) -> Option<XEv> { let (h, r) = s.split_at(1); Some(match h { "s" => { let (u, t) = r.split_once('.')?; XEv::Eos(u.parse().ok()?, t.parse().ok()?) } "R" => XEv::Reload(k % 2 == 0, parse_xcfg(r)?), _ => return None }) }
fn show_xcase(c: &XCfg, evs: &[XEv]) -> String { format!("X|{}|{}", show_xcfg(c), join(evs.iter().map(show_xev), ";")) }
fn parse_xcase(line: &str) -> Option<(XCfg, Vec<XEv>)> {
    let f: Vec<&str> = line.split('|').collect();
    if f.len() != 3 || f[0] != "X" { return None; }
    Some((parse_xcfg(f[1])?, if f[2].is_empty() { vec![] } else { f[2].split(';').enumerate().map(|(k, e)| parse_xev(e, k)).collect::<Option<Vec<_>>>()? }))
}

fn dummy_unit() -> rotonda::units::Unit { rotonda::units::Unit::BgpTcpIn(hook::parse_unit("listen = \"127.0.0.1:1\"\nmy_asn = 1\nmy_bgp_id = [1, 1, 1, 1]\n").unwrap()) }

/// A unit the harness plays: a gate served like every unit's main loop serves it.
struct Upstream { gate: Arc<Gate>, agent: GateAgent, server: tokio::task::JoinHandle<()> }
fn upstream() -> Upstream {
    let (gate, agent) = Gate::new(8);
    let gate = Arc::new(gate);
    let g2 = gate.clone();
    let server = tokio::spawn(async move { loop { if g2.process().await.is_err() { break; } } });
    Upstream { gate, agent, server }
}

async fn run_filter(cfg0: &XCfg, evs: &[XEv]) -> (Vec<String>, bool) {
    use rotonda::verif::reconfunits::filter as fh;
    let mut ups: Vec<Upstream> = (0..3).map(|_| upstream()).collect();
    let links = |ups: &mut Vec<Upstream>, c: &XCfg| -> Vec<rotonda::comms::Link> { c.sources.iter().map(|u| ups[*u as usize % 3].agent.create_link()).collect() };
    let (fgate, mut fagent) = Gate::new(8);
    let collected: Arc<Mutex<Vec<Update>>> = Arc::new(Mutex::new(vec![]));
    let c2 = collected.clone();
    let target = Arc::new(FnTarget(Arc::new(move |u: Update| { c2.lock().unwrap().push(u); })));
    let Some(unit) = fh::filter_unit(&format!("f{}", cfg0.name), links(&mut ups, cfg0)) else { return (vec!["bad-config".into()], false) };
    let comp = rotonda::manager::verif_hooks_c17::component("filter", "filter", rotonda::verif::c17::new_register());
    let coord = Coordinator::new(1);
    let wp = coord.clone().track("filter".into());
    let (probe, fut) = fh::run(unit, comp, fgate, wp);
    let task = tokio::spawn(fut);
    coord.wait(|_, _| {}).await;
    let mut down = fagent.create_link();
    down.set_direct_update_target(target.clone());
    let _ = down.connect(false).await;
    let mut downs = vec![down];
    let mut toks = vec![];
    for ev in evs {
        match ev {
            XEv::Eos(u, t) => {
                let n0 = collected.lock().unwrap().len();
                ups[*u as usize % 3].gate.update_data(Update::UpstreamStatusChange(rotonda::payload::UpstreamStatus::EndOfStream { ingress_id: *t })).await;
                tokio::time::sleep(Duration::from_millis(2)).await;
                let g = collected.lock().unwrap();
                let got: Vec<String> = g[n0..].iter().map(|u| match u { Update::UpstreamStatusChange(rotonda::payload::UpstreamStatus::EndOfStream { ingress_id }) => format!("f{ingress_id}"), _ => "other".into() }).collect();
                toks.push(if got.is_empty() { "-".into() } else { got.join("+") });
            }
            XEv::Reload(filter_first, c) => {
                // one load: a new gate per unit, links of the new file point at the new gates
                let mut new_ups: Vec<(Gate, GateAgent)> = (0..3).map(|_| Gate::new(8)).collect();
                let new_links: Vec<rotonda::comms::Link> = c.sources.iter().map(|u| new_ups[*u as usize % 3].1.create_link()).collect();
                let Some(newf) = fh::filter_unit(&format!("f{}", c.name), new_links) else { toks.push("bad-config".into()); continue };
                let (nf_gate, mut nf_agent) = Gate::new(8);
                let mut d = nf_agent.create_link();
                d.set_direct_update_target(target.clone());
                let _ = nf_gate.process_until(async { let _ = d.connect(false).await; }).await;
                downs.push(d);
                let swap_ups = |ups: &mut Vec<Upstream>, new_ups: Vec<(Gate, GateAgent)>| {
                    let old: Vec<GateAgent> = ups.iter().map(|u| u.agent.clone()).collect();
                    async move { let mut agents = vec![]; for (o, (g, a)) in old.iter().zip(new_ups.into_iter()) { let _ = o.reconfigure(dummy_unit(), g).await; agents.push(a); } agents }
                };
                let new_agents;
                if *filter_first {
                    let _ = fagent.reconfigure(rotonda::units::Unit::Filter(newf), nf_gate).await;
                    new_agents = swap_ups(&mut ups, std::mem::take(&mut new_ups)).await;
                } else {
                    new_agents = swap_ups(&mut ups, std::mem::take(&mut new_ups)).await;
                    let _ = fagent.reconfigure(rotonda::units::Unit::Filter(newf), nf_gate).await;
                }
                for (u, a) in ups.iter_mut().zip(new_agents.into_iter()) { u.agent = a; }
                fagent = nf_agent;
                // acknowledged once a ReportLinks sent through the new agent has been answered (the arm awaits its connects first)
                let rep = UpstreamLinkReport::new();
                let _ = fagent.report_links(rep.clone()).await;
                let r2 = rep.clone();
                let acked = wait_until(Duration::from_secs(4), || r2.ready() || task.is_finished()).await && rep.ready();
                tokio::time::sleep(Duration::from_millis(5)).await;
                let subs: Vec<usize> = (0..3).filter(|i| rotonda::verif::gate::gate_slots(&ups[*i].gate).0.len() >= 1).collect();
                toks.push(format!("{}n{}:S{}", if acked { "" } else { "!" }, probe.get().trim_start_matches('f'), join(subs.iter(), "")));
            }
        }
    }
    let died = task.is_finished();
    fagent.terminate().await;
    let _ = tokio::time::timeout(Duration::from_secs(2), task).await;
    for u in &ups { u.agent.terminate().await; }
    for u in ups { let _ = tokio::time::timeout(Duration::from_secs(1), u.server).await; }
    drop(downs);
    (toks, died)
}

fn filter_case(cfg0: &XCfg, evs: &[XEv]) -> Outcome {
    let tname = format!("reconfunits-{}", CASE_NO.fetch_add(1, std::sync::atomic::Ordering::SeqCst));
    let rt = tokio::runtime::Builder::new_multi_thread().worker_threads(2).thread_name(tname.clone()).enable_all().build().unwrap();
    let (toks, died) = rt.block_on(run_filter(cfg0, evs));
    rt.shutdown_timeout(Duration::from_millis(200));
    let panics = take_panics(&tname);
    let mut fails: Vec<String> = vec![];
    let mut notes: Vec<String> = vec![];
    if died || !panics.is_empty() { fails.push(format!("reconf:filter:unit-task-ended {}", panics.join(";").replace(' ', "_"))); }
    let mut cur = cfg0.clone();
    let mut reloads = 0;
    for (i, ev) in evs.iter().enumerate() {
        let got = toks.get(i).cloned().unwrap_or_default();
        match ev {
            XEv::Eos(u, t) => {
                let want = if cur.sources.iter().any(|s| s % 3 == u % 3) { format!("f{t}") } else { "-".to_string() };
                if got != want { fails.push(format!("reconf:filter:sources-not-adopted event {i} {}: expected {want} got {got} (sources in force {})", show_xev(ev), show_units(&cur.sources))); }
                notes.push(format!("eos-{}", if want == "-" { "not-a-source" } else { "source" }));
            }
            XEv::Reload(ff, c) => {
                reloads += 1;
                let mut subs: Vec<u8> = c.sources.iter().map(|s| s % 3).collect(); subs.sort(); subs.dedup();
                let (gn, gs) = got.split_once(":S").unwrap_or(("", ""));
                if gn != format!("n{}", c.name) { fails.push(format!("reconf:filter:filter_name-not-adopted event {i} {}: got {got}", show_xev(ev))); }
                if gs != join(subs.iter(), "") { fails.push(format!("reconf:filter:sources-not-adopted event {i} {}: subscribed to {gs}", show_xev(ev))); }
                notes.push(format!("reload-{}{}", if *ff { "filter-first" } else { "upstream-first" }, if *c == cur { "-identical" } else { "" }));
                cur = c.clone();
            }
        }
    }
    for f in &fails { notes.push(format!("oracle-{}", f.split_whitespace().next().unwrap_or(""))); }
    let oracle = fail_line(&mut fails);
    Outcome { case: show_xcase(cfg0, evs), imp: toks.join(" "), oracle, nontrivial: reloads >= 1 && evs.iter().any(|e| matches!(e, XEv::Eos(..))), notes, discard: false }
}

fn gen_filter(g: &mut Rng) -> (XCfg, Vec<XEv>) {
    let xc = |g: &mut Rng| { let mut s: Vec<u8> = (0..3u8).filter(|_| g.chance(1, 2)).collect(); if s.is_empty() { s.push(g.below(3) as u8); } if g.chance(1, 3) { s.reverse(); } XCfg { name: g.below(3) as u8, sources: s } };
    let cfg0 = xc(g);
    let mut cur = cfg0.clone();
    let mut evs = vec![];
    let mut tag = 10;
    for k in 0..g.range(3, 10) {
        if g.chance(2, 3) { tag += 1; evs.push(XEv::Eos(g.below(3) as u8, tag)); }
        else { let n = match g.below(3) { 0 => cur.clone(), 1 => XCfg { name: (cur.name + 1) % 3, ..cur.clone() }, _ => xc(g) }; cur = n.clone(); evs.push(XEv::Reload(k % 2 == 0, n)); }
    }
    (cfg0, evs)
}

// =================================================================== null-out

#[derive(Clone, Debug, PartialEq)]
enum NEv { Report, Reload(Vec<u8>) }
fn show_nev(e: &NEv) -> String { match e { NEv::Report => "r".into(), NEv::Reload(s) => format!("R{}", show_units(s)) } }
fn parse_nev(s: &str) -> Option<NEv> { if s == "r" { Some(NEv::Report) } else { Some(NEv::Reload(parse_units(s.strip_prefix('R')?)?)) } }
fn show_ncase(c: &[u8], evs: &[NEv]) -> String { format!("N|{}|{}", show_units(c), join(evs.iter().map(show_nev), ";")) }
fn parse_ncase(line: &str) -> Option<(Vec<u8>, Vec<NEv>)> {
    let f: Vec<&str> = line.split('|').collect();
    if f.len() != 3 || f[0] != "N" { return None; }
    Some((parse_units(f[1])?, if f[2].is_empty() { vec![] } else { f[2].split(';').map(parse_nev).collect::<Option<Vec<_>>>()? }))
}

async fn run_null(cfg0: &[u8], evs: &[NEv]) -> (Vec<String>, bool) {
    // gates[gen][unit]; a null-out target never connects its links, so nobody has to serve these gates
    let mut gens: Vec<Vec<(Gate, GateAgent)>> = vec![(0..3).map(|_| Gate::new(8)).collect()];
    let mk = |gens: &mut Vec<Vec<(Gate, GateAgent)>>, srcs: &[u8]| -> Vec<rotonda::comms::Link> { let g = gens.last_mut().unwrap(); srcs.iter().map(|u| g[*u as usize % 3].1.create_link()).collect() };
    let target = rotonda::verif::reconfunits::null_target(mk(&mut gens, cfg0));
    let comp = rotonda::manager::verif_hooks_c17::component("null", "null-out", rotonda::verif::c17::new_register());
    let coord = Coordinator::new(1);
    let wp = coord.clone().track("null".into());
    let (cmd_tx, cmd_rx) = tokio::sync::mpsc::channel::<TargetCommand>(100);
    let h = tokio::spawn(async move { target.run(comp, cmd_rx, wp).await });
    coord.wait(|_, _| {}).await;
    let mut toks = vec![];
    for ev in evs {
        if let NEv::Reload(srcs) = ev {
            gens.push((0..3).map(|_| Gate::new(8)).collect());
            let t = rotonda::verif::reconfunits::null_target(mk(&mut gens, srcs));
            let _ = cmd_tx.send(TargetCommand::Reconfigure { new_config: t }).await;
        }
        let rep = UpstreamLinkReport::new();
        let _ = cmd_tx.send(TargetCommand::ReportLinks { report: rep.clone() }).await;
        // an empty source list is not reported at all: give it a moment, then read what is there
        let r2 = rep.clone();
        let hh = &h;
        wait_until(Duration::from_millis(if matches!(ev, NEv::Reload(s) if s.is_empty()) { 150 } else { 3000 }), || r2.ready() || hh.is_finished()).await;
        let dbg = format!("{:?}", rep);
        let mut out = vec![];
        for part in dbg.split("gate_id: ").skip(1) {
            let id: String = part.chars().take_while(|c| c.is_ascii_hexdigit() || *c == '-').collect();
            let mut found = "?".to_string();
            for (gi, g) in gens.iter().enumerate() { for (ui, (gate, _)) in g.iter().enumerate() { if gate.id().to_string() == id { found = format!("{ui}.{gi}"); } } }
            out.push(found);
        }
        toks.push(if !rep.ready() { "none".into() } else if out.is_empty() { "-".into() } else { out.join(",") });
    }
    let died = h.is_finished();
    let _ = cmd_tx.send(TargetCommand::Terminate).await;
    let _ = tokio::time::timeout(Duration::from_secs(2), h).await;
    (toks, died)
}

fn null_case(cfg0: &[u8], evs: &[NEv]) -> Outcome {
    let tname = format!("reconfunits-{}", CASE_NO.fetch_add(1, std::sync::atomic::Ordering::SeqCst));
    let rt = tokio::runtime::Builder::new_multi_thread().worker_threads(2).thread_name(tname.clone()).enable_all().build().unwrap();
    let (toks, died) = rt.block_on(run_null(cfg0, evs));
    rt.shutdown_timeout(Duration::from_millis(200));
    let panics = take_panics(&tname);
    let mut fails: Vec<String> = vec![];
    if died || !panics.is_empty() { fails.push(format!("reconf:null-out:target-task-ended {}", panics.join(";").replace(' ', "_"))); }
    let mut cur: Vec<u8> = cfg0.to_vec();
    let mut gen = 0;
    let mut reloads = 0;
    for (i, ev) in evs.iter().enumerate() {
        if let NEv::Reload(s) = ev { cur = s.clone(); gen += 1; reloads += 1; }
        let want = if cur.is_empty() { "-".to_string() } else { join(cur.iter().map(|u| format!("{}.{gen}", u % 3)), ",") };
        let got = toks.get(i).cloned().unwrap_or_default();
        if got != want { fails.push(format!("reconf:null-out:sources-not-adopted event {i} {}: reports {got}, the configuration in force has {want}", show_nev(ev))); }
    }
    let notes = fails.iter().map(|f| format!("oracle-{}", f.split_whitespace().next().unwrap_or(""))).collect();
    let oracle = fail_line(&mut fails);
    Outcome { case: show_ncase(cfg0, evs), imp: toks.join(" "), oracle, nontrivial: reloads >= 1, notes, discard: false }
}

fn gen_null(g: &mut Rng) -> (Vec<u8>, Vec<NEv>) {
    let src = |g: &mut Rng| { let mut s: Vec<u8> = (0..3u8).filter(|_| g.chance(1, 2)).collect(); if s.is_empty() { s.push(g.below(3) as u8); } if g.chance(1, 3) { s.reverse(); } s };
    let cfg0 = src(g);
    let mut cur = cfg0.clone();
    let mut evs = vec![];
    for _ in 0..g.range(1, 6) { if g.chance(1, 3) { evs.push(NEv::Report); } else { let n = if g.chance(1, 4) { cur.clone() } else { src(g) }; cur = n.clone(); evs.push(NEv::Reload(n)); } }
    (cfg0, evs)
}

// =================================================================== mrt-file-in

#[derive(Clone, Debug, PartialEq)]
struct MCfg { files: Vec<u8>, updir: Option<u8> }
#[derive(Clone, Debug, PartialEq)]
enum MEv { Api(u8), Reload(MCfg) }
fn show_mcfg(c: &MCfg) -> String { format!("{},{}", show_units(&c.files), c.updir.map(|d| d.to_string()).unwrap_or("-".into())) }
fn parse_mcfg(s: &str) -> Option<MCfg> { let (f, d) = s.split_once(',')?; Some(MCfg { files: parse_units(f)?, updir: if d == "-" { None } else { Some(d.parse().ok()?) } }) }
fn show_mev(e: &MEv) -> String { match e { MEv::Api(n) => format!("q{n}"), MEv::Reload(c) => format!("R{}", show_mcfg(c)) } }
fn parse_mev(s: &str) -> Option<MEv> { let (h, r) = s.split_at(1); Some(match h { "q" => MEv::Api(r.parse().ok()?), "R" => MEv::Reload(parse_mcfg(r)?), _ => return None }) }
fn show_mcase(c: &MCfg, evs: &[MEv]) -> String { format!("M|{}|{}", show_mcfg(c), join(evs.iter().map(show_mev), ";")) }
fn parse_mcase(line: &str) -> Option<(MCfg, Vec<MEv>)> {
    let f: Vec<&str> = line.split('|').collect();
    if f.len() != 3 || f[0] != "M" { return None; }
    Some((parse_mcfg(f[1])?, if f[2].is_empty() { vec![] } else { f[2].split(';').map(parse_mev).collect::<Option<Vec<_>>>()? }))
}

/// An MRT file with one BGP4MP_MESSAGE_AS4 record: an UPDATE announcing 10.<a>.<b>.0/24 (the prefix names the file).
fn mrt_file(a: u8, b: u8) -> Vec<u8> {
    let mut upd = vec![0u8, 0];
    let attrs = [0x40u8, 1, 1, 0, 0x40, 2, 6, 2, 1, 0, 0, 0xfd, 0xe8, 0x40, 3, 4, 10, 0, 0, 9];
    upd.extend_from_slice(&(attrs.len() as u16).to_be_bytes());
    upd.extend_from_slice(&attrs);
    upd.extend_from_slice(&[24, 10, a, b]);
    let msg = hdr(2, &upd);
    let mut body = vec![];
    body.extend_from_slice(&65000u32.to_be_bytes());
    body.extend_from_slice(&64512u32.to_be_bytes());
    body.extend_from_slice(&[0, 0, 0, 1, 192, 0, 2, 1, 192, 0, 2, 2]);
    body.extend_from_slice(&msg);
    let mut out = vec![];
    out.extend_from_slice(&1_700_000_000u32.to_be_bytes());
    out.extend_from_slice(&16u16.to_be_bytes());
    out.extend_from_slice(&4u16.to_be_bytes());
    out.extend_from_slice(&(body.len() as u32).to_be_bytes());
    out.extend_from_slice(&body);
    out
}
/// which file an update came from: `s<f>` (static) or `d<dir>.<name>`
fn file_of(u: &Update) -> Option<String> {
    let ps: Vec<&rotonda::payload::Payload> = match u { Update::Bulk(ps) => ps.iter().collect(), Update::Single(p) => vec![p], _ => vec![] };
    for p in ps {
        if let rotonda::payload::RotondaRoute::Ipv4Unicast(n, _) = &p.rx_value {
            let s = n.to_string();
            for a in [9u8, 0, 1] { for b in 0..3u8 { if s == format!("10.{a}.{b}.0/24") { return Some(if a == 9 { format!("s{b}") } else { format!("d{a}.{b}") }); } } }
        }
    }
    None
}
fn mrt_toml(dir: &std::path::Path, c: &MCfg) -> String {
    let mut s = format!("type = \"mrt-file-in\"\nfilename = [{}]\n", join(c.files.iter().map(|f| format!("\"{}\"", dir.join("s").join(format!("s{}.mrt", f % 3)).display())), ", "));
    if let Some(d) = c.updir { s.push_str(&format!("update_path = \"{}\"\n", dir.join(format!("d{}", d % 2)).display())); }
    s
}

async fn run_mrt(flags: Flags, dir: &std::path::Path, cfg0: &MCfg, evs: &[MEv]) -> (Vec<String>, bool) {
    let _ = std::fs::remove_dir_all(dir);
    for (sub, a) in [("s", 9u8), ("d0", 0), ("d1", 1)] {
        std::fs::create_dir_all(dir.join(sub)).unwrap();
        for b in 0..3u8 { std::fs::write(dir.join(sub).join(format!("{}{b}.mrt", if a == 9 { "s" } else { "u" })), mrt_file(a, b)).unwrap(); }
    }
    let resources = rotonda::verif::http::Resources::default();
    let metrics = rotonda::verif::http::MetricsCollection::default();
    let comp = rotonda::verif::reconfunits::component_with_http("mrt", "mrt-file-in", rotonda::verif::c17::new_register(), resources.clone());
    let Ok(unit) = toml::from_str::<rotonda::units::Unit>(&mrt_toml(dir, cfg0)) else { return (vec!["bad-config".into()], false) };
    let (gate, mut agent) = Gate::new(8);
    let collected: Arc<Mutex<Vec<Update>>> = Arc::new(Mutex::new(vec![]));
    let c2 = collected.clone();
    let target = Arc::new(FnTarget(Arc::new(move |u: Update| { c2.lock().unwrap().push(u); })));
    let mut down = agent.create_link();
    down.set_direct_update_target(target.clone());
    let coord = Coordinator::new(1);
    let wp = coord.clone().track("mrt".into());
    let task = tokio::spawn(unit.run(comp, gate, wp));
    // subscribe while the unit still waits at its start barrier: the files of `filename` are read right after it
    let _ = down.connect(false).await;
    coord.wait(|_, _| {}).await;
    let mut downs = vec![down];
    let mut seen = 0usize;
    let take = |seen: &mut usize| -> Vec<String> { let g = collected.lock().unwrap(); let v: Vec<String> = g[*seen..].iter().filter_map(file_of).collect(); *seen = g.len(); v };
    let c3 = collected.clone();
    let n0 = cfg0.files.len();
    wait_until(Duration::from_secs(4), || c3.lock().unwrap().len() >= n0).await;
    tokio::time::sleep(Duration::from_millis(10)).await;
    let st = take(&mut seen);
    let mut toks = vec![format!("start>{}", if st.is_empty() { "-".into() } else { st.join(",") })];
    let mut cur = cfg0.clone();
    for ev in evs {
        match ev {
            MEv::Api(n) => {
                let req = hyper::Request::builder().method("GET").uri(format!("/mrt/mrt/queue?file=u{}.mrt", n % 3)).body(hyper::Body::empty()).unwrap();
                let res = tokio::time::timeout(Duration::from_secs(8), rotonda::verif::http::handle_request(req, &metrics, &resources)).await;
                let status = match &res { Ok(r) => r.status().as_u16().to_string(), Err(_) => "timeout".into() };
                tokio::time::sleep(Duration::from_millis(3)).await;
                let got = take(&mut seen);
                toks.push(if got.is_empty() { status } else { format!("{status}>{}", got.join(",")) });
            }
            MEv::Reload(c) => {
                let Ok(newu) = toml::from_str::<rotonda::units::Unit>(&mrt_toml(dir, c)) else { toks.push("bad-config".into()); continue };
                let (new_gate, mut new_agent) = Gate::new(8);
                let mut d = new_agent.create_link();
                d.set_direct_update_target(target.clone());
                let _ = new_gate.process_until(async { let _ = d.connect(false).await; }).await;
                downs.push(d);
                let ok = agent.reconfigure(newu, new_gate).await.is_ok();
                agent = new_agent;
                let rep = UpstreamLinkReport::new();
                let _ = agent.report_links(rep.clone()).await;
                let r2 = rep.clone();
                let acked = wait_until(Duration::from_secs(4), || r2.ready()).await;
                // a tree that adopts `filename` reads the newly listed files now
                let newly = c.files.iter().filter(|f| !cur.files.iter().any(|o| o % 3 == **f % 3)).count();
                if flags.mrt && newly > 0 { let c3 = collected.clone(); let want = seen + newly; wait_until(Duration::from_secs(4), || c3.lock().unwrap().len() >= want).await; }
                tokio::time::sleep(Duration::from_millis(if flags.mrt { 10 } else { 40 })).await;
                let got = take(&mut seen);
                cur = c.clone();
                toks.push(format!("{}{}", if ok && acked { "r" } else { "r!" }, if got.is_empty() { String::new() } else { format!(">{}", got.join(",")) }));
            }
        }
    }
    let died = task.is_finished();
    agent.terminate().await;
    let _ = tokio::time::timeout(Duration::from_secs(2), task).await;
    drop(downs);
    let _ = std::fs::remove_dir_all(dir);
    (toks, died)
}

fn mrt_case(flags: Flags, cfg0: &MCfg, evs: &[MEv]) -> Outcome {
    let no = CASE_NO.fetch_add(1, std::sync::atomic::Ordering::SeqCst);
    let tname = format!("reconfunits-{no}");
    let rt = tokio::runtime::Builder::new_multi_thread().worker_threads(2).thread_name(tname.clone()).enable_all().build().unwrap();
    let dir = std::env::temp_dir().join(format!("reconfunits-mrt-{}-{no}", std::process::id()));
    let (toks, died) = rt.block_on(run_mrt(flags, &dir, cfg0, evs));
    rt.shutdown_timeout(Duration::from_millis(200));
    let panics = take_panics(&tname);
    let mut fails: Vec<String> = vec![];
    if died || !panics.is_empty() { fails.push(format!("reconf:mrt-file-in:unit-task-ended {}", panics.join(";").replace(' ', "_"))); }
    // reference: start files; a request is resolved in the update_path in force; a newly listed file is read once
    let mut cur = cfg0.clone();
    let want0 = format!("start>{}", if cfg0.files.is_empty() { "-".into() } else { join(cfg0.files.iter().map(|f| format!("s{}", f % 3)), ",") });
    if toks.first() != Some(&want0) { fails.push(format!("reconf:mrt-file-in:start-files-not-read expected {want0} got {}", toks.first().cloned().unwrap_or_default())); }
    let mut reloads = 0;
    for (i, ev) in evs.iter().enumerate() {
        let got = toks.get(i + 1).cloned().unwrap_or_default();
        match ev {
            MEv::Api(n) => {
                let want = match cur.updir { None => "400".to_string(), Some(d) => format!("200>d{}.{}", d % 2, n % 3) };
                if got != want { fails.push(format!("reconf:mrt-file-in:update_path-not-adopted event {i} {}: expected {want} got {got} (update_path in force: {})", show_mev(ev), cur.updir.map(|d| format!("d{d}")).unwrap_or("none".into()))); }
            }
            MEv::Reload(c) => {
                reloads += 1;
                let newly: Vec<String> = c.files.iter().filter(|f| !cur.files.iter().any(|o| o % 3 == **f % 3)).map(|f| format!("s{}", f % 3)).collect();
                let want = if newly.is_empty() { "r".to_string() } else { format!("r>{}", newly.join(",")) };
                if got != want { fails.push(format!("reconf:mrt-file-in:filename-not-adopted event {i} {}: expected {want} got {got}", show_mev(ev))); }
                cur = c.clone();
            }
        }
    }
    let notes = fails.iter().map(|f| format!("oracle-{}", f.split_whitespace().next().unwrap_or(""))).collect();
    fails.sort_by_key(|f| if f.contains("filename-not-adopted") { 0 } else { 1 });
    let oracle = fail_line(&mut fails);
    Outcome { case: show_mcase(cfg0, evs), imp: toks.join(" "), oracle, nontrivial: reloads >= 1, notes, discard: false }
}

fn gen_mrt(g: &mut Rng) -> (MCfg, Vec<MEv>) {
    let mc = |g: &mut Rng| { let files: Vec<u8> = (0..3u8).filter(|_| g.chance(1, 2)).collect(); MCfg { files, updir: match g.below(3) { 0 => None, d => Some(d as u8 - 1) } } };
    let cfg0 = mc(g);
    let mut cur = cfg0.clone();
    let mut evs = vec![];
    for _ in 0..g.range(2, 6) {
        if g.chance(1, 2) { evs.push(MEv::Api(g.below(3) as u8)); }
        else { let n = match g.below(4) { 0 => cur.clone(), 1 => MCfg { updir: match cur.updir { None => Some(0), Some(0) => Some(1), _ => None }, ..cur.clone() }, 2 => { let mut f = cur.files.clone(); let x = g.below(3) as u8; if !f.contains(&x) { f.push(x); } MCfg { files: f, ..cur.clone() } } _ => mc(g) }; cur = n.clone(); evs.push(MEv::Reload(n)); }
    }
    (cfg0, evs)
}

// =================================================================== bmp-tcp-in

#[derive(Clone, Copy, Debug, PartialEq)]
struct PCfg { listen: u8, path: u8, tmpl: u8, filter: u8, mode: u8 }
#[derive(Clone, Debug, PartialEq)]
enum PEv { Conn(u8), Init(usize, u8), Close(usize), Reload(PCfg) }
const PATHS: [&str; 2] = ["/routers/", "/bmp2/"];
const TMPLS: [&str; 3] = ["a-{sys_name}", "r-{sys_name}", "{router_ip}-{sys_name}"];
const MODES: [&str; 3] = ["Off", "IfRequested", "On"];
fn show_pcfg(c: &PCfg) -> String { format!("{},{},{},{},{}", c.listen, c.path, c.tmpl, c.filter, c.mode) }
fn parse_pcfg(s: &str) -> Option<PCfg> { let f: Vec<u8> = s.split(',').map(|x| x.parse().ok()).collect::<Option<Vec<u8>>>()?; if f.len() != 5 { return None; } Some(PCfg { listen: f[0] % 3, path: f[1] % 2, tmpl: f[2] % 3, filter: f[3] % 3, mode: f[4] % 3 }) }
fn show_pev(e: &PEv) -> String { match e { PEv::Conn(s) => format!("c{s}"), PEv::Init(k, t) => format!("i{k}.{t}"), PEv::Close(k) => format!("x{k}"), PEv::Reload(c) => format!("R{}", show_pcfg(c)) } }
fn parse_pev(s: &str) -> Option<PEv> { let (h, r) = s.split_at(1); Some(match h { "c" => PEv::Conn(r.parse().ok()?), "i" => { let (k, t) = r.split_once('.')?; PEv::Init(k.parse().ok()?, t.parse().ok()?) } "x" => PEv::Close(r.parse().ok()?), "R" => PEv::Reload(parse_pcfg(r)?), _ => return None }) }
fn show_pcase(c: &PCfg, evs: &[PEv]) -> String { format!("B|{}|{}", show_pcfg(c), join(evs.iter().map(show_pev), ";")) }
fn parse_pcase(line: &str) -> Option<(PCfg, Vec<PEv>)> {
    let f: Vec<&str> = line.split('|').collect();
    if f.len() != 3 || f[0] != "B" { return None; }
    Some((parse_pcfg(f[1])?, if f[2].is_empty() { vec![] } else { f[2].split(';').map(parse_pev).collect::<Option<Vec<_>>>()? }))
}
fn bmp_toml(c: &PCfg, ports: &[u16; 3]) -> String {
    format!("listen = \"127.0.0.1:{}\"\nhttp_api_path = \"{}\"\nrouter_id_template = \"{}\"\nfilter_name = \"f{}\"\ntracing_mode = \"{}\"\n", ports[c.listen as usize % 3], PATHS[c.path as usize % 2], TMPLS[c.tmpl as usize % 3], c.filter, MODES[c.mode as usize % 3])
}
/// BMP Initiation message (sysDescr "d", sysName "rt"); `t` > 0 sets the diagnostic trace id in the high half of the version byte
fn bmp_initiation(t: u8) -> Vec<u8> {
    let tlvs = [0u8, 1, 0, 1, b'd', 0, 2, 0, 2, b'r', b't'];
    let mut v = vec![(t << 4) | 3];
    v.extend_from_slice(&((6 + tlvs.len()) as u32).to_be_bytes());
    v.push(4);
    v.extend_from_slice(&tlvs);
    v
}
fn label_of(tmpl: u8, id: u32) -> String { TMPLS[tmpl as usize % 3].replace("{sys_name}", &id.to_string()).replace("{router_ip}", "IP") }

/// (listening slots, paths the list page answers at, per router: (ingress id, paths its page answers at, template of its current router id),
/// labels under which messages were received as (template, id), the three stored settings, the routers)
struct PObs { tok: String, listening: Vec<usize>, list_at: Vec<usize>, info_at: Vec<(u32, Vec<usize>, Option<usize>)>, labels: Vec<(u32, usize)>, stored: (Option<usize>, String, Option<usize>) }
fn opt_s(o: &Option<usize>) -> String { o.map(|i| i.to_string()).unwrap_or("?".into()) }
fn show_pobs(o: &PObs) -> String {
    format!("{}@P{}:H{}:I{}:N{}:S{}.{}.{}", o.tok, join(o.listening.iter(), ""), if o.list_at.is_empty() { "-".into() } else { join(o.list_at.iter(), "") },
        if o.info_at.is_empty() { "-".into() } else { join(o.info_at.iter().map(|(i, p, t)| format!("{i}={}/{}", if p.is_empty() { "-".into() } else { join(p.iter(), "") }, opt_s(t))), ",") },
        if o.labels.is_empty() { "-".into() } else { join(o.labels.iter().map(|(i, t)| format!("{t}.{i}")), ",") },
        opt_s(&o.stored.0), o.stored.1.trim_start_matches('f'), opt_s(&o.stored.2))
}
fn parse_label(l: &str) -> Option<(u32, usize)> { for (t, pre) in [(0usize, "a-"), (1, "r-"), (2, "IP-")] { if let Some(r) = l.strip_prefix(pre) { return Some((r.parse().ok()?, t)); } } None }

async fn run_bmp(cfg0: &PCfg, evs: &[PEv]) -> (Vec<PObs>, bool, bool, Option<(u32, u32)>) {
    use rotonda::verif::reconfunits as rh;
    let ports = [free_port(), free_port(), free_port()];
    let Ok(unit) = rh::bmp::parse_unit(&bmp_toml(cfg0, &ports)) else { return (vec![], false, true, None) };
    let resources = rotonda::verif::http::Resources::default();
    let metrics = rotonda::verif::http::MetricsCollection::default();
    let tracer = Arc::new(rh::Tracer::new());
    let comp = rh::component_with_http_and_tracer("bmp-in", "bmp-tcp-in", rotonda::verif::c17::new_register(), resources.clone(), tracer.clone());
    let (gate, mut agent) = Gate::new(8);
    let collected: Arc<Mutex<Vec<Update>>> = Arc::new(Mutex::new(vec![]));
    let c2 = collected.clone();
    let target = Arc::new(FnTarget(Arc::new(move |u: Update| { c2.lock().unwrap().push(u); })));
    let mut down = agent.create_link();
    down.set_direct_update_target(target.clone());
    let coord = Coordinator::new(1);
    let wp = coord.clone().track("bmp-in".into());
    let (ptx, prx) = tokio::sync::oneshot::channel();
    let task = tokio::spawn(rh::bmp::run_probed(unit, comp, gate, wp, ptx));
    let _ = down.connect(false).await;
    coord.wait(|_, _| {}).await;
    let Ok(Ok(probes)) = tokio::time::timeout(Duration::from_secs(4), prx).await else { task.abort(); return (vec![], false, true, None) };
    let mut downs = vec![down];
    if !wait_until(Duration::from_millis(2500), || listening(&ports).contains(&(cfg0.listen as usize % 3))).await { task.abort(); return (vec![], false, true, None); }
    let mut cur = *cfg0;
    let mut nreload = 0usize;
    let mut conns: Vec<Option<TcpStream>> = vec![];
    let mut obs = vec![];
    let counter = |text: &str, name: &str| -> u64 { text.lines().filter(|l| l.starts_with(name) && !l.starts_with('#')).filter_map(|l| l.rsplit(' ').next()?.parse::<u64>().ok()).sum() };
    for ev in evs {
        let tok = match ev {
            PEv::Conn(slot) => {
                let k = conns.len();
                let sock = TcpSocket::new_v4().unwrap();
                let _ = sock.set_reuseaddr(true);
                let n0 = probes.routers().len();
                let res = match sock.bind(SocketAddr::from((Ipv4Addr::new(127, 3, (k / 200) as u8, 1 + (k % 200) as u8), 0))) { Err(_) => None, Ok(()) => tokio::time::timeout(Duration::from_secs(2), sock.connect(SocketAddr::from(([127, 0, 0, 1], ports[*slot as usize % 3])))).await.ok().and_then(|r| r.ok()) };
                match res {
                    None => { conns.push(None); "refused".to_string() }
                    Some(s) => {
                        let _ = s.set_nodelay(true);
                        let ok = wait_until(Duration::from_secs(4), || probes.routers().len() > n0).await;
                        conns.push(Some(s));
                        if ok { format!("ok{}", probes.routers().last().copied().unwrap_or(0)) } else { "notaccepted".into() }
                    }
                }
            }
            PEv::Init(k, t) => match conns.get_mut(*k).and_then(|c| c.as_mut()) {
                None => "nc".into(),
                Some(s) => {
                    for i in 0..=255u8 { tracer.clear_trace_id(i); }
                    let m0 = probes.metrics_text("bmp-in");
                    let (r0, e0) = (counter(&m0, "rotonda_bmp_tcp_in_num_bmp_messages_received"), counter(&m0, "rotonda_bmp_tcp_in_num_receive_io_errors"));
                    let sent = s.write_all(&bmp_initiation(*t)).await.is_ok();
                    let mut processed = false;
                    if sent {
                        wait_until(Duration::from_secs(3), || { let m = probes.metrics_text("bmp-in"); let (r, e) = (counter(&m, "rotonda_bmp_tcp_in_num_bmp_messages_received"), counter(&m, "rotonda_bmp_tcp_in_num_receive_io_errors")); processed = r > r0; r > r0 || e > e0 }).await;
                    }
                    tokio::time::sleep(Duration::from_millis(15)).await;
                    let traced: Vec<u8> = (0..=255u8).filter(|i| !tracer.get_trace(*i).msgs().is_empty()).collect();
                    format!("m{}t{}", processed as u8, if traced.is_empty() { "-".into() } else { join(traced.iter(), "+") })
                }
            },
            PEv::Close(k) => match conns.get_mut(*k) {
                Some(c) if c.is_some() => {
                    let mut s = c.take().unwrap();
                    let n0 = probes.routers().len();
                    let _ = s.shutdown().await;
                    drop(s);
                    if wait_until(Duration::from_secs(4), || probes.routers().len() < n0).await { "closed".into() } else { "noend".into() }
                }
                _ => "nc".into(),
            },
            PEv::Reload(new) => {
                let Ok(parsed) = rh::bmp::parse_unit(&bmp_toml(new, &ports)) else { return (obs, false, true, None) };
                let (new_gate, mut new_agent) = Gate::new(8);
                let mut l = new_agent.create_link();
                l.set_direct_update_target(target.clone());
                let _ = new_gate.process_until(async { let _ = l.connect(false).await; }).await;
                downs.push(l);
                let sent = agent.reconfigure(rotonda::units::Unit::BmpTcpIn(parsed), new_gate).await.is_ok();
                // handled once the unit's gate has moved to the new command channel: the old one is closed then
                let old_agent = std::mem::replace(&mut agent, new_agent);
                let mut acked = wait_until(Duration::from_secs(4), || old_agent.is_terminated()).await;
                // The manager sends ReportLinks to every unit some time after a load. A router handler keeps only the
                // last gate status it saw while waiting for a message, so whether its `Reconfiguring` arm runs depends
                // on whether a ReportLinks came in between: every second reload of a case is followed by one.
                nreload += 1;
                if nreload % 2 == 0 {
                    let rep = UpstreamLinkReport::new();
                    let _ = agent.report_links(rep.clone()).await;
                    let r2 = rep.clone();
                    acked = wait_until(Duration::from_secs(4), || r2.ready()).await && acked;
                }
                if new.listen != cur.listen { wait_until(Duration::from_secs(4), || listening(&ports) == vec![new.listen as usize % 3]).await; }
                tokio::time::sleep(Duration::from_millis(15)).await;
                cur = *new;
                if sent && acked { "r".into() } else { "r!".into() }
            }
        };
        // ---- everything observable, after every event
        tokio::time::sleep(Duration::from_millis(3)).await;
        let routers = probes.routers();
        let get = |path: String| { let resources = resources.clone(); let metrics = metrics.clone(); async move { let req = hyper::Request::builder().method("GET").uri(path).body(hyper::Body::empty()).unwrap(); match tokio::time::timeout(Duration::from_secs(5), rotonda::verif::http::handle_request(req, &metrics, &resources)).await { Ok(r) => r.status().as_u16(), Err(_) => 0 } } };
        let mut list_at = vec![];
        for (pi, p) in PATHS.iter().enumerate() { if get(p.to_string()).await == 200 { list_at.push(pi); } }
        let mut info_at = vec![];
        for id in &routers {
            let mut at = vec![];
            for (pi, p) in PATHS.iter().enumerate() { if get(format!("{p}{id}")).await == 200 { at.push(pi); } }
            // the router id its state machine carries now: the page also answers to that name
            let mut cur_t = None;
            if let Some(pi) = at.first() { for t in 0..3u8 { if get(format!("{}{}", PATHS[*pi], label_of(t, *id))).await == 200 { cur_t = Some(t as usize); } } }
            info_at.push((*id, at, cur_t));
        }
        let text = probes.metrics_text("bmp-in");
        let mut labels: Vec<(u32, usize)> = text.lines().filter(|l| l.starts_with("rotonda_bmp_tcp_in_num_bmp_messages_received_total") && l.contains("Initiation") && !l.ends_with(" 0")).filter_map(|l| l.split("router=\"").nth(1).and_then(|r| parse_label(r.split('"').next().unwrap_or("")))).collect();
        labels.sort(); labels.dedup();
        let stored = (TMPLS.iter().position(|t| *t == probes.router_id_template()), probes.filter_name(), MODES.iter().position(|t| *t == probes.tracing_mode()));
        obs.push(PObs { tok, listening: listening(&ports), list_at, info_at, labels, stored });
    }
    let died = task.is_finished();
    // C14, after the history (nothing of it is in the tokens): the first router that was accepted leaves, if it is still
    // there, and comes back from the same address to whatever the unit listens on now. The unit has run throughout, so
    // it is the same source, whatever was reloaded or re-bound in between.
    let mut revisit: Option<(u32, u32)> = None;
    let first_ok = obs.iter().zip(evs.iter()).filter(|(_, e)| matches!(e, PEv::Conn(_))).enumerate().find_map(|(k, (o, _)): (usize, (&PObs, &PEv))| o.tok.strip_prefix("ok").and_then(|x| x.parse::<u32>().ok()).map(|id| (k, id)));
    if let (false, Some((k0, id0))) = (died, first_ok) {
        if let Some(c) = conns.get_mut(k0) { if let Some(mut s) = c.take() { let n0 = probes.routers().len(); let _ = s.shutdown().await; drop(s); wait_until(Duration::from_secs(4), || probes.routers().len() < n0).await; } }
        if let Some(slot) = listening(&ports).first().copied() {
            let sock = TcpSocket::new_v4().unwrap();
            let _ = sock.set_reuseaddr(true);
            let before = probes.routers();
            let n0 = before.len();
            let res = match sock.bind(SocketAddr::from((Ipv4Addr::new(127, 3, (k0 / 200) as u8, 1 + (k0 % 200) as u8), 0))) { Err(_) => None, Ok(()) => tokio::time::timeout(Duration::from_secs(2), sock.connect(SocketAddr::from(([127, 0, 0, 1], ports[slot])))).await.ok().and_then(|r| r.ok()) };
            if let Some(s) = res {
                if wait_until(Duration::from_secs(4), || probes.routers().len() > n0).await { if let Some(id1) = probes.routers().into_iter().find(|r| !before.contains(r)) { revisit = Some((id0, id1)); } }
                drop(s);
            }
        }
    }
    agent.terminate().await;
    wait_until(Duration::from_secs(2), || task.is_finished()).await;
    task.abort();
    drop(conns);
    drop(downs);
    (obs, died, false, revisit)
}

fn bmp_case(cfg0: &PCfg, evs: &[PEv]) -> Outcome {
    let tname = format!("reconfunits-{}", CASE_NO.fetch_add(1, std::sync::atomic::Ordering::SeqCst));
    let rt = tokio::runtime::Builder::new_multi_thread().worker_threads(2).thread_name(tname.clone()).enable_all().build().unwrap();
    let (obs, died, discard, revisit) = rt.block_on(run_bmp(cfg0, evs));
    rt.shutdown_timeout(Duration::from_millis(200));
    let panics = take_panics(&tname);
    let mut fails: Vec<String> = vec![];
    let mut notes: Vec<String> = vec![];
    if died || !panics.is_empty() { fails.push(format!("reconf:bmp-tcp-in:unit-task-ended {}", panics.join(";").replace(' ', "_"))); }
    if let Some((a, b)) = revisit { if a != b { fails.push(format!("ingress:router-id-changed-while-unit-runs the router that was {a} left and came back from the same address as {b}")); } else { notes.push("revisit-same-id".into()); } }
    // ---- reference: after a Reconfigure has been handled everything is judged by the new configuration, sessions stay
    let mut cur = *cfg0;
    let mut live: Vec<(usize, u32)> = vec![]; // (connection, ingress id)
    // routers whose pending read may have been started under another tracing mode (a reload changed it since their last message)
    let mut stale: Vec<u32> = vec![];
    let mut nconn = 0usize;
    let mut tnext = 0u32;
    let mut reloads = 0;
    if !discard {
        for (i, ev) in evs.iter().enumerate() {
            let Some(o) = obs.get(i) else { break };
            match ev {
                PEv::Conn(slot) => {
                    let k = nconn; nconn += 1;
                    let want_ok = *slot % 3 == cur.listen % 3;
                    if o.tok.starts_with("ok") != want_ok { fails.push(format!("reconf:bmp-tcp-in:listen event {i} {}: expected {} got {} (listen in force: slot {})", show_pev(ev), if want_ok { "accepted" } else { "refused" }, o.tok, cur.listen)); }
                    if let Some(id) = o.tok.strip_prefix("ok").and_then(|x| x.parse::<u32>().ok()) {
                        live.push((k, id));
                        // the id the router is known under right away comes from the template in force
                        if let Some((_, _, t)) = o.info_at.iter().find(|(j, _, _)| *j == id) { if *t != Some(cur.tmpl as usize % 3) { fails.push(format!("reconf:bmp-tcp-in:router_id_template event {i} {}: router {id} is known as template {} instead of {}", show_pev(ev), opt_s(t), cur.tmpl)); } }
                    }
                }
                PEv::Init(k, t) => {
                    if let Some((_, id)) = live.iter().find(|(c, _)| c == k) {
                        let want = match cur.mode % 3 {
                            0 => if *t == 0 { "m1t-".to_string() } else { "m0t-".to_string() },
                            1 => if *t == 0 { "m1t-".to_string() } else { format!("m1t{t}") },
                            _ => if *t == 0 { let n = tnext; tnext = (tnext + 1) % 256; format!("m1t{n}") } else { format!("m1t{t}") },
                        };
                        let was_stale = stale.contains(id);
                        stale.retain(|x| x != id);
                        if o.tok != want {
                            // the listed finding is exactly: first message after a changed mode, carrying a trace id
                            let sig = if was_stale && *t > 0 { "tracing_mode" } else { "tracing_mode:not-in-force" };
                            fails.push(format!("reconf:bmp-tcp-in:{sig} event {i} {}: expected {want} got {} (tracing_mode in force: {})", show_pev(ev), o.tok, MODES[cur.mode as usize % 3]));
                            // follow the real counter
                            if let Some(n) = o.tok.split('t').nth(1).and_then(|x| x.parse::<u32>().ok()) { if cur.mode % 3 == 2 && *t == 0 { tnext = (n + 1) % 256; } }
                        }
                        if o.tok.starts_with("m1") { if let Some((_, _, tt)) = o.info_at.iter().find(|(j, _, _)| j == id) { if *tt != Some(cur.tmpl as usize % 3) { fails.push(format!("reconf:bmp-tcp-in:router_id_template event {i} {}: after its Initiation message router {id} is known as template {} instead of {}", show_pev(ev), opt_s(tt), cur.tmpl)); } } }
                        notes.push(format!("init-mode{}-{}", cur.mode, if *t == 0 { "plain" } else { "traceid" }));
                    }
                }
                PEv::Close(k) => { live.retain(|(c, _)| c != k); }
                PEv::Reload(new) => {
                    reloads += 1;
                    let changed: Vec<&str> = [("listen", new.listen != cur.listen), ("http_api_path", new.path != cur.path), ("router_id_template", new.tmpl != cur.tmpl), ("filter_name", new.filter != cur.filter), ("tracing_mode", new.mode != cur.mode)].iter().filter(|x| x.1).map(|x| x.0).collect();
                    notes.push(format!("reload-changes-{}", if changed.is_empty() { "nothing".into() } else { changed.join("+") }));
                    if o.tok != "r" { fails.push(format!("reconf:bmp-tcp-in:reconfigure-not-acknowledged event {i}")); }
                    let what = format!("event {i} {} (changed: {})", show_pev(ev), if changed.is_empty() { "nothing".into() } else { changed.join("+") });
                    if o.stored.0 != Some(new.tmpl as usize % 3) { fails.push(format!("reconf:bmp-tcp-in:router_id_template {what}: the unit holds template {}", opt_s(&o.stored.0))); }
                    if o.stored.1 != format!("f{}", new.filter) { fails.push(format!("reconf:bmp-tcp-in:filter_name {what}: the unit holds {}", o.stored.1)); }
                    if o.stored.2 != Some(new.mode as usize % 3) { fails.push(format!("reconf:bmp-tcp-in:tracing_mode:not-stored {what}: the unit holds mode {}", opt_s(&o.stored.2))); }
                    if new.mode != cur.mode { for (_, id) in &live { if !stale.contains(id) { stale.push(*id); } } }
                    if o.listening != vec![new.listen as usize % 3] { fails.push(format!("reconf:bmp-tcp-in:listen {what}: listening on slots {:?}", o.listening)); }
                    // established sessions are kept
                    let have: Vec<u32> = o.info_at.iter().map(|x| x.0).collect();
                    let mut want: Vec<u32> = live.iter().map(|x| x.1).collect(); want.sort();
                    if have != want { fails.push(format!("reconf:bmp-tcp-in:sessions-not-kept {what}: routers {:?}, before {:?}", have, want)); }
                    cur = *new;
                }
            }
            // what holds after every event
            if o.list_at != vec![cur.path as usize % 2] { fails.push(format!("reconf:bmp-tcp-in:{} event {i} {}: the router list answers at {}, the path in force is {}", if o.list_at == vec![cfg0.path as usize % 2] { "http_api_path" } else { "http_api_path:endpoints-inconsistent" }, show_pev(ev), if o.list_at.is_empty() { "no path".to_string() } else { join(o.list_at.iter().map(|p| PATHS[*p]), " and ") }, PATHS[cur.path as usize % 2])); }
            else if let Some((id, at, _)) = o.info_at.iter().find(|(_, at, _)| *at != vec![cur.path as usize % 2]) { fails.push(format!("reconf:bmp-tcp-in:http_api_path:endpoints-inconsistent event {i} {}: the page of router {id} answers at {:?}, the path in force is {}", show_pev(ev), at, PATHS[cur.path as usize % 2])); }
        }
    }
    let imp = join(obs.iter().map(show_pobs), " ");
    for f in &fails { notes.push(format!("oracle-{}", f.split_whitespace().next().unwrap_or(""))); }
    // one finding per setting; the rarer mechanism first
    let known = |f: &String| f.starts_with("reconf:bmp-tcp-in:tracing_mode ") || f.starts_with("reconf:bmp-tcp-in:http_api_path ");
    fails.sort_by_key(|f| if !known(f) { 0 } else if f.contains(":tracing_mode") { 1 } else { 2 });
    fails.dedup_by_key(|f| f.split_whitespace().next().unwrap_or("").to_string());
    let oracle = fail_line(&mut fails);
    Outcome { case: show_pcase(cfg0, evs), imp, oracle, nontrivial: reloads >= 1, notes, discard }
}

/// the configuration that takes the settings named in `subset` (bit 0 listen, 1 path, 2 template, 3 filter, 4 mode) from `b`, the rest from `a`
fn mix(a: &PCfg, b: &PCfg, subset: u8) -> PCfg {
    PCfg { listen: if subset & 1 != 0 { b.listen } else { a.listen }, path: if subset & 2 != 0 { b.path } else { a.path }, tmpl: if subset & 4 != 0 { b.tmpl } else { a.tmpl }, filter: if subset & 8 != 0 { b.filter } else { a.filter }, mode: if subset & 16 != 0 { b.mode } else { a.mode } }
}
/// One case per subset of settings changed by one reload: a router before, the reload, the same router again (with a
/// trace id, then plain), a router after at the new and at the old address, an identical reload, both routers again.
fn bmp_subset_case(g: &mut Rng, subset: u8) -> (PCfg, Vec<PEv>) {
    let a = PCfg { listen: g.below(3) as u8, path: g.below(2) as u8, tmpl: g.below(3) as u8, filter: g.below(3) as u8, mode: g.below(3) as u8 };
    let b = PCfg { listen: (a.listen + 1 + g.below(2) as u8) % 3, path: 1 - a.path, tmpl: (a.tmpl + 1 + g.below(2) as u8) % 3, filter: (a.filter + 1 + g.below(2) as u8) % 3, mode: (a.mode + 1 + g.below(2) as u8) % 3 };
    let n = mix(&a, &b, subset);
    let t = 1 + g.below(14) as u8;
    (a, vec![PEv::Conn(a.listen), PEv::Init(0, 0), PEv::Reload(n), PEv::Init(0, t), PEv::Init(0, 0), PEv::Conn(n.listen), PEv::Init(1, 0), PEv::Conn(a.listen), PEv::Reload(n), PEv::Init(0, t), PEv::Init(1, 0)])
}
fn gen_bmp(g: &mut Rng) -> (PCfg, Vec<PEv>) {
    let pc = |g: &mut Rng| PCfg { listen: g.below(3) as u8, path: g.below(2) as u8, tmpl: g.below(3) as u8, filter: g.below(3) as u8, mode: g.below(3) as u8 };
    let cfg0 = pc(g);
    let mut cur = cfg0;
    let mut evs = vec![];
    let mut nconn = 0usize;
    for i in 0..g.range(4, 10) {
        let r = g.below(100);
        if nconn == 0 || (i < 2 && r < 50) || r < 20 { evs.push(PEv::Conn(if g.chance(5, 6) { cur.listen } else { g.below(3) as u8 })); nconn += 1; }
        else if r < 60 { evs.push(PEv::Init(g.below(nconn as u64) as usize, if g.chance(1, 2) { 0 } else { 1 + g.below(14) as u8 })); }
        else if r < 67 { evs.push(PEv::Close(g.below(nconn as u64) as usize)); }
        else { let b = pc(g); let n = mix(&cur, &b, g.below(32) as u8); cur = n; evs.push(PEv::Reload(n)); }
    }
    (cfg0, evs)
}

// =================================================================== main

fn replay_line(flags: Flags, line: &str) -> Option<Outcome> {
    if let Some((c, e)) = parse_bcase(line) { return Some(bgp_case(flags, &c, &e)); }
    if let Some((c, e)) = parse_fcase(line) { return Some(file_case(&c, &e)); }
    if let Some((c, e)) = parse_xcase(line) { return Some(filter_case(&c, &e)); }
    if let Some((c, e)) = parse_ncase(line) { return Some(null_case(&c, &e)); }
    if let Some((c, e)) = parse_mcase(line) { return Some(mrt_case(flags, &c, &e)); }
    if let Some((c, e)) = parse_pcase(line) { return Some(bmp_case(&c, &e)); }
    None
}

fn main() {
    let args = parse_args();
    let t0 = Instant::now();
    install_panic_hook();
    let mut rec = Recorder::new("bgp-tcp-in: a Reconfigure arrives while at least one session is established; file-out: at least one reload and at least one record emitted after it; filter: a reload and a notice; null-out, mrt-file-in, bmp-tcp-in: at least one reload");
    let record = |rec: &mut Recorder, o: Outcome| {
        if o.discard { rec.bump("discarded.environment"); return; }
        for n in &o.notes { rec.bump(n); }
        rec.case(o.case, o.imp, o.oracle, o.nontrivial);
    };
    // ---- witnesses first: they decide the variants
    let mut flags = Flags::default();
    let bw = bgp_witnesses();
    let handles: Vec<_> = bw.into_iter().map(|(n, c, e)| std::thread::spawn(move || (n, bgp_case(Flags::default(), &c, &e)))).collect();
    let fh: Vec<_> = file_witnesses().into_iter().map(|(c, e)| std::thread::spawn(move || file_case(&c, &e))).collect();
    let mut wouts = vec![];
    for h in handles { if let Ok((n, o)) = h.join() {
        let ended_by_first_reconf = o.imp.split_whitespace().find(|t| t.starts_with("r[")).map(|t| !t.starts_with("r[]")).unwrap_or(false);
        match n { "bgpeq" => flags.bgpeq = ended_by_first_reconf, "bgpmatch" => flags.bgpmatch = ended_by_first_reconf, "bgplisten" => flags.bgplisten = !ended_by_first_reconf, _ => {} }
        wouts.push(o);
    } }
    for (i, h) in fh.into_iter().enumerate() { if let Ok(o) = h.join() { if i == 0 { flags.fileout = !o.imp.starts_with("ad") && !o.imp.starts_with("add"); } wouts.push(o); } }
    {
        let w = mrt_case(Flags { mrt: true, ..flags }, &MCfg { files: vec![0], updir: Some(0) }, &[MEv::Api(1), MEv::Reload(MCfg { files: vec![0, 2], updir: Some(1) }), MEv::Api(1), MEv::Reload(MCfg { files: vec![0, 2], updir: Some(1) }), MEv::Reload(MCfg { files: vec![2], updir: None }), MEv::Api(0)]);
        flags.mrt = w.imp.contains(" r>s2 ");
        wouts.push(w);
    }
    {
        // bmp-tcp-in: path and tracing mode change while a router is connected
        let w = bmp_case(&PCfg { listen: 0, path: 0, tmpl: 0, filter: 0, mode: 0 }, &[PEv::Conn(0), PEv::Init(0, 0), PEv::Reload(PCfg { listen: 0, path: 1, tmpl: 0, filter: 0, mode: 1 }), PEv::Init(0, 3), PEv::Init(0, 4)]);
        let toks: Vec<&str> = w.imp.split_whitespace().collect();
        flags.bmppath = toks.get(2).map(|t| t.contains(":H1:")).unwrap_or(false);
        flags.bmptrace = toks.get(3).map(|t| t.starts_with("m1t3")).unwrap_or(false);
        wouts.push(w);
    }
    if let Some(path) = &args.replay {
        let mut rec = Recorder::new(&rec.rule.clone());
        // in order, but eight at a time (a confirmation replay of many suspect cases must not take minutes)
        let lines = replay_cases(path);
        for chunk in lines.chunks(8) {
            let hs: Vec<_> = chunk.iter().cloned().map(|l| std::thread::spawn(move || replay_line(flags, &l))).collect();
            for h in hs { if let Ok(Some(o)) = h.join() { record(&mut rec, o); } }
        }
        set_variants(&mut rec, flags);
        rec.finish(&args, t0.elapsed().as_secs_f64());
        return;
    }
    let only_bmp = args.rest.iter().any(|a| a == "--only-bmp");
    for o in wouts { if !only_bmp || o.case.starts_with("B|") { record(&mut rec, o); } }
    if !only_bmp {
    record(&mut rec, filter_case(&XCfg { name: 1, sources: vec![0, 1] }, &[XEv::Eos(0, 5), XEv::Eos(2, 6), XEv::Reload(true, XCfg { name: 2, sources: vec![1, 2] }), XEv::Eos(0, 7), XEv::Eos(2, 8), XEv::Reload(false, XCfg { name: 2, sources: vec![1, 2] }), XEv::Eos(1, 9)]));
    record(&mut rec, null_case(&[0, 2], &[NEv::Report, NEv::Reload(vec![1]), NEv::Report, NEv::Reload(vec![1])]));
    }
    // bmp-tcp-in: one reload per subset of the five settings (all 32), eight at a time
    {
        let mut g = Rng::new(args.seed.wrapping_mul(77).wrapping_add(5));
        let cases: Vec<(PCfg, Vec<PEv>)> = (0..32u8).map(|sub| bmp_subset_case(&mut g, sub)).collect();
        for chunk in cases.chunks(8) {
            let hs: Vec<_> = chunk.iter().cloned().map(|(c, e)| std::thread::spawn(move || bmp_case(&c, &e))).collect();
            for h in hs { if let Ok(o) = h.join() { rec.bump("bmp-subset-case"); record(&mut rec, o); } }
        }
    }
    // ---- generated histories
    let budget = std::env::var("VERIF_BUDGET").ok().and_then(|b| b.parse().ok()).map(Duration::from_secs).unwrap_or(if args.thorough { Duration::from_secs(200) } else { Duration::from_secs(22) });
    let budget = if only_bmp { budget / 2 } else { budget };
    let seed = args.seed;
    let nthreads = 8usize;
    let cheap_cap = if args.thorough { 4000usize } else { 400 };
    let handles: Vec<_> = (0..nthreads).map(|ti| {
        std::thread::spawn(move || {
            let mut g = Rng::new(seed.wrapping_mul(1000).wrapping_add(ti as u64 + 1));
            let mut outs = vec![];
            while t0.elapsed() < budget {
                if only_bmp { if ti < 4 { let (c, e) = gen_bmp(&mut g); outs.push(bmp_case(&c, &e)); } else { break; } }
                else if ti < 6 { let (c, e) = gen_bgp(&mut g); outs.push(bgp_case(flags, &c, &e)); }
                else if ti == 6 { let (c, e) = gen_bmp(&mut g); outs.push(bmp_case(&c, &e)); }
                else {
                    // one thread for the three cheap component types; the counts are capped so that they do not crowd out the bgp cases
                    let k = outs.len();
                    if k >= cheap_cap { std::thread::sleep(Duration::from_millis(50)); continue; }
                    match k % 5 { 0 | 1 => { let (c, e) = gen_file(&mut g); outs.push(file_case(&c, &e)); } 2 => { let (c, e) = gen_filter(&mut g); outs.push(filter_case(&c, &e)); } 3 => { let (c, e) = gen_mrt(&mut g); outs.push(mrt_case(flags, &c, &e)); } _ => { let (c, e) = gen_null(&mut g); outs.push(null_case(&c, &e)); } }
                }
            }
            outs
        })
    }).collect();
    for h in handles { if let Ok(v) = h.join() { for o in v { record(&mut rec, o); } } }
    set_variants(&mut rec, flags);
    rec.finish(&args, t0.elapsed().as_secs_f64());
}

fn set_variants(rec: &mut Recorder, f: Flags) {
    let v = |b: bool| if b { "repaired" } else { "as-written" };
    rec.variant("bgpeq", v(f.bgpeq));
    rec.variant("bgpmatch", v(f.bgpmatch));
    rec.variant("bgplisten", v(f.bgplisten));
    rec.variant("fileout", v(f.fileout));
    rec.variant("mrt", v(f.mrt));
    rec.variant("bmppath", v(f.bmppath));
    rec.variant("bmptrace", v(f.bmptrace));
    let _: BTreeMap<u8, u8> = BTreeMap::new();
}
