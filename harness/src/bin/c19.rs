//! C19 engine: the real router-info and router-list HTML pages of the BMP unit vs the page model
//! (`Model/EscapePages.lean` over the templates extracted into `Generated/Escape.lean`).
//!
//! Every case builds a real `BmpState`, feeds it a real Initiation message whose sysName / sysDescr /
//! free-form string TLVs carry the strings under test (arbitrary bytes, incl. invalid UTF-8), optionally a
//! real Peer Up, pushes parse-error entries into the router's ring buffer, and fetches the page through the
//! real `RouterInfoApi` / `RouterListApi::process_request`.
//! Observation = the structural skeleton of the body: its `<`, `>`, `"`, `'` characters in order.
//! Oracle (independent of the Lean model): the skeleton must equal the skeleton of the *twin* page, rendered
//! by the same real code from the same shape of input with the field under test replaced by harmless text.
use std::net::IpAddr;
use std::time::Instant;

use inetnum::asn::Asn;
use rotonda::bgp::encode;
use rotonda::verif::escape::Pages;
use routecore::bmp::message::PeerType;
use verif_harness::{join, parse_args, rng::Rng, Recorder};

fn hex(b: &[u8]) -> String { if b.is_empty() { "-".into() } else { b.iter().map(|x| format!("{x:02x}")).collect() } }
fn unhex(s: &str) -> Vec<u8> { if s == "-" { vec![] } else { (0..s.len() / 2).map(|i| u8::from_str_radix(&s[2 * i..2 * i + 2], 16).unwrap()).collect() } }
fn skeleton(body: &[u8]) -> String { body.iter().filter(|b| matches!(**b, b'<' | b'>' | b'"' | b'\'')).map(|b| *b as char).collect() }

/// A BMP Initiation message: common header (v3, length, type 4) + Information TLVs
/// (type 2 sysName, 1 sysDescr, 0 string).
fn initiation(sys_name: &[u8], sys_desc: &[u8], extra: &[Vec<u8>]) -> Vec<u8> {
    let mut tlvs = vec![];
    let mut tlv = |t: u16, v: &[u8]| { tlvs.extend_from_slice(&t.to_be_bytes()); tlvs.extend_from_slice(&(v.len() as u16).to_be_bytes()); tlvs.extend_from_slice(v); };
    tlv(1, sys_desc);
    tlv(2, sys_name);
    for e in extra { tlv(0, e); }
    let mut m = vec![3u8];
    m.extend_from_slice(&((6 + tlvs.len()) as u32).to_be_bytes());
    m.push(4);
    m.extend_from_slice(&tlvs);
    m
}
fn peer_up() -> Vec<u8> {
    let h = encode::PerPeerHeader {
        peer_type: PeerType::GlobalInstance.into(), peer_flags: 0, peer_distinguisher: [0u8; 8],
        peer_address: "10.0.0.1".parse::<IpAddr>().unwrap(), peer_as: Asn::from_u32(65001), peer_bgp_id: [1, 1, 1, 1],
    };
    encode::mk_peer_up_notification_msg(&h, "10.0.0.100".parse().unwrap(), 11019, 4567, 111, 222, 0, 0, vec![], false).to_vec()
}
/// `Display` of that per-peer header (`address/asn/{bgp id:02X?}`), as the focus key in the URL.
const PEER_KEY: &str = "10.0.0.1/AS65001/[01, 01, 01, 01]";

#[derive(Clone, Debug, PartialEq)]
struct InfoCase {
    initiated: bool,            // false: phase Initiating (no TLVs, no peer table)
    sys_name: Vec<u8>, sys_desc: Vec<u8>, extra: Vec<Vec<u8>>,
    errors: Vec<(Vec<u8>, bool)>, // message text, with pcap bytes or not
    peer: bool,
    focus: bool,
    by_name: bool,              // request /routers/<sysName> instead of /routers/<ingress id>
}

fn pct(b: &[u8]) -> String { b.iter().map(|x| format!("%{x:02X}")).collect() }

struct Rendered { status: Option<u16>, body: Vec<u8> }

fn render_info(rt: &tokio::runtime::Runtime, c: &InfoCase) -> Result<Rendered, String> {
    let mut msgs = vec![];
    if c.initiated { msgs.push(initiation(&c.sys_name, &c.sys_desc, &c.extra)); if c.peer { msgs.push(peer_up()); } }
    let errs = c.errors.iter().map(|(m, p)| (String::from_utf8_lossy(m).into_owned(), if *p { Some(vec![0u8, 1, 2]) } else { None }, true)).collect();
    let res = std::panic::catch_unwind(std::panic::AssertUnwindSafe(|| {
        let pages = Pages::new("/routers/", "192.0.2.7".parse().unwrap(), msgs, errs)?;
        let token = if c.by_name && c.initiated { pct(&c.sys_name) } else { pages.ingress_id.to_string() };
        let focus = if c.focus { format!("/flags/{}", PEER_KEY.replace(' ', "%20").replace('[', "%5B").replace(']', "%5D")) } else { String::new() };
        let uri = format!("/routers/{token}{focus}");
        Ok::<_, String>(rt.block_on(pages.router_info(&uri)))
    }));
    match res {
        Err(_) => Err("panic".into()),
        Ok(Err(e)) => Err(format!("rejected:{e}")),
        Ok(Ok(None)) => Ok(Rendered { status: None, body: vec![] }),
        Ok(Ok(Some((s, b)))) => Ok(Rendered { status: Some(s), body: b }),
    }
}
fn render_list(rt: &tokio::runtime::Runtime, initiated: bool, sys_name: &[u8], sys_desc: &[u8]) -> Result<Rendered, String> {
    let msgs = if initiated { vec![initiation(sys_name, sys_desc, &[])] } else { vec![] };
    let res = std::panic::catch_unwind(std::panic::AssertUnwindSafe(|| {
        let pages = Pages::new("/routers/", "192.0.2.7".parse().unwrap(), msgs, vec![])?;
        Ok::<_, String>(rt.block_on(pages.router_list("/routers/")))
    }));
    match res {
        Err(_) => Err("panic".into()),
        Ok(Err(e)) => Err(format!("rejected:{e}")),
        Ok(Ok(None)) => Ok(Rendered { status: None, body: vec![] }),
        Ok(Ok(Some((s, b)))) => Ok(Rendered { status: Some(s), body: b }),
    }
}

/// The bytes the page sees for the base path: `/routers/` + the decoded router token.
fn base_of(c: &InfoCase, id: u32) -> Vec<u8> {
    let mut b = b"/routers/".to_vec();
    if c.by_name && c.initiated { b.extend_from_slice(&c.sys_name); } else { b.extend_from_slice(id.to_string().as_bytes()); }
    b
}

fn info_case_line(c: &InfoCase) -> String {
    let (n, d, ex) = if c.initiated { (hex(&c.sys_name), hex(&c.sys_desc), join(c.extra.iter().map(|e| hex(e)), ";")) } else { ("-".into(), "-".into(), String::new()) };
    format!("info|{n}|{d}|{ex}|{}|{}|{}|{}", hex(&base_of(c, 2)),
        join(c.errors.iter().map(|(m, p)| format!("{}:{}", hex(m), if *p { "00" } else { "-" })), ","),
        if !c.initiated { "-".to_string() } else if c.peer { "1".into() } else { "0".into() },
        if c.focus && c.peer && c.initiated { 1 } else { 0 })
}
fn parse_info_case(line: &str) -> Option<InfoCase> {
    let p: Vec<&str> = line.split('|').collect();
    if p.len() != 8 || p[0] != "info" { return None; }
    let initiated = p[6] != "-";
    let sys_name = unhex(p[1]);
    let base = unhex(p[4]);
    Some(InfoCase {
        initiated, sys_name: sys_name.clone(), sys_desc: unhex(p[2]),
        extra: if p[3].is_empty() { vec![] } else { p[3].split(';').map(unhex).collect() },
        errors: if p[5].is_empty() { vec![] } else { p[5].split(',').map(|e| { let (m, pc) = e.split_once(':').unwrap(); (unhex(m), pc != "-") }).collect() },
        peer: p[6] == "1", focus: p[7] == "1",
        by_name: initiated && base == [b"/routers/".as_slice(), &sys_name].concat() && base != b"/routers/2",
    })
}

/// field under test -> the twin case with that field harmless
fn twin(c: &InfoCase, field: &str) -> InfoCase {
    let mut t = c.clone();
    let calm = |v: &Vec<u8>| -> Vec<u8> { v.iter().map(|b| if matches!(*b, b'<' | b'>' | b'"' | b'\'') { b'x' } else { *b }).collect() };
    match field {
        "sys_name" => t.sys_name = calm(&c.sys_name),
        "sys_desc" => t.sys_desc = calm(&c.sys_desc),
        "sys_extra" => t.extra = c.extra.iter().map(calm).collect(),
        "parse_error_msg" => t.errors = c.errors.iter().map(|(m, p)| (calm(m), *p)).collect(),
        "base_path" => t.by_name = false,
        _ => {}
    }
    t
}

fn info_case(rec: &mut Recorder, rt: &tokio::runtime::Runtime, c: &InfoCase, field: &str) -> bool {
    let r = render_info(rt, c);
    let (imp, oracle, hostile_hit) = match &r {
        Err(e) => (e.clone(), if e == "panic" { "fail panic:router-info page rendering panicked".to_string() } else { "ok".into() }, false),
        Ok(r) if r.status.is_none() => ("not-handled".into(), "ok".into(), false),
        Ok(r) => {
            let sk = skeleton(&r.body);
            let t = twin(c, field);
            let verdict = if t == *c { "ok".to_string() } else {
                match render_info(rt, &t) {
                    Ok(tr) if skeleton(&tr.body) == sk => "ok".into(),
                    Ok(_) => format!("fail html:unescaped:router-info:{field} the page's tag/quote skeleton changes with the content of {field}"),
                    Err(e) => format!("fail twin:{e}"),
                }
            };
            let hit = verdict != "ok";
            (sk, verdict, hit)
        }
    };
    rec.bump(&format!("info.field.{field}"));
    if !c.initiated { rec.bump("info.phase_initiating"); }
    if c.peer { rec.bump("info.with_peer_row"); }
    if c.focus { rec.bump("info.with_flags_block"); }
    let structural = |v: &Vec<u8>| v.iter().any(|b| matches!(*b, b'<' | b'>' | b'"' | b'\''));
    let nontrivial = c.initiated && (structural(&c.sys_name) || structural(&c.sys_desc) || c.extra.iter().any(structural) || c.errors.iter().any(|e| structural(&e.0)));
    rec.case(info_case_line(c), imp, oracle, nontrivial);
    hostile_hit
}

fn list_case(rec: &mut Recorder, rt: &tokio::runtime::Runtime, initiated: bool, n: &[u8], d: &[u8]) {
    let r = render_list(rt, initiated, n, d);
    let calm = |v: &[u8]| -> Vec<u8> { v.iter().map(|b| if matches!(*b, b'<' | b'>' | b'"' | b'\'') { b'x' } else { *b }).collect() };
    let (imp, oracle) = match &r {
        Err(e) => (e.clone(), if e == "panic" { "fail panic:router-list page rendering panicked".to_string() } else { "ok".into() }),
        Ok(r) if r.status.is_none() => ("not-handled".into(), "ok".into()),
        Ok(r) => {
            let sk = skeleton(&r.body);
            let verdict = match render_list(rt, initiated, &calm(n), &calm(d)) {
                Ok(tr) if skeleton(&tr.body) == sk => "ok".to_string(),
                Ok(_) => "fail html:unescaped:router-list:sys_name_or_desc the page's tag/quote skeleton changes with the content of sysName/sysDescr".to_string(),
                Err(e) => format!("fail twin:{e}"),
            };
            (sk, verdict)
        }
    };
    rec.bump("list.cases");
    let structural = |v: &[u8]| v.iter().any(|b| matches!(*b, b'<' | b'>' | b'"' | b'\''));
    let case = if initiated { format!("list|{}:{}", hex(n), hex(d)) } else { "list|-".into() };
    rec.case(case, imp, oracle, initiated && (structural(n) || structural(d)));
}

/// Prometheus exposition: must not depend on router-supplied strings at all (labels are ids), and every
/// sample line must have the shape `name{label="value",…} number` with quote-free label values.
fn metrics_case(rec: &mut Recorder, n: &[u8], d: &[u8], extra: &[Vec<u8>]) {
    let text = |n: &[u8], d: &[u8], ex: &[Vec<u8>]| -> Result<String, String> {
        std::panic::catch_unwind(std::panic::AssertUnwindSafe(|| {
            Pages::new("/routers/", "192.0.2.7".parse().unwrap(), vec![initiation(n, d, ex), peer_up()], vec![]).map(|p| p.metrics_text("bmp-in"))
        })).unwrap_or(Err("panic".into()))
    };
    let well_formed = |t: &str| t.lines().all(|l| {
        if l.is_empty() || l.starts_with('#') { return true; }
        let (head, val) = match l.rsplit_once(' ') { Some(x) => x, None => return false };
        if val.parse::<f64>().is_err() { return false; }
        match head.split_once('{') {
            None => head.chars().all(|c| c.is_ascii_alphanumeric() || c == '_' || c == ':'),
            Some((name, rest)) => name.chars().all(|c| c.is_ascii_alphanumeric() || c == '_' || c == ':') && rest.ends_with('}')
                && rest[..rest.len() - 1].split(',').all(|kv| match kv.split_once('=') { Some((k, v)) => k.chars().all(|c| c.is_ascii_alphanumeric() || c == '_') && v.len() >= 2 && v.starts_with('"') && v.ends_with('"') && !v[1..v.len() - 1].contains(['"', '\\', '\n']), None => false }),
        }
    });
    let (imp, oracle) = match (text(n, d, extra), text(b"calm", b"calm", &[])) {
        (Ok(a), Ok(b)) => {
            let same = a == b;
            let wf = well_formed(&a);
            (format!("same={same} wellformed={wf}"), if !same { "fail metrics:depends-on-router-text the Prometheus exposition changes with sysName/sysDescr/extra".to_string() } else if !wf { "fail metrics:malformed-line a sample line is not name{label=\"value\"} number".into() } else { "ok".into() })
        }
        (Err(e), _) | (_, Err(e)) => (e.clone(), if e == "panic" { "fail panic:metrics rendering panicked".into() } else { "ok".into() }),
    };
    rec.bump("metrics.cases");
    let structural = |v: &[u8]| v.iter().any(|b| matches!(*b, b'<' | b'>' | b'"' | b'\'' | b'\\' | b'\n'));
    rec.case(format!("metrics|{}|{}|{}", hex(n), hex(d), join(extra.iter().map(|e| hex(e)), ";")), imp, oracle, structural(n) || structural(d) || extra.iter().any(|e| structural(e)));
}

// ---------------------------------------------------------------- generator

const HOSTILE: &[&[u8]] = &[b"<script>alert(1)</script>", b"\"><img src=x onerror=alert(1)>", b"'", b"\"", b"<", b">", b"a<b>c", b"</pre></body>", b"x' onmouseover='y", b"&lt;", b"&", b"<!--", b"-->", b"\xff<\xfe>", b"\xc3(\"", b"<svg/onload=alert`1`>", b"line1\nline2<", b"tab\t\"q\""];
const CALM: &[&[u8]] = &[b"rtr1.example.net", b"Router OS 1.2.3", b"", b"a&b", b"x/y", b"caf\xc3\xa9", b"\xff\xfe", b"100%", b"a;b|c"];

fn pick(g: &mut Rng, hostile: bool, ascii: bool) -> Vec<u8> {
    let mut v: Vec<u8> = if hostile {
        if g.chance(2, 3) { g.pick(HOSTILE).to_vec() } else { (0..g.range(1, 90)).map(|_| *g.pick(&[b'<', b'>', b'"', b'\'', b'&', b'/', b'a', b'b', b' ', b';', 0xc3, 0xa9, 0xff])).collect() }
    } else if g.chance(2, 3) { g.pick(CALM).to_vec() } else { (0..g.range(0, 80)).map(|_| *g.pick(&[b'a', b'b', b'&', b'/', b' ', b';', b'-', b'.', 0xc3, 0xa9])).collect() };
    if ascii { v.retain(|b| *b < 128); }
    v
}

fn main() {
    let args = parse_args();
    let t0 = Instant::now();
    std::panic::set_hook(Box::new(|_| {}));
    let rt = tokio::runtime::Builder::new_current_thread().enable_all().build().unwrap();
    let mut rec = Recorder::new("router-info pages (real Initiation TLVs with arbitrary bytes -> real BmpState -> real RouterInfoApi::process_request; optional real Peer Up row, flags block, parse-error entries; exactly one field under test per case) and router-list pages (ASCII sysName/sysDescr up to 90 bytes, so the 61-byte slice is exercised); observation = skeleton of < > \" ' of the body; non-trivial = a router-supplied field of the case contains at least one of < > \" '; distinct = distinct case lines");

    if let Some(path) = &args.replay {
        for line in verif_harness::replay_cases(path) {
            if let Some(c) = parse_info_case(&line) {
                // judge every field that carries a structural character
                let s = |v: &Vec<u8>| v.iter().any(|b| matches!(*b, b'<' | b'>' | b'"' | b'\''));
                let field = if s(&c.sys_desc) { "sys_desc" } else if c.extra.iter().any(s) { "sys_extra" } else if c.errors.iter().any(|e| s(&e.0)) { "parse_error_msg" } else if c.by_name && c.peer { "base_path" } else { "sys_name" };
                info_case(&mut rec, &rt, &c, field);
            } else if let Some(rest) = line.strip_prefix("metrics|") {
                let p: Vec<&str> = rest.split('|').collect();
                if p.len() == 3 { metrics_case(&mut rec, &unhex(p[0]), &unhex(p[1]), &(if p[2].is_empty() { vec![] } else { p[2].split(';').map(unhex).collect() })); }
            } else if let Some(rest) = line.strip_prefix("list|") {
                if rest == "-" { list_case(&mut rec, &rt, false, &[], &[]); }
                else if let Some((n, d)) = rest.split_once(':') { list_case(&mut rec, &rt, true, &unhex(n), &unhex(d)); }
            }
        }
        rec.finish(&args, t0.elapsed().as_secs_f64());
        return;
    }

    // 0. witnesses first: one hostile string in each router-controlled field of the router-info page
    let base = InfoCase { initiated: true, sys_name: b"rtr1".to_vec(), sys_desc: b"desc".to_vec(), extra: vec![b"extra".to_vec()], errors: vec![(b"some error".to_vec(), true)], peer: true, focus: false, by_name: false };
    let h = b"<script>alert(1)</script>".to_vec();
    let mut any = false;
    any |= info_case(&mut rec, &rt, &InfoCase { sys_name: h.clone(), ..base.clone() }, "sys_name");
    any |= info_case(&mut rec, &rt, &InfoCase { sys_desc: h.clone(), ..base.clone() }, "sys_desc");
    any |= info_case(&mut rec, &rt, &InfoCase { extra: vec![h.clone()], ..base.clone() }, "sys_extra");
    any |= info_case(&mut rec, &rt, &InfoCase { errors: vec![(h.clone(), false)], ..base.clone() }, "parse_error_msg");
    any |= info_case(&mut rec, &rt, &InfoCase { sys_name: b"\"><i>".to_vec(), by_name: true, focus: true, ..base.clone() }, "base_path");
    rec.variant("router-info", if any { "as-written" } else { "escaped" });
    list_case(&mut rec, &rt, true, &h, &h);
    list_case(&mut rec, &rt, false, &[], &[]);
    metrics_case(&mut rec, b"x\"} 1\nfake_metric{a=\"b", &h, &[h.clone()]);

    let mut g = Rng::new(args.seed);
    let ninfo = if args.thorough { 400_000 } else { 30_000 };
    for _ in 0..ninfo {
        let field = *g.pick(&["sys_name", "sys_desc", "sys_extra", "parse_error_msg", "base_path", "none"]);
        let initiated = g.chance(9, 10);
        let mut c = InfoCase {
            initiated,
            sys_name: pick(&mut g, field == "sys_name" || field == "base_path", false),
            sys_desc: pick(&mut g, field == "sys_desc", false),
            extra: (0..g.below(3)).map(|_| pick(&mut g, field == "sys_extra", false)).collect(),
            errors: (0..g.below(3)).map(|_| (pick(&mut g, field == "parse_error_msg", false), g.chance(1, 2))).collect(),
            peer: g.chance(1, 2), focus: g.chance(1, 2), by_name: field == "base_path" || g.chance(1, 5),
        };
        if c.sys_name.is_empty() { c.by_name = false; }
        if field == "sys_extra" && c.extra.is_empty() { c.extra.push(pick(&mut g, true, false)); }
        if field == "parse_error_msg" && c.errors.is_empty() { c.errors.push((pick(&mut g, true, false), false)); }
        // a token containing "/flags/" or "/prefixes/" would be split by the request handler: keep those out of the name
        if c.by_name && (c.sys_name.windows(7).any(|w| w == b"/flags/") || c.sys_name.windows(10).any(|w| w == b"/prefixes/")) { c.by_name = false; }
        info_case(&mut rec, &rt, &c, field);
    }
    let nmet = if args.thorough { 20_000 } else { 1_000 };
    for _ in 0..nmet {
        let (hn, hd) = (g.chance(2, 3), g.chance(2, 3));
        let n = pick(&mut g, hn, false);
        let d = pick(&mut g, hd, false);
        let ex: Vec<Vec<u8>> = (0..g.below(3)).map(|_| pick(&mut g, true, false)).collect();
        metrics_case(&mut rec, &n, &d, &ex);
    }
    let nlist = if args.thorough { 150_000 } else { 10_000 };
    for _ in 0..nlist {
        let initiated = g.chance(9, 10);
        let (hn, hd) = (g.chance(2, 3), g.chance(2, 3));
        let n = pick(&mut g, hn, true);
        let d = pick(&mut g, hd, true);
        list_case(&mut rec, &rt, initiated, &n, &d);
    }
    rec.finish(&args, t0.elapsed().as_secs_f64());
}
