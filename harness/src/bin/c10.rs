//! C10 engine: generated roto filter programs, compiled by the real runtime
//! (`create_runtime` + roto's compiler, exactly as `Manager::compile_roto_script`
//! does) and executed (a) as bare compiled functions on generated inputs and
//! (b) inside the three real verdict handlers (bgp-in `Processor::process`,
//! bmp-in `RouterHandler::process_msg`, rib-in-pre `RibUnitRunner::process_update`),
//! versus the Lean model `Model/Roto.lean`.
//!
//! Case lines (the exact input of the Lean driver `rmodel-roto`):
//!   F|<unit>|<program>|<input>            one call of the compiled function
//!   H|bgp|<program or ->|<input> nf=..    one UPDATE through a fresh Processor
//!   H|bmp|<program or ->|<msg>;<msg>;..   one BMP session, message by message
//!   H|rib|<program or ->|<update>         one Bulk through a fresh RIB unit
//! Oracle (no Lean): a Rust reference evaluator of the *documented* predicate
//! meaning, and the property's clauses judged on what the real handlers did.
use std::net::{IpAddr, Ipv4Addr};
use std::sync::Arc;
use std::time::Instant;

use bytes::Bytes;
use inetnum::addr::Prefix;
use inetnum::asn::Asn;
use rotonda::bgp::encode::{
    mk_initiation_msg, mk_peer_down_notification_msg, mk_peer_up_notification_msg,
    mk_raw_route_monitoring_msg, mk_statistics_report_msg, mk_termination_msg, PerPeerHeader,
};
use rotonda::payload::{Payload, RotondaRoute, Update};
use rotonda::roto_runtime::types::{
    FreshRouteContext, Output, OutputStreamMessage, PeerRibType, Provenance, RotoOutputStream,
};
use rotonda::roto_runtime::{create_runtime, Ctx};
use rotonda::verif::roto as vr;
use rotonda_store::prelude::multi::RouteStatus;
use rotonda_store::{MatchOptions, MatchType};
use routecore::bgp::message::{SessionConfig, UpdateMessage};
use routecore::bmp::message::{Message as BmpMsg, PeerType};
use verif_harness::{join, parse_args, rng::Rng, Recorder};

// ===================================================================== syntax

#[derive(Clone, Copy, Debug, PartialEq, Eq, Hash)]
struct P { addr: u32, len: u8 }
impl P {
    fn show(&self) -> String { format!("4.{}/{}", self.addr, self.len) }
    fn roto(&self) -> String { format!("{}/{}", Ipv4Addr::from(self.addr), self.len) }
    fn prefix(&self) -> Prefix { Prefix::new(IpAddr::V4(Ipv4Addr::from(self.addr)), self.len).unwrap() }
    fn parse(s: &str) -> P {
        let s = s.strip_prefix("4.").unwrap();
        let (a, l) = s.split_once('/').unwrap();
        P { addr: a.parse().unwrap(), len: l.parse().unwrap() }
    }
}

#[derive(Clone, Debug, PartialEq)]
enum Const { Asn(u32), Comm(u32), Pfx(P), U8(u8) }
#[derive(Clone, Debug, PartialEq)]
enum Arg { Lit(Const), Var(usize) }
#[derive(Clone, Debug, PartialEq)]
enum Pred { AspathContains(Arg), OriginIs(Arg), HasComm(Arg), HasAttr(Arg), PeerAsnIs(Arg), IsIbgp(Arg), IsRouteMon, IsPeerDown, PrefixIs(Arg) }
#[derive(Clone, Debug, PartialEq)]
enum Cond { T, F, Pred(Pred), Not(Box<Cond>), And(Box<Cond>, Box<Cond>), Or(Box<Cond>, Box<Cond>) }
#[derive(Clone, Debug, PartialEq)]
enum OutCall { LogPrefix(Arg), LogAsn(Arg), LogOrigin(Arg), LogComm(Arg), LogPeerDown, LogCustom(u32, u32), WriteEntry }
#[derive(Clone, Debug, PartialEq)]
enum Prog { Ret(bool), Fall, Out(OutCall, Box<Prog>), Ite(Cond, Box<Prog>, Box<Prog>), Blk(Box<Prog>, Box<Prog>) }
#[derive(Clone, Debug, PartialEq)]
struct Program { lets: Vec<Const>, body: Prog }

#[derive(Clone, Copy, Debug, PartialEq, Eq)]
enum Unit { Bgp, Bmp, Rib }
impl Unit {
    fn name(self) -> &'static str { match self { Unit::Bgp => "bgp", Unit::Bmp => "bmp", Unit::Rib => "rib" } }
    fn parse(s: &str) -> Unit { match s { "bgp" => Unit::Bgp, "bmp" => Unit::Bmp, _ => Unit::Rib } }
}

const WELLKNOWN: [(u32, &str); 4] = [(0xFFFFFF01, "NO_EXPORT"), (0xFFFFFF02, "NO_ADVERTISE"), (0xFFFFFF03, "NO_EXPORT_SUBCONFED"), (0xFFFFFF04, "NO_PEER")];

// ---- tokens (the Lean driver parses exactly this)
impl Const {
    fn tok(&self) -> String { match self { Const::Asn(n) => format!("a{n}"), Const::Comm(n) => format!("c{n}"), Const::Pfx(p) => format!("p{}", p.show()), Const::U8(n) => format!("u{n}") } }
    fn parse(s: &str) -> Const {
        let (k, r) = s.split_at(1);
        match k { "a" => Const::Asn(r.parse().unwrap()), "c" => Const::Comm(r.parse().unwrap()), "p" => Const::Pfx(P::parse(r)), _ => Const::U8(r.parse().unwrap()) }
    }
    /// roto source text; well-known communities by their registered constant name
    fn roto(&self) -> String {
        match self {
            Const::Asn(n) => format!("AS{n}"),
            Const::Comm(n) => WELLKNOWN.iter().find(|w| w.0 == *n).map(|w| w.1.to_string()).unwrap_or_else(|| format!("Community(0x{n:08x})")),
            Const::Pfx(p) => p.roto(),
            Const::U8(n) => format!("{n}"),
        }
    }
}
impl Arg {
    fn tok(&self) -> String { match self { Arg::Lit(c) => format!("l{}", c.tok()), Arg::Var(i) => format!("v{i}") } }
    fn parse(s: &str) -> Arg { if let Some(r) = s.strip_prefix('l') { Arg::Lit(Const::parse(r)) } else { Arg::Var(s[1..].parse().unwrap()) } }
    fn roto(&self) -> String { match self { Arg::Lit(c) => c.roto(), Arg::Var(i) => format!("k{i}") } }
    fn get<'a>(&'a self, env: &'a [Const]) -> &'a Const { match self { Arg::Lit(c) => c, Arg::Var(i) => &env[*i] } }
}
impl Pred {
    fn toks(&self, o: &mut Vec<String>) {
        match self {
            Pred::AspathContains(a) => { o.push("ac".into()); o.push(a.tok()) }
            Pred::OriginIs(a) => { o.push("or".into()); o.push(a.tok()) }
            Pred::HasComm(a) => { o.push("hc".into()); o.push(a.tok()) }
            Pred::HasAttr(a) => { o.push("ha".into()); o.push(a.tok()) }
            Pred::PeerAsnIs(a) => { o.push("pa".into()); o.push(a.tok()) }
            Pred::IsIbgp(a) => { o.push("ib".into()); o.push(a.tok()) }
            Pred::IsRouteMon => o.push("rm".into()),
            Pred::IsPeerDown => o.push("pd".into()),
            Pred::PrefixIs(a) => { o.push("px".into()); o.push(a.tok()) }
        }
    }
    fn roto(&self, u: Unit) -> String {
        let m = match u { Unit::Rib => "route", _ => "msg" };
        match self {
            Pred::AspathContains(a) => format!("{m}.aspath_contains({})", a.roto()),
            Pred::OriginIs(a) => format!("{m}.match_aspath_origin({})", a.roto()),
            Pred::HasComm(a) => format!("{m}.contains_community({})", a.roto()),
            Pred::HasAttr(a) => format!("{m}.has_attribute({})", a.roto()),
            Pred::PeerAsnIs(a) => format!("prov.peer_asn() == {}", a.roto()),
            Pred::IsIbgp(a) => format!("{m}.is_ibgp({})", a.roto()),
            Pred::IsRouteMon => format!("{m}.is_route_monitoring()"),
            Pred::IsPeerDown => format!("{m}.is_peer_down()"),
            Pred::PrefixIs(a) => format!("{m}.prefix_matches({})", a.roto()),
        }
    }
}
impl Cond {
    fn toks(&self, o: &mut Vec<String>) {
        match self {
            Cond::T => o.push("t".into()), Cond::F => o.push("f".into()),
            Cond::Pred(p) => { o.push("p".into()); p.toks(o) }
            Cond::Not(c) => { o.push("~".into()); c.toks(o) }
            Cond::And(a, b) => { o.push("*".into()); a.toks(o); b.toks(o) }
            Cond::Or(a, b) => { o.push("+".into()); a.toks(o); b.toks(o) }
        }
    }
    fn roto(&self, u: Unit) -> String {
        match self {
            Cond::T => "true".into(), Cond::F => "false".into(),
            Cond::Pred(p) => format!("({})", p.roto(u)),
            Cond::Not(c) => format!("(not {})", c.roto(u)),
            Cond::And(a, b) => format!("({} && {})", a.roto(u), b.roto(u)),
            Cond::Or(a, b) => format!("({} || {})", a.roto(u), b.roto(u)),
        }
    }
}
impl OutCall {
    fn toks(&self, o: &mut Vec<String>) {
        match self {
            OutCall::LogPrefix(a) => { o.push("lp".into()); o.push(a.tok()) }
            OutCall::LogAsn(a) => { o.push("la".into()); o.push(a.tok()) }
            OutCall::LogOrigin(a) => { o.push("lo".into()); o.push(a.tok()) }
            OutCall::LogComm(a) => { o.push("lc".into()); o.push(a.tok()) }
            OutCall::LogPeerDown => o.push("pd".into()),
            OutCall::LogCustom(i, v) => { o.push("cu".into()); o.push(i.to_string()); o.push(v.to_string()) }
            OutCall::WriteEntry => o.push("we".into()),
        }
    }
    fn roto(&self) -> String {
        match self {
            OutCall::LogPrefix(a) => format!("output.log_prefix({});", a.roto()),
            OutCall::LogAsn(a) => format!("output.log_matched_asn({});", a.roto()),
            OutCall::LogOrigin(a) => format!("output.log_matched_origin({});", a.roto()),
            OutCall::LogComm(a) => format!("output.log_matched_community({});", a.roto()),
            OutCall::LogPeerDown => "output.log_peer_down();".into(),
            OutCall::LogCustom(i, v) => format!("output.log_custom({i}, {v});"),
            OutCall::WriteEntry => "output.write_entry();".into(),
        }
    }
}
impl Prog {
    fn toks(&self, o: &mut Vec<String>) {
        match self {
            Prog::Ret(true) => o.push("A".into()), Prog::Ret(false) => o.push("R".into()), Prog::Fall => o.push("F".into()),
            Prog::Out(c, k) => { o.push("O".into()); c.toks(o); k.toks(o) }
            Prog::Ite(c, t, e) => { o.push("I".into()); c.toks(o); t.toks(o); e.toks(o) }
            Prog::Blk(b, k) => { o.push("B".into()); b.toks(o); k.toks(o) }
        }
    }
    fn roto(&self, u: Unit, ind: usize, o: &mut String) {
        let pad = "  ".repeat(ind);
        match self {
            Prog::Ret(true) => { o.push_str(&pad); o.push_str("accept\n") }
            Prog::Ret(false) => { o.push_str(&pad); o.push_str("reject\n") }
            Prog::Fall => {}
            Prog::Out(c, k) => { o.push_str(&pad); o.push_str(&c.roto()); o.push('\n'); k.roto(u, ind, o) }
            Prog::Ite(c, t, e) => {
                o.push_str(&format!("{pad}if {} {{\n", c.roto(u)));
                t.roto(u, ind + 1, o);
                if **e == Prog::Fall { o.push_str(&format!("{pad}}}\n")); } else {
                    o.push_str(&format!("{pad}}} else {{\n"));
                    e.roto(u, ind + 1, o);
                    o.push_str(&format!("{pad}}}\n"));
                }
            }
            Prog::Blk(b, k) => { b.roto(u, ind, o); k.roto(u, ind, o) }
        }
    }
    fn closed(&self) -> bool {
        match self { Prog::Ret(_) => true, Prog::Fall => false, Prog::Out(_, k) => k.closed(), Prog::Ite(_, t, e) => t.closed() && e.closed(), Prog::Blk(b, k) => b.closed() || k.closed() }
    }
}
impl Program {
    fn tok(&self) -> String {
        let mut o = vec![format!("L{}", self.lets.len())];
        for c in &self.lets { o.push(c.tok()); }
        self.body.toks(&mut o);
        o.join(" ")
    }
    fn roto(&self, u: Unit) -> String {
        let mut s = match u {
            Unit::Bgp => "filter bgp-in(msg: BgpMsg, prov: Provenance) {\n".to_string(),
            Unit::Bmp => "filter bmp-in(msg: BmpMsg, prov: Provenance) {\n".to_string(),
            Unit::Rib => "filter rib-in-pre(route: Route) {\n".to_string(),
        };
        for (i, c) in self.lets.iter().enumerate() { s.push_str(&format!("  let k{i} = {};\n", c.roto())); }
        self.body.roto(u, 1, &mut s);
        s.push_str("}\n");
        s
    }
    fn parse(s: &str) -> Program {
        let t: Vec<&str> = s.split_whitespace().collect();
        let mut i = 0;
        let n: usize = t[0][1..].parse().unwrap();
        i += 1;
        let lets = (0..n).map(|_| { i += 1; Const::parse(t[i - 1]) }).collect();
        let body = parse_prog(&t, &mut i);
        Program { lets, body }
    }
}
fn parse_pred(t: &[&str], i: &mut usize) -> Pred {
    let k = t[*i]; *i += 1;
    let mut arg = || { *i += 1; Arg::parse(t[*i - 1]) };
    match k { "ac" => Pred::AspathContains(arg()), "or" => Pred::OriginIs(arg()), "hc" => Pred::HasComm(arg()), "ha" => Pred::HasAttr(arg()), "pa" => Pred::PeerAsnIs(arg()), "ib" => Pred::IsIbgp(arg()), "rm" => Pred::IsRouteMon, "pd" => Pred::IsPeerDown, _ => Pred::PrefixIs(arg()) }
}
fn parse_cond(t: &[&str], i: &mut usize) -> Cond {
    let k = t[*i]; *i += 1;
    match k {
        "t" => Cond::T, "f" => Cond::F, "p" => Cond::Pred(parse_pred(t, i)),
        "~" => Cond::Not(Box::new(parse_cond(t, i))),
        "*" => { let a = parse_cond(t, i); let b = parse_cond(t, i); Cond::And(Box::new(a), Box::new(b)) }
        _ => { let a = parse_cond(t, i); let b = parse_cond(t, i); Cond::Or(Box::new(a), Box::new(b)) }
    }
}
fn parse_out(t: &[&str], i: &mut usize) -> OutCall {
    let k = t[*i]; *i += 1;
    let mut arg = || { *i += 1; Arg::parse(t[*i - 1]) };
    match k {
        "lp" => OutCall::LogPrefix(arg()), "la" => OutCall::LogAsn(arg()), "lo" => OutCall::LogOrigin(arg()), "lc" => OutCall::LogComm(arg()),
        "pd" => OutCall::LogPeerDown, "we" => OutCall::WriteEntry,
        _ => { *i += 2; OutCall::LogCustom(t[*i - 2].parse().unwrap(), t[*i - 1].parse().unwrap()) }
    }
}
fn parse_prog(t: &[&str], i: &mut usize) -> Prog {
    let k = t[*i]; *i += 1;
    match k {
        "A" => Prog::Ret(true), "R" => Prog::Ret(false), "F" => Prog::Fall,
        "O" => { let c = parse_out(t, i); let k = parse_prog(t, i); Prog::Out(c, Box::new(k)) }
        "I" => { let c = parse_cond(t, i); let a = parse_prog(t, i); let b = parse_prog(t, i); Prog::Ite(c, Box::new(a), Box::new(b)) }
        _ => { let a = parse_prog(t, i); let b = parse_prog(t, i); Prog::Blk(Box::new(a), Box::new(b)) }
    }
}

// ===================================================================== inputs

#[derive(Clone, Debug, PartialEq)]
enum Hop { Asn(u32), Set(Vec<u32>) }
#[derive(Clone, Debug, PartialEq, Default)]
struct Upd { aspath: Option<Vec<Hop>>, comms: Vec<u32>, extra: Vec<u8>, nlri: Vec<P>, wd: Vec<P> }

fn dots<T: std::fmt::Display>(xs: impl IntoIterator<Item = T>) -> String { let s = join(xs, "."); if s.is_empty() { "-".into() } else { s } }
fn undots(s: &str) -> Vec<&str> { if s == "-" { vec![] } else { s.split('.').collect() } }

impl Upd {
    fn has_attrs(&self) -> bool { !self.nlri.is_empty() || self.aspath.is_some() || !self.comms.is_empty() || !self.extra.is_empty() }
    /// type codes the encoder writes, in order
    fn codes(&self) -> Vec<u8> {
        let mut c = vec![];
        if self.has_attrs() { c.push(1); }
        if self.aspath.is_some() { c.push(2); }
        if !self.nlri.is_empty() { c.push(3); }
        for x in [4u8, 5] { if self.extra.contains(&x) { c.push(x); } }
        if !self.comms.is_empty() { c.push(8); }
        for x in [32u8, 35] { if self.extra.contains(&x) { c.push(x); } }
        c
    }
    fn tok(&self) -> String {
        let h = match &self.aspath {
            None => "~".to_string(),
            Some(h) => dots(h.iter().map(|x| match x { Hop::Asn(a) => a.to_string(), Hop::Set(s) => format!("s{}", join(s.iter(), ":")) })),
        };
        let ps = |v: &Vec<P>| { let s = join(v.iter().map(|p| p.show()), ","); if s.is_empty() { "-".to_string() } else { s } };
        format!("h={} c={} t={} x={} n={} w={}", h, dots(self.comms.iter()), dots(self.codes().iter()), dots(self.extra.iter()), ps(&self.nlri), ps(&self.wd))
    }
    fn parse(kv: &std::collections::HashMap<&str, &str>) -> Upd {
        let aspath = match kv["h"] { "~" => None, h => Some(undots(h).iter().map(|x| if let Some(r) = x.strip_prefix('s') { Hop::Set(r.split(':').map(|y| y.parse().unwrap()).collect()) } else { Hop::Asn(x.parse().unwrap()) }).collect()) };
        let ps = |s: &str| -> Vec<P> { if s == "-" { vec![] } else { s.split(',').map(P::parse).collect() } };
        Upd { aspath, comms: undots(kv["c"]).iter().map(|x| x.parse().unwrap()).collect(), extra: undots(kv["x"]).iter().map(|x| x.parse().unwrap()).collect(), nlri: ps(kv["n"]), wd: ps(kv["w"]) }
    }
    fn encode(&self, four: bool) -> Bytes {
        fn pfx(buf: &mut Vec<u8>, p: &P) { buf.push(p.len); let n = (p.len as usize + 7) / 8; buf.extend_from_slice(&p.addr.to_be_bytes()[..n]); }
        fn attr(buf: &mut Vec<u8>, flags: u8, code: u8, val: &[u8]) { buf.push(flags); buf.push(code); buf.push(val.len() as u8); buf.extend_from_slice(val); }
        let mut wd = vec![]; for p in &self.wd { pfx(&mut wd, p); }
        let mut at = vec![];
        if self.has_attrs() { attr(&mut at, 0x40, 1, &[0]); }
        if let Some(h) = &self.aspath {
            let mut v = vec![];
            let put = |v: &mut Vec<u8>, a: u32| if four { v.extend_from_slice(&a.to_be_bytes()) } else { v.extend_from_slice(&(a as u16).to_be_bytes()) };
            let mut i = 0;
            while i < h.len() {
                match &h[i] {
                    Hop::Set(s) => { v.push(1); v.push(s.len() as u8); for a in s { put(&mut v, *a); } i += 1; }
                    Hop::Asn(_) => {
                        let mut j = i; while j < h.len() && matches!(h[j], Hop::Asn(_)) { j += 1; }
                        v.push(2); v.push((j - i) as u8);
                        for x in &h[i..j] { if let Hop::Asn(a) = x { put(&mut v, *a); } }
                        i = j;
                    }
                }
            }
            attr(&mut at, 0x40, 2, &v);
        }
        if !self.nlri.is_empty() { attr(&mut at, 0x40, 3, &[10, 0, 0, 1]); }
        if self.extra.contains(&4) { attr(&mut at, 0x80, 4, &[0, 0, 0, 5]); }
        if self.extra.contains(&5) { attr(&mut at, 0x40, 5, &[0, 0, 0, 100]); }
        if !self.comms.is_empty() { let mut v = vec![]; for c in &self.comms { v.extend_from_slice(&c.to_be_bytes()); } attr(&mut at, 0xC0, 8, &v); }
        if self.extra.contains(&32) { attr(&mut at, 0xC0, 32, &[0, 0, 0xfd, 0xe8, 0, 0, 0, 1, 0, 0, 0, 2]); }
        if self.extra.contains(&35) { attr(&mut at, 0xC0, 35, &[0, 0, 0xfd, 0xe8]); }
        let mut nl = vec![]; for p in &self.nlri { pfx(&mut nl, p); }
        let mut b = vec![0xFFu8; 16];
        let total = 19 + 2 + wd.len() + 2 + at.len() + nl.len();
        b.extend_from_slice(&(total as u16).to_be_bytes()); b.push(2);
        b.extend_from_slice(&(wd.len() as u16).to_be_bytes()); b.extend_from_slice(&wd);
        b.extend_from_slice(&(at.len() as u16).to_be_bytes()); b.extend_from_slice(&at);
        b.extend_from_slice(&nl);
        Bytes::from(b)
    }
}

#[derive(Clone, Debug, PartialEq)]
struct BgpIn { upd: Upd, asn: u32 }
#[derive(Clone, Copy, Debug, PartialEq, Eq)]
enum Kind { Init, PeerUp, PeerDown, RouteMon, Stats, Term }
impl Kind {
    fn name(self) -> &'static str { match self { Kind::Init => "init", Kind::PeerUp => "pu", Kind::PeerDown => "pd", Kind::RouteMon => "rm", Kind::Stats => "st", Kind::Term => "tm" } }
    fn parse(s: &str) -> Kind { match s { "init" => Kind::Init, "pu" => Kind::PeerUp, "pd" => Kind::PeerDown, "rm" => Kind::RouteMon, "st" => Kind::Stats, _ => Kind::Term } }
    fn has_pph(self) -> bool { !matches!(self, Kind::Init | Kind::Term) }
}
#[derive(Clone, Debug, PartialEq)]
struct BmpIn { kind: Kind, pph_asn: u32, legacy: bool, upd: Upd, prov_asn: u32 }
#[derive(Clone, Debug, PartialEq)]
struct RibIn { upd: Upd, idx: usize }

fn kvs(s: &str) -> std::collections::HashMap<&str, &str> { s.split_whitespace().filter_map(|t| t.split_once('=')).collect() }

impl BgpIn {
    fn tok(&self) -> String { format!("asn={} {}", self.asn, self.upd.tok()) }
    fn parse(s: &str) -> BgpIn { let kv = kvs(s); BgpIn { asn: kv["asn"].parse().unwrap(), upd: Upd::parse(&kv) } }
    fn msg(&self) -> Option<UpdateMessage<Bytes>> { UpdateMessage::from_octets(self.upd.encode(true), &SessionConfig::modern()).ok() }
    fn prov(&self) -> Provenance { Provenance::for_bgp(7, "10.0.0.1".parse().unwrap(), Asn::from_u32(self.asn)) }
}
impl BmpIn {
    fn tok(&self) -> String {
        format!("k={} pa={} lg={} prov={} {}", self.kind.name(), if self.kind.has_pph() { self.pph_asn.to_string() } else { "-".into() }, self.legacy as u8, self.prov_asn, self.upd.tok())
    }
    fn parse(s: &str) -> BmpIn {
        let kv = kvs(s);
        BmpIn { kind: Kind::parse(kv["k"]), pph_asn: kv["pa"].parse().unwrap_or(0), legacy: kv["lg"] == "1", prov_asn: kv["prov"].parse().unwrap(), upd: Upd::parse(&kv) }
    }
    fn pph(&self) -> PerPeerHeader {
        PerPeerHeader { peer_type: PeerType::GlobalInstance.into(), peer_flags: if self.legacy { 0x20 } else { 0 }, peer_distinguisher: [0; 8], peer_address: "10.0.0.9".parse().unwrap(), peer_as: Asn::from_u32(self.pph_asn), peer_bgp_id: [1, 2, 3, 4] }
    }
    fn bytes(&self) -> Bytes {
        let pph = self.pph();
        match self.kind {
            Kind::Init => mk_initiation_msg("sysname", "sysdescr"),
            Kind::PeerUp => mk_peer_up_notification_msg(&pph, "10.0.0.2".parse().unwrap(), 11019, 4567, 111, 222, 0, 0, vec![], false),
            Kind::PeerDown => mk_peer_down_notification_msg(&pph),
            Kind::RouteMon => mk_raw_route_monitoring_msg(&pph, self.upd.encode(!self.legacy)),
            Kind::Stats => mk_statistics_report_msg(&pph),
            Kind::Term => mk_termination_msg(),
        }
    }
    fn msg(&self) -> Option<BmpMsg<Bytes>> { BmpMsg::from_octets(self.bytes()).ok() }
    fn prov(&self) -> Provenance {
        Provenance::for_bmp(7, "10.0.0.9".parse().unwrap(), Asn::from_u32(self.prov_asn), "10.0.0.5".parse().unwrap(), [0; 9], PeerRibType::InPre)
    }
}
impl RibIn {
    fn tok(&self) -> String { format!("i={} {}", self.idx, self.upd.tok()) }
    fn parse(s: &str) -> RibIn { let kv = kvs(s); RibIn { idx: kv["i"].parse().unwrap(), upd: Upd::parse(&kv) } }
}

/// the routes of an UPDATE as the real `explode_announcements/_withdrawals` produce them
fn explode(u: &Upd) -> Option<(UpdateMessage<Bytes>, Vec<RotondaRoute>, Vec<RotondaRoute>)> {
    let m = UpdateMessage::from_octets(u.encode(true), &SessionConfig::modern()).ok()?;
    let (a, w) = vr::explode(&m).ok()?;
    Some((m, a, w))
}

// ============================================================== reference spec

/// What the predicates are documented to see (independent of the Lean model).
struct SpecView<'a> { upd: Option<&'a Upd>, pfx: Option<P>, peer_asn: u32, pph_asn: Option<u32>, is_rm: bool, is_pd: bool }

fn spec_pred(p: &Pred, env: &[Const], v: &SpecView) -> bool {
    let asn = |a: &Arg| if let Const::Asn(n) = a.get(env) { Some(*n) } else { None };
    match p {
        Pred::AspathContains(a) => match (asn(a), v.upd.and_then(|u| u.aspath.as_ref())) { (Some(n), Some(h)) => h.iter().any(|x| *x == Hop::Asn(n)), _ => false },
        Pred::OriginIs(a) => match (asn(a), v.upd.and_then(|u| u.aspath.as_ref())) { (Some(n), Some(h)) => h.last() == Some(&Hop::Asn(n)), _ => false },
        Pred::HasComm(a) => match (a.get(env), v.upd) { (Const::Comm(c), Some(u)) => u.comms.contains(c), _ => false },
        Pred::HasAttr(a) => match (a.get(env), v.upd) { (Const::U8(t), Some(u)) => u.codes().contains(t), _ => false },
        Pred::PeerAsnIs(a) => asn(a) == Some(v.peer_asn),
        Pred::IsIbgp(a) => v.pph_asn.is_some() && asn(a) == v.pph_asn,
        Pred::IsRouteMon => v.is_rm,
        Pred::IsPeerDown => v.is_pd,
        Pred::PrefixIs(a) => match (a.get(env), v.pfx) { (Const::Pfx(q), Some(r)) => *q == r, _ => false },
    }
}
fn spec_cond(c: &Cond, env: &[Const], v: &SpecView) -> bool {
    match c { Cond::T => true, Cond::F => false, Cond::Pred(p) => spec_pred(p, env, v), Cond::Not(c) => !spec_cond(c, env, v), Cond::And(a, b) => spec_cond(a, env, v) && spec_cond(b, env, v), Cond::Or(a, b) => spec_cond(a, env, v) || spec_cond(b, env, v) }
}
fn spec_out(o: &OutCall, env: &[Const]) -> String {
    match o {
        OutCall::LogPrefix(a) => if let Const::Pfx(p) = a.get(env) { format!("pfx:{}", p.show()) } else { "?".into() },
        OutCall::LogAsn(a) => if let Const::Asn(n) = a.get(env) { format!("asn:{n}") } else { "?".into() },
        OutCall::LogOrigin(a) => if let Const::Asn(n) = a.get(env) { format!("org:{n}") } else { "?".into() },
        OutCall::LogComm(a) => if let Const::Comm(n) = a.get(env) { format!("com:{n}") } else { "?".into() },
        OutCall::LogPeerDown => "pd".into(),
        OutCall::LogCustom(i, v) => format!("cus:{i}:{v}"),
        OutCall::WriteEntry => "ent".into(),
    }
}
fn spec_exec(p: &Prog, env: &[Const], v: &SpecView, outs: &mut Vec<String>) -> Option<bool> {
    match p {
        Prog::Ret(x) => Some(*x), Prog::Fall => None,
        Prog::Out(o, k) => { outs.push(spec_out(o, env)); spec_exec(k, env, v, outs) }
        Prog::Ite(c, t, e) => if spec_cond(c, env, v) { spec_exec(t, env, v, outs) } else { spec_exec(e, env, v, outs) },
        Prog::Blk(b, k) => match spec_exec(b, env, v, outs) { Some(x) => Some(x), None => spec_exec(k, env, v, outs) },
    }
}
fn spec_run(p: &Program, v: &SpecView) -> (bool, Vec<String>) { let mut o = vec![]; let r = spec_exec(&p.body, &p.lets, v, &mut o); (r.unwrap_or(true), o) }

// ================================================================ real runtime

type BgpFunc = vr::bgp::BgpInFunc;
type BmpFunc = vr::bmp::BmpInFunc;
type RibFunc = vr::rib::RibInPreFunc;

fn compile(src: &str) -> Result<roto::Compiled, String> {
    let src2 = src.to_string();
    match std::panic::catch_unwind(move || roto::test_file("gen.roto", &src2, 0).compile(create_runtime().unwrap(), usize::BITS / 8).map_err(|e| e.to_string())) {
        Ok(r) => r,
        Err(_) => Err("compiler-panic".into()),
    }
}

fn show_output(o: &Output) -> String {
    match o {
        Output::Prefix(p) => match p.addr() { IpAddr::V4(a) => format!("pfx:4.{}/{}", u32::from(a), p.len()), IpAddr::V6(a) => format!("pfx:6.{}/{}", u128::from(a), p.len()) },
        Output::Asn(a) => format!("asn:{}", a.into_u32()),
        Output::Origin(a) => format!("org:{}", a.into_u32()),
        Output::Community(c) => format!("com:{c}"),
        Output::PeerDown => "pd".into(),
        Output::Custom((i, v)) => format!("cus:{i}:{v}"),
        Output::Entry(_) => "ent".into(),
    }
}
fn show_obs(v: bool, outs: &[String]) -> String { format!("{} {}", if v { "A" } else { "R" }, if outs.is_empty() { "-".to_string() } else { outs.join(",") }) }

fn call_bgp(f: &BgpFunc, m: &UpdateMessage<Bytes>, prov: Provenance) -> (bool, Vec<String>) {
    let mut os = RotoOutputStream::new();
    let mut ctx = Ctx::new(&mut os);
    let v = f.call(&mut ctx, roto::Val(m.clone()), roto::Val(prov));
    (matches!(v, roto::Verdict::Accept(_)), os.drain().map(|o| show_output(&o)).collect())
}
fn call_bmp(f: &BmpFunc, m: &BmpMsg<Bytes>, prov: Provenance) -> (bool, Vec<String>) {
    let mut os = RotoOutputStream::new();
    let mut ctx = Ctx::new(&mut os);
    let v = f.call(&mut ctx, roto::Val(m.clone()), roto::Val(prov));
    (matches!(v, roto::Verdict::Accept(_)), os.drain().map(|o| show_output(&o)).collect())
}
fn call_rib(f: &RibFunc, r: &RotondaRoute) -> (bool, Vec<String>) {
    let mut os = RotoOutputStream::new();
    let mut ctx = Ctx::new(&mut os);
    let v = f.call(&mut ctx, roto::Val(r.clone()));
    (matches!(v, roto::Verdict::Accept(_)), os.drain().map(|o| show_output(&o)).collect())
}

// canonical rendering of what reaches the gate
fn show_osm(m: &OutputStreamMessage) -> String {
    let rec = serde_json::to_value(m.get_record()).unwrap_or(serde_json::Value::Null);
    match m.get_topic().as_str() {
        "custom" => format!("custom:{}:{}", rec["id"], rec["value"]),
        t => t.to_string(),
    }
}
fn show_update(u: &Update) -> String {
    match u {
        Update::Single(_) => "single".into(),
        Update::Bulk(v) => format!("bulk:{}", v.len()),
        Update::Withdraw(..) => "withdraw".into(),
        Update::WithdrawBulk(v) => format!("wbulk:{}", v.len()),
        Update::OutputStream(v) => format!("os({})", join(v.iter().map(show_osm), ",")),
        Update::UpstreamStatusChange(_) => "eos".into(),
        Update::QueryResult(..) => "qr".into(),
    }
}
/// spec-level topic of one output token (what the drain loops are documented to forward)
fn osm_of_output(o: &str) -> String {
    let k = o.split(':').next().unwrap();
    match k { "pfx" => "prefix".into(), "asn" => "asn".into(), "org" => "origin".into(), "com" => "community".into(), "pd" => "peerdown".into(), "ent" => "log_entry".into(), _ => format!("custom:{}", o.split_once(':').unwrap().1) }
}
fn emitted_of(downs: &[String]) -> Vec<String> {
    downs.iter().filter_map(|d| d.strip_prefix("os(").and_then(|r| r.strip_suffix(')'))).flat_map(|r| r.split(',').filter(|x| !x.is_empty()).map(|x| x.to_string()).collect::<Vec<_>>()).collect()
}
fn routing_of(downs: &[String]) -> Vec<String> { downs.iter().filter(|d| !d.starts_with("os(")).cloned().collect() }

/// the property's output clause judged on the real handler: `emitted` must be the outputs of the call, in order, each once
fn output_clause(site: &str, outs: &[String], downs: &[String], msg_is_pd: bool) -> Option<String> {
    let want: Vec<String> = outs.iter().map(|o| osm_of_output(o)).collect();
    let got = emitted_of(downs);
    if want == got { return None; }
    let without_pd: Vec<String> = want.iter().filter(|t| *t != "peerdown").cloned().collect();
    if got == without_pd && !(site == "bmp-in" && msg_is_pd) {
        let sig = if site == "bmp-in" { "output-dropped:peer-down:bmp-in-non-peer-down".to_string() } else { format!("output-dropped:peer-down:{site}") };
        return Some(format!("fail {sig} script made {} output calls, {} reached the gate", want.len(), got.len()));
    }
    Some(format!("fail output-stream-mismatch:{site} want [{}] got [{}]", want.join(","), got.join(",")))
}

struct Rt(tokio::runtime::Runtime);
impl Rt { fn new() -> Rt { Rt(tokio::runtime::Builder::new_current_thread().enable_all().build().unwrap()) } }

fn take(c: &Arc<vr::Collector>) -> Vec<String> { c.0.lock().unwrap().drain(..).map(|u| show_update(&u)).collect() }

/// one UPDATE through a fresh real `Processor::process`; the trailing session-end `withdraw` is cut off
fn run_bgp_handler(rt: &Rt, f: Option<BgpFunc>, m: &UpdateMessage<Bytes>) -> Vec<String> {
    let c = Arc::new(vr::Collector::default());
    rt.0.block_on(vr::bgp::run_session(f, 7, vec![m.clone()], c.clone()));
    let mut d = take(&c);
    if d.last().map(|s| s == "withdraw").unwrap_or(false) { d.pop(); } else { d.push("no-session-end".into()); }
    d
}

struct BmpSession { h: vr::bmp::RouterHandler, _agent: rotonda::comms::GateAgent, _link: rotonda::comms::Link, c: Arc<vr::Collector> }
fn bmp_session(rt: &Rt, f: Option<BmpFunc>) -> BmpSession {
    let (h, mut agent) = vr::bmp::mk_handler(f, 7);
    let c = Arc::new(vr::Collector::default());
    let mut link = agent.create_link();
    link.set_direct_update_target(c.clone());
    rt.0.block_on(async {
        tokio::select! {
            _ = link.connect(false) => {}
            _ = async { loop { vr::bmp::gate_process(&h).await; } } => {}
        }
    });
    BmpSession { h, _agent: agent, _link: link, c }
}
impl BmpSession {
    /// (downs, state digest after)
    fn feed(&self, rt: &Rt, i: &BmpIn) -> (Vec<String>, String) {
        let Some(m) = i.msg() else { return (vec!["unparseable".into()], "?".into()) };
        let r = rt.0.block_on(vr::bmp::process_msg(&self.h, "10.0.0.5:1790".parse().unwrap(), 7, m, i.prov()));
        let mut d = take(&self.c);
        if let Err(e) = r { d.push(format!("err:{}", e.replace(' ', "_"))); }
        let (ph, rid) = rt.0.block_on(vr::bmp::state(&self.h));
        (d, format!("{ph}/{}", rid.replace(' ', "_")))
    }
}

struct RibRun { downs: Vec<String>, content: String }
/// one Bulk (or Single) of the routes of `u` through a fresh real RIB unit
fn run_rib_handler(rt: &Rt, f: Option<RibFunc>, u: &Upd) -> Option<RibRun> {
    let (m, a, w) = explode(u)?;
    let (runner, mut agent) = vr::rib::mk_runner(f);
    let c = Arc::new(vr::Collector::default());
    let mut link = agent.create_link();
    link.set_direct_update_target(c.clone());
    rt.0.block_on(async {
        tokio::select! {
            _ = link.connect(false) => {}
            _ = async { loop { vr::rib::gate_process(&runner).await; } } => {}
        }
    });
    let prov = Provenance::for_bgp(7, "10.0.0.1".parse().unwrap(), Asn::from_u32(65000));
    let ctx = FreshRouteContext::new(m.clone(), RouteStatus::Active, prov);
    let wctx = FreshRouteContext { status: RouteStatus::Withdrawn, ..ctx.clone() };
    let mut ps: smallvec::SmallVec<[Payload; 8]> = smallvec::SmallVec::new();
    let now = Instant::now();
    for r in a { ps.push(Payload::with_received(r, ctx.clone().into(), None, now)); }
    for r in w.iter().cloned() { ps.push(Payload::with_received(r, wctx.clone().into(), None, now)); }
    // seed: every prefix the UPDATE withdraws is in the RIB as an active route of the same peer, put there
    // directly through `Rib::insert` (not through the filter), so that an honoured withdrawal is visible
    for r in &w { let _ = vr::rib::rib(&runner).insert(r, RouteStatus::Active, prov, 0); }
    let upd = if ps.len() == 1 { Update::Single(ps.into_iter().next().unwrap()) } else { Update::Bulk(ps) };
    let _ = rt.0.block_on(vr::rib::process_update(&runner, upd));
    let downs = take(&c);
    let rib = vr::rib::rib(&runner);
    let opts = MatchOptions { match_type: MatchType::ExactMatch, include_withdrawn: true, include_less_specifics: false, include_more_specifics: false, mui: None };
    let content = join(u.nlri.iter().chain(u.wd.iter()).map(|p| {
        match rib.match_prefix(&p.prefix(), &opts) {
            Ok(res) => { let mut v: Vec<char> = res.prefix_meta.iter().map(|r| match r.status { RouteStatus::Active => 'A', RouteStatus::Withdrawn => 'W', _ => 'I' }).collect(); v.sort(); if v.is_empty() { "-".to_string() } else { v.into_iter().collect() } }
            Err(_) => "E".to_string(),
        }
    }), ",");
    drop(link); drop(agent);
    Some(RibRun { downs, content: if content.is_empty() { "-".into() } else { content } })
}

// ================================================================== generator

const ASNS: [u32; 7] = [1, 2, 200, 12345, 64512, 65000, 65536];
const COMMS: [u32; 6] = [0xFFFFFF01, 0xFFFFFF04, 0xffff029a, 0xfde80001, 77, 0xFFFFFF02];
const PFXS: [P; 5] = [P { addr: 0x0A000000, len: 8 }, P { addr: 0x0A010000, len: 16 }, P { addr: 0xC0000200, len: 24 }, P { addr: 0xB9318D00, len: 24 }, P { addr: 0, len: 0 }];
const CODES: [u8; 10] = [1, 2, 3, 4, 5, 8, 14, 32, 35, 99];

struct Gen { rng: Rng }
impl Gen {
    fn asn(&mut self, legacy: bool) -> u32 { loop { let a = *self.rng.pick(&ASNS); if !legacy || a < 65536 { return a; } } }
    fn upd(&mut self, legacy: bool) -> Upd {
        let aspath = match self.rng.below(10) {
            0 => None,
            1 => Some(vec![]),
            _ => {
                let n = self.rng.range(1, 4);
                let mut h: Vec<Hop> = (0..n).map(|_| Hop::Asn(self.asn(legacy))).collect();
                if !legacy && self.rng.chance(1, 8) { let s = Hop::Set((0..self.rng.range(1, 2)).map(|_| self.asn(legacy)).collect()); let at = self.rng.below(h.len() as u64 + 1) as usize; h.insert(at, s); }
                Some(h)
            }
        };
        let comms = if self.rng.chance(1, 2) { vec![] } else { (0..self.rng.range(1, 3)).map(|_| *self.rng.pick(&COMMS)).collect() };
        let extra: Vec<u8> = [4u8, 5, 32, 35].into_iter().filter(|_| self.rng.chance(1, 3)).collect();
        let mut pool: Vec<P> = PFXS.to_vec();
        let mut pickp = |g: &mut Gen, n: u64| -> Vec<P> { (0..n).filter_map(|_| if pool.is_empty() { None } else { let i = g.rng.below(pool.len() as u64) as usize; Some(pool.remove(i)) }).collect() };
        let nn = self.rng.below(4); let nlri = pickp(self, nn);
        let nw = self.rng.below(3); let wd = pickp(self, nw);
        Upd { aspath, comms, extra, nlri, wd }
    }
    fn arg(&mut self, lets: &[Const], kind: u8) -> Arg {
        // kind: 0 asn 1 comm 2 pfx 3 u8; prefer a let-bound constant of the right type half of the time
        let idx: Vec<usize> = lets.iter().enumerate().filter(|(_, c)| matches!((kind, c), (0, Const::Asn(_)) | (1, Const::Comm(_)) | (2, Const::Pfx(_)) | (3, Const::U8(_)))).map(|(i, _)| i).collect();
        if !idx.is_empty() && self.rng.chance(1, 2) { return Arg::Var(*self.rng.pick(&idx)); }
        Arg::Lit(self.konst(kind))
    }
    fn konst(&mut self, kind: u8) -> Const {
        match kind { 0 => Const::Asn(*self.rng.pick(&ASNS)), 1 => Const::Comm(*self.rng.pick(&COMMS)), 2 => Const::Pfx(*self.rng.pick(&PFXS)), _ => Const::U8(*self.rng.pick(&CODES)) }
    }
    fn pred(&mut self, u: Unit, lets: &[Const]) -> Pred {
        let n = match u { Unit::Bgp => 5, Unit::Bmp => 8, Unit::Rib => 5 };
        match (u, self.rng.below(n)) {
            (_, 0) => Pred::AspathContains(self.arg(lets, 0)),
            (_, 1) => Pred::OriginIs(self.arg(lets, 0)),
            (_, 2) => Pred::HasComm(self.arg(lets, 1)),
            (_, 3) => Pred::HasAttr(self.arg(lets, 3)),
            (Unit::Rib, _) => Pred::PrefixIs(self.arg(lets, 2)),
            (_, 4) => Pred::PeerAsnIs(self.arg(lets, 0)),
            (_, 5) => Pred::IsIbgp(self.arg(lets, 0)),
            (_, 6) => Pred::IsRouteMon,
            _ => Pred::IsPeerDown,
        }
    }
    fn cond(&mut self, u: Unit, lets: &[Const], depth: u32) -> Cond {
        let k = if depth == 0 { self.rng.below(12) } else { self.rng.below(20) };
        match k {
            0 => Cond::T, 1 => Cond::F,
            2..=11 => Cond::Pred(self.pred(u, lets)),
            12..=14 => Cond::Not(Box::new(self.cond(u, lets, depth - 1))),
            15..=17 => Cond::And(Box::new(self.cond(u, lets, depth - 1)), Box::new(self.cond(u, lets, depth - 1))),
            _ => Cond::Or(Box::new(self.cond(u, lets, depth - 1)), Box::new(self.cond(u, lets, depth - 1))),
        }
    }
    fn out(&mut self, lets: &[Const]) -> OutCall {
        match self.rng.below(8) {
            0 => OutCall::LogPrefix(self.arg(lets, 2)), 1 => OutCall::LogAsn(self.arg(lets, 0)), 2 => OutCall::LogOrigin(self.arg(lets, 0)),
            3 => OutCall::LogComm(self.arg(lets, 1)), 4 | 5 => OutCall::LogPeerDown, 6 => OutCall::LogCustom(self.rng.below(5) as u32, self.rng.below(100) as u32),
            _ => OutCall::WriteEntry,
        }
    }
    /// A statement that falls through on at least one path. roto 0.4.0 treats an `if/else` of which
    /// only one branch returns as diverging (type error "unreachable", or a panic in codegen), so early
    /// returns are only generated as `if c { …; accept|reject }` without `else`; a two-branch
    /// `if/else` in statement position contains no return at all.
    fn stmt(&mut self, u: Unit, lets: &[Const], depth: u32, allow_ret: bool, budget: &mut i32) -> Prog {
        let c = self.cond(u, lets, 2);
        if self.rng.chance(1, 2) {
            let t = self.seq(u, lets, depth.saturating_sub(1), 1, false, budget);
            let e = self.seq(u, lets, depth.saturating_sub(1), 1, false, budget);
            Prog::Ite(c, Box::new(t), Box::new(e))
        } else {
            let t = self.seq(u, lets, depth.saturating_sub(1), 1, allow_ret, budget);
            Prog::Ite(c, Box::new(t), Box::new(Prog::Fall))
        }
    }
    /// mode 0: every path must end in accept/reject; mode 1: open (may end in a return only if `allow_ret`)
    fn seq(&mut self, u: Unit, lets: &[Const], depth: u32, mode: u8, allow_ret: bool, budget: &mut i32) -> Prog {
        *budget -= 1;
        let stop = *budget <= 0 || depth == 0;
        let k = if stop { self.rng.below(2) } else { self.rng.below(10) };
        match k {
            0 | 1 => if mode == 0 { Prog::Ret(self.rng.chance(3, 5)) } else if allow_ret && self.rng.chance(1, 3) { Prog::Ret(self.rng.chance(1, 2)) } else { Prog::Fall },
            2..=4 => { let o = self.out(lets); Prog::Out(o, Box::new(self.seq(u, lets, depth, mode, allow_ret, budget))) }
            5 | 6 if mode == 0 => { let c = self.cond(u, lets, 2); let t = self.seq(u, lets, depth - 1, 0, true, budget); let e = self.seq(u, lets, depth - 1, 0, true, budget); Prog::Ite(c, Box::new(t), Box::new(e)) }
            _ => { let st = self.stmt(u, lets, depth, mode == 0 || allow_ret, budget); let k = self.seq(u, lets, depth, mode, allow_ret, budget); Prog::Blk(Box::new(st), Box::new(k)) }
        }
    }
    fn program(&mut self, u: Unit) -> Program {
        let nl = self.rng.below(4);
        let lets: Vec<Const> = (0..nl).map(|_| { let k = self.rng.below(4) as u8; self.konst(k) }).collect();
        let mut budget = self.rng.range(4, 14) as i32;
        let body = self.seq(u, &lets, 3, 0, true, &mut budget);
        Program { lets, body }
    }
    fn bgp_in(&mut self) -> BgpIn { BgpIn { upd: self.upd(false), asn: self.asn(false) } }
    fn bmp_in(&mut self, kind: Kind) -> BmpIn {
        let legacy = kind == Kind::RouteMon && self.rng.chance(1, 4);
        BmpIn { kind, pph_asn: self.asn(true), legacy, upd: if kind == Kind::RouteMon { self.upd(legacy) } else { Upd::default() }, prov_asn: self.asn(false) }
    }
    fn kind(&mut self) -> Kind { *self.rng.pick(&[Kind::Init, Kind::PeerUp, Kind::PeerDown, Kind::RouteMon, Kind::RouteMon, Kind::RouteMon, Kind::RouteMon, Kind::Stats, Kind::Term]) }
}

// ====================================================================== cases

struct Eng { rec: Recorder, rt: Rt }

fn bmp_spec_view<'a>(i: &'a BmpIn) -> SpecView<'a> {
    SpecView { upd: if i.kind == Kind::RouteMon { Some(&i.upd) } else { None }, pfx: None, peer_asn: i.prov_asn, pph_asn: if i.kind.has_pph() { Some(i.pph_asn) } else { None }, is_rm: i.kind == Kind::RouteMon, is_pd: i.kind == Kind::PeerDown }
}

impl Eng {
    fn nontrivial(p: &Program) -> bool { let mut t = vec![]; p.body.toks(&mut t); t.iter().any(|x| x == "I") && t.iter().any(|x| x == "O") }

    /// F-level: one call of the compiled function. Returns the real observation.
    fn f_case(&mut self, u: Unit, p: &Program, c: &mut roto::Compiled, input: &str) -> Option<(bool, Vec<String>)> {
        let (obs, spec, legacy_rm) = match u {
            Unit::Bgp => {
                let i = BgpIn::parse(input);
                let m = i.msg()?;
                let f: BgpFunc = c.get_function("bgp-in").ok()?;
                let v = SpecView { upd: Some(&i.upd), pfx: None, peer_asn: i.asn, pph_asn: None, is_rm: false, is_pd: false };
                (call_bgp(&f, &m, i.prov()), spec_run(p, &v), false)
            }
            Unit::Bmp => {
                let i = BmpIn::parse(input);
                let m = i.msg()?;
                let f: BmpFunc = c.get_function("bmp-in").ok()?;
                (call_bmp(&f, &m, i.prov()), spec_run(p, &bmp_spec_view(&i)), i.kind == Kind::RouteMon && i.legacy)
            }
            Unit::Rib => {
                let i = RibIn::parse(input);
                let (_, a, w) = explode(&i.upd)?;
                let na = a.len();
                let all: Vec<RotondaRoute> = a.into_iter().chain(w).collect();
                let r = all.get(i.idx)?;
                let f: RibFunc = c.get_function("rib-in-pre").ok()?;
                let pfx = *i.upd.nlri.iter().chain(i.upd.wd.iter()).nth(i.idx)?;
                let v = SpecView { upd: if i.idx < na { Some(&i.upd) } else { None }, pfx: Some(pfx), peer_asn: 0, pph_asn: None, is_rm: false, is_pd: false };
                (call_rib(&f, r), spec_run(p, &v), false)
            }
        };
        let oracle = if obs == spec { "ok".to_string() } else if legacy_rm {
            format!("fail bmp-predicates:modern-parse-of-2-octet-aspath documented meaning gives {} but the filter returned {}", show_obs(spec.0, &spec.1).replace(' ', "/"), show_obs(obs.0, &obs.1).replace(' ', "/"))
        } else {
            format!("fail predicate-mismatch:{} documented meaning gives {} but the filter returned {}", u.name(), show_obs(spec.0, &spec.1).replace(' ', "/"), show_obs(obs.0, &obs.1).replace(' ', "/"))
        };
        self.rec.bump(&format!("F.{}", u.name()));
        self.rec.bump(if obs.0 { "F.verdict.accept" } else { "F.verdict.reject" });
        self.rec.bump_by("F.outputs", obs.1.len() as u64);
        self.rec.case(format!("F|{}|{}|{}", u.name(), p.tok(), input), show_obs(obs.0, &obs.1), oracle, Self::nontrivial(p));
        Some(obs)
    }

    /// H-level bgp: one UPDATE through a fresh real Processor, with and without the filter.
    fn h_bgp(&mut self, p: Option<&Program>, i: &BgpIn) {
        let Some(m) = i.msg() else { return };
        let i = BgpIn { asn: 12345, upd: i.upd.clone() }; // NegotiatedConfig::dummy()
        let nf = run_bgp_handler(&self.rt, None, &m);
        let (downs, call) = match p {
            None => (nf.clone(), (true, vec![])),
            Some(p) => {
                let Ok(mut c) = compile(&p.roto(Unit::Bgp)) else { return };
                let f: BgpFunc = c.get_function("bgp-in").unwrap();
                let call = call_bgp(&f, &m, i.prov());
                let f: BgpFunc = c.get_function("bgp-in").unwrap();
                (run_bgp_handler(&self.rt, Some(f), &m), call)
            }
        };
        let oracle = handler_oracle("bgp-in", call.0, &call.1, &downs, &nf, None, false);
        self.rec.bump("H.bgp");
        self.rec.case(format!("H|bgp|{}|{} nf={}", p.map(|p| p.tok()).unwrap_or("-".into()), i.tok(), if nf.is_empty() { "-".into() } else { nf.join(",") }),
            if downs.is_empty() { "-".into() } else { downs.join(" ") }, oracle, p.map(Self::nontrivial).unwrap_or(false));
    }

    /// H-level bmp: a session; the filtered handler sees every message, the unfiltered twin only the accepted ones.
    fn h_bmp(&mut self, p: Option<&Program>, msgs: &[BmpIn]) {
        let mut comp = match p { Some(p) => match compile(&p.roto(Unit::Bmp)) { Ok(c) => Some(c), Err(_) => return }, None => None };
        let hf: Option<BmpFunc> = comp.as_mut().map(|c| c.get_function("bmp-in").unwrap());
        let cf: Option<BmpFunc> = comp.as_mut().map(|c| c.get_function("bmp-in").unwrap());
        let filtered = bmp_session(&self.rt, hf);
        let twin = bmp_session(&self.rt, None);
        let mut case = vec![]; let mut imp = vec![]; let mut oracle = "ok".to_string();
        let mut prev = "0/unknown".to_string(); let mut twin_state = prev.clone();
        for i in msgs {
            let Some(m) = i.msg() else { continue };
            // the handler overwrites the provenance ASN with the per-peer header's (router_handler.rs:355-366)
            // and `read_from_router` starts every message with ASN 0
            let i = BmpIn { prov_asn: if i.kind.has_pph() { i.pph_asn } else { 0 }, ..i.clone() };
            let call = match &cf { Some(f) => call_bmp(f, &m, i.prov()), None => (true, vec![]) };
            let raw = BmpIn { prov_asn: 0, ..i.clone() };
            let (downs, st) = filtered.feed(&self.rt, &raw);
            let aborted = downs.iter().any(|d| d.starts_with("err:"));
            let nf = if call.0 { let (d, s) = twin.feed(&self.rt, &raw); twin_state = s.clone(); Some((d, s)) } else { None };
            let o = handler_oracle("bmp-in", call.0, &call.1, &downs, nf.as_ref().map(|x| &x.0[..]).unwrap_or(&[]), Some((&prev, &st, &twin_state)), i.kind == Kind::PeerDown);
            if o != "ok" && oracle == "ok" { oracle = o; }
            case.push(format!("{} nf={}", i.tok(), match &nf { Some((d, s)) => format!("{}~{}", s, if d.is_empty() { "-".into() } else { d.join(",") }), None => "-".into() }));
            imp.push(format!("{} {}", st, if downs.is_empty() { "-".into() } else { downs.join(" ") }));
            prev = st;
            if aborted { break; } // `process_msg` leaves no state machine behind after an abort; the real caller stops too
        }
        self.rec.bump("H.bmp");
        self.rec.bump_by("H.bmp.msgs", case.len() as u64);
        self.rec.case(format!("H|bmp|{}|{}", p.map(|p| p.tok()).unwrap_or("-".into()), case.join(";")), imp.join(" ; "), oracle, p.map(Self::nontrivial).unwrap_or(false));
    }

    /// H-level rib: one Bulk through a fresh real RIB unit, with and without the filter.
    fn h_rib(&mut self, p: Option<&Program>, u: &Upd) {
        let Some((_, a, w)) = explode(u) else { return };
        let routes: Vec<RotondaRoute> = a.iter().cloned().chain(w.iter().cloned()).collect();
        if routes.is_empty() { return; }
        let mut comp = match p { Some(p) => match compile(&p.roto(Unit::Rib)) { Ok(c) => Some(c), Err(_) => return }, None => None };
        let cf: Option<RibFunc> = comp.as_mut().map(|c| c.get_function("rib-in-pre").unwrap());
        let hf: Option<RibFunc> = comp.as_mut().map(|c| c.get_function("rib-in-pre").unwrap());
        let calls: Vec<(bool, Vec<String>)> = routes.iter().map(|r| match &cf { Some(f) => call_rib(f, r), None => (true, vec![]) }).collect();
        let Some(run) = run_rib_handler(&self.rt, hf, u) else { return };
        // the unfiltered twin sees only the accepted routes
        let acc = Upd { nlri: u.nlri.iter().enumerate().filter(|(j, _)| calls[*j].0).map(|x| *x.1).collect(), wd: u.wd.iter().enumerate().filter(|(j, _)| calls[a.len() + *j].0).map(|x| *x.1).collect(), ..u.clone() };
        let twin = if acc.nlri.is_empty() && acc.wd.is_empty() { RibRun { downs: vec![], content: "-".into() } } else { match run_rib_handler(&self.rt, None, &acc) { Some(t) => t, None => return } };
        // oracle: RIB content per prefix = twin's for accepted, untouched ("-") for rejected; routing updates equal; outputs all emitted
        let mut want = vec![]; let mut ti = twin.content.split(',');
        for (j, c) in calls.iter().enumerate() { want.push(if c.0 { ti.next().unwrap_or("?").to_string() } else if j < a.len() { "-".to_string() } else { "A".to_string() }); }
        let all_outs: Vec<String> = calls.iter().flat_map(|c| c.1.clone()).collect();
        let oracle = if run.content != want.join(",") { format!("fail verdict-not-honoured:rib-in-pre:rib-content want {} got {}", want.join(","), run.content) }
            else if routing_of(&run.downs) != routing_of(&twin.downs) { format!("fail verdict-not-honoured:rib-in-pre:forwarded want {:?} got {:?}", routing_of(&twin.downs), routing_of(&run.downs)).replace(' ', "") }
            else { output_clause("rib-in-pre", &all_outs, &run.downs, false).unwrap_or("ok".into()) };
        self.rec.bump("H.rib");
        self.rec.case(format!("H|rib|{}|{}", p.map(|p| p.tok()).unwrap_or("-".into()), u.tok()),
            format!("{} {}", run.content, if run.downs.is_empty() { "-".into() } else { run.downs.join(" ") }), oracle, p.map(Self::nontrivial).unwrap_or(false));
    }
}

/// reject => state unchanged and nothing forwarded; accept => same as the unfiltered twin; outputs all emitted
fn handler_oracle(site: &str, accepted: bool, outs: &[String], downs: &[String], nf: &[String], states: Option<(&String, &String, &String)>, msg_is_pd: bool) -> String {
    if accepted {
        if routing_of(downs) != routing_of(nf) { return format!("fail verdict-not-honoured:{site}:accept-differs-from-no-filter want [{}] got [{}]", routing_of(nf).join(","), routing_of(downs).join(",")); }
        if let Some((_, st, twin)) = states { if st != twin { return format!("fail verdict-not-honoured:{site}:accept-state-differs want {twin} got {st}"); } }
    } else {
        if !routing_of(downs).is_empty() { return format!("fail verdict-not-honoured:{site}:reject-forwarded [{}]", routing_of(downs).join(",")); }
        if let Some((prev, st, _)) = states { if st != prev { return format!("fail verdict-not-honoured:{site}:reject-changed-state {prev} -> {st}"); } }
    }
    output_clause(site, outs, downs, msg_is_pd).unwrap_or("ok".into())
}

fn run_line(e: &mut Eng, line: &str) {
    let parts: Vec<&str> = line.split('|').collect();
    let u = Unit::parse(parts[1]);
    let p = if parts[2] == "-" { None } else { Some(Program::parse(parts[2])) };
    match parts[0] {
        "F" => { let p = p.unwrap(); if let Ok(mut c) = compile(&p.roto(u)) { e.f_case(u, &p, &mut c, parts[3]); } }
        _ => match u {
            Unit::Bgp => e.h_bgp(p.as_ref(), &BgpIn::parse(parts[3])),
            Unit::Bmp => { let msgs: Vec<BmpIn> = parts[3].split(';').map(BmpIn::parse).collect(); e.h_bmp(p.as_ref(), &msgs) }
            Unit::Rib => e.h_rib(p.as_ref(), &Upd::parse(&kvs(parts[3]))),
        },
    }
}

fn main() {
    let args = parse_args();
    if std::env::var("C10_DEBUG").is_err() { std::panic::set_hook(Box::new(|_| {})); }
    let t0 = Instant::now();
    let rec = Recorder::new("F: one call of a generated filter program (let constants, nested if/else, and/or/not, output calls, early return) compiled by the real runtime, on one generated BGP UPDATE / BMP message / exploded route; H: the same programs installed in the real bgp-in Processor, bmp-in RouterHandler (sessions of 3-8 messages) and RIB unit (Bulk of 1-5 routes), each next to an unfiltered twin; non-trivial = the program contains at least one `if` and one output call; distinct = distinct case lines");
    let rt0 = Rt::new();
    let handle = rt0.0.handle().clone();
    let _guard = handle.enter(); // Gate's Drop spawns a task
    let mut e = Eng { rec, rt: rt0 };

    if let Some(path) = &args.replay {
        for line in verif_harness::replay_cases(path) { run_line(&mut e, &line); }
        e.rec.finish(&args, t0.elapsed().as_secs_f64());
        return;
    }

    // ---- 0. witnesses of the counterexample theorems; they decide the variant of each defect site
    let pd = Program { lets: vec![], body: Prog::Out(OutCall::LogPeerDown, Box::new(Prog::Out(OutCall::LogCustom(1, 2), Box::new(Prog::Ret(true))))) };
    let u1 = Upd { aspath: Some(vec![Hop::Asn(65000), Hop::Asn(200)]), comms: vec![], extra: vec![], nlri: vec![PFXS[0]], wd: vec![] };
    let n0 = e.rec.impls.len();
    e.h_bgp(Some(&pd), &BgpIn { upd: u1.clone(), asn: 12345 });
    let v = e.rec.impls.get(n0).map(|s| s.contains("peerdown")).unwrap_or(false);
    e.rec.variant("pd_bgp", if v { "repaired" } else { "as-written" });
    let n0 = e.rec.impls.len();
    e.h_rib(Some(&pd), &u1);
    let v = e.rec.impls.get(n0).map(|s| s.contains("peerdown")).unwrap_or(false);
    e.rec.variant("pd_rib", if v { "repaired" } else { "as-written" });
    let n0 = e.rec.impls.len();
    e.h_bmp(Some(&pd), &[BmpIn { kind: Kind::Init, pph_asn: 0, legacy: false, upd: Upd::default(), prov_asn: 0 }]);
    let v = e.rec.impls.get(n0).map(|s| s.contains("peerdown")).unwrap_or(false);
    e.rec.variant("pd_bmp", if v { "repaired" } else { "as-written" });
    // BMP predicate on a 2-octet peer: `aspath_contains(AS200)` on path 65000 200
    let w = Program { lets: vec![], body: Prog::Ite(Cond::Pred(Pred::AspathContains(Arg::Lit(Const::Asn(200)))), Box::new(Prog::Ret(true)), Box::new(Prog::Ret(false))) };
    let li = BmpIn { kind: Kind::RouteMon, pph_asn: 200, legacy: true, upd: u1.clone(), prov_asn: 0 };
    let mut c = compile(&w.roto(Unit::Bmp)).expect("witness program compiles");
    let obs = e.f_case(Unit::Bmp, &w, &mut c, &li.tok());
    e.rec.variant("as_width", if obs.map(|o| o.0).unwrap_or(false) { "repaired" } else { "as-written" });

    let mut g = Gen { rng: Rng::new(args.seed) };
    let (nprog, nin, nh) = if args.thorough { (6000, 40, 6000) } else { (900, 30, 600) };

    // ---- 1. F-level
    let mut compile_fail = 0;
    for k in 0..nprog {
        let u = [Unit::Bgp, Unit::Bmp, Unit::Rib][k % 3];
        let p = g.program(u);
        debug_assert!(p.body.closed());
        let mut c = match compile(&p.roto(u)) { Ok(c) => c, Err(err) => { compile_fail += 1; if compile_fail <= 3 { eprintln!("compile error: {err}\n{}", p.roto(u)); } continue } };
        for _ in 0..nin {
            let input = match u {
                Unit::Bgp => g.bgp_in().tok(),
                Unit::Bmp => { let k = g.kind(); g.bmp_in(k).tok() }
                Unit::Rib => { let upd = loop { let x = g.upd(false); if !x.nlri.is_empty() || !x.wd.is_empty() { break x; } }; let n = upd.nlri.len() + upd.wd.len(); RibIn { idx: g.rng.below(n as u64) as usize, upd }.tok() }
            };
            e.f_case(u, &p, &mut c, &input);
        }
    }
    e.rec.extra.insert("compile_failures".into(), serde_json::json!(compile_fail));

    // ---- 2. H-level
    for k in 0..nh {
        let u = [Unit::Bgp, Unit::Bmp, Unit::Rib][k % 3];
        let p = if g.rng.chance(1, 10) { None } else { Some(g.program(u)) };
        match u {
            Unit::Bgp => { for _ in 0..3 { let i = g.bgp_in(); e.h_bgp(p.as_ref(), &i); } }
            Unit::Bmp => {
                let mut msgs = vec![g.bmp_in(Kind::Init), g.bmp_in(Kind::PeerUp)];
                msgs[1].pph_asn = 200;
                for _ in 0..g.rng.range(1, 6) { let k = g.kind(); let mut m = g.bmp_in(k); if g.rng.chance(3, 4) { m.pph_asn = 200; } msgs.push(m); }
                e.h_bmp(p.as_ref(), &msgs);
            }
            Unit::Rib => { for _ in 0..3 { let upd = g.upd(false); e.h_rib(p.as_ref(), &upd); } }
        }
    }
    e.rec.finish(&args, t0.elapsed().as_secs_f64());
}
