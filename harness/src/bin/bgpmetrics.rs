//! BgpMetrics engine: the bgp-tcp-in unit's own metrics against the traffic that produced them (C15 for BGP).
//!
//! One case = a unit (`[peers]` tables, one per configuration generation) and a history of connection events:
//!   the real `BgpTcpInRunner::run` (real accept loop, real `PeerConfigs::get`, real `handle_connection`, routecore's
//!   real `Session`, real `Processor::process`, real `BgpTcpInStatusReporter` / `BgpTcpInMetrics` / `GateMetrics`) on a
//!   loopback listener; BGP speakers of this harness connect from 127.x.y.z addresses and speak real bytes (OPEN,
//!   KEEPALIVE, UPDATE, NOTIFICATION, damaged frames, FIN, RST, silence until the hold timer fires); unit termination
//!   and reconfiguration through the real `GateAgent`; bind failures and accept errors through the listener wrapper
//!   of `/repo/src/units/bgp_tcp_in/verif_hooks_bgpmetrics.rs` (the only part that is not the production listener).
//!   After every event, at a quiescent point (the peer saw the connection's fate / the gate counted the update / the
//!   listener was bound again), the metrics are read the way `/metrics` reads them: the real `metrics::Source::append`
//!   of the unit's `BgpTcpInMetrics` into a real Prometheus `metrics::Target`, text parsed.
//! case   `M|<link>|<startfail>|<cfg0> ; <cfg1> …|<ops>`; the Lean driver `rmodel-bgpmetrics` runs `Model/BgpMetrics.lean`.
//! impl   `start@<rec> <tok>@<rec> … [late@<rec>]`, `<rec>` = bound,accepted,lost,disconnect,gate updates,gate dropped,set size
//! oracle Rust only, no Lean model: a ledger of what the traffic implies for each metric by its name and help text
//!        (bound = successful binds; accepted = TCP connections the unit took; lost = connections the peer ended (FIN,
//!        RST); disconnect = connections the unit ended by its own decision (bad peer AS, second session of a live peer,
//!        framing error, hold timer, termination, reconfiguration); gate updates = UPDATEs delivered + one per ended
//!        session; dropped = those sent while no link was attached; set size = NLRI of the last UPDATE); judged per
//!        event, plus: no counter decreases, lost + disconnect + open sessions never exceeds accepted, the exposition
//!        parses (HELP/TYPE once per metric, one sample per metric, `component` label = the unit's name).
use std::collections::BTreeMap;
use std::net::{Ipv4Addr, SocketAddr};
use std::sync::{Arc, Mutex};
use std::time::{Duration, Instant};

use rotonda::metrics::{OutputFormat, Source, Target};
use rotonda::payload::Update;
use rotonda::verif::bgp_in as hook_in;
use rotonda::verif::bgp_metrics as hook;
use rotonda::verif::gate::FnTarget;
use rotonda::verif::ingress as ving;
use tokio::io::{AsyncReadExt, AsyncWriteExt};
use tokio::net::{TcpSocket, TcpStream};
use verif_harness::rib::*;
use verif_harness::{join, parse_args, replay_cases, rng::Rng, Recorder};

const UNIT: &str = "bgp-in";

// ------------------------------------------------------------------ scenario

#[derive(Clone, Debug, PartialEq)]
enum Key { Exact(u32), Prefix(u8, u32) }

#[derive(Clone, Debug, PartialEq)]
enum Asns { One(u32), Many(Vec<u32>) }

#[derive(Clone, Debug, PartialEq)]
struct Entry { key: Key, asns: Asns, hold: u16 }

#[derive(Clone, Debug, PartialEq)]
enum Op {
    Conn(u32, u32),
    Upd(usize, Upd),
    Notif(usize),
    Fin(usize),
    Rst(usize),
    /// kind 0 = a header whose length field is 7, kind 1 = a well-framed message of unknown type 9
    Garbage(usize, u8),
    Hold(usize),
    Terminate,
    /// reconfigure: configuration index, listen index (0/1), own-AS index (0/1)
    Reconf(usize, u8, u8),
    /// the listener's pending accept fails once
    AcceptErr,
    /// the next bind attempt fails once (the unit retries after 1 s)
    BindFail,
}

#[derive(Clone, Debug, PartialEq)]
struct Scn { link: bool, startfail: bool, cfgs: Vec<Vec<Entry>>, ops: Vec<Op> }

fn ip_of(a: u32) -> Ipv4Addr { Ipv4Addr::from(a.to_be_bytes()) }

fn show_entry(e: &Entry) -> String {
    let k = match &e.key { Key::Exact(a) => format!("e:{a}"), Key::Prefix(l, b) => format!("p:{l}:{b}") };
    let a = match &e.asns { Asns::One(n) => format!("o{n}"), Asns::Many(v) => if v.is_empty() { "a".into() } else { format!("m{}", join(v.iter(), "+")) } };
    format!("{k}~{a}~{}", e.hold)
}
fn parse_entry(s: &str) -> Option<Entry> {
    let f: Vec<&str> = s.split('~').collect();
    if f.len() != 3 { return None; }
    let k: Vec<&str> = f[0].split(':').collect();
    let key = match k[0] { "e" if k.len() == 2 => Key::Exact(k[1].parse().ok()?), "p" if k.len() == 3 => Key::Prefix(k[1].parse().ok()?, k[2].parse().ok()?), _ => return None };
    let asns = if f[1] == "a" { Asns::Many(vec![]) } else if let Some(r) = f[1].strip_prefix('o') { Asns::One(r.parse().ok()?) } else if let Some(r) = f[1].strip_prefix('m') { Asns::Many(r.split('+').map(|x| x.parse().ok()).collect::<Option<Vec<u32>>>()?) } else { return None };
    Some(Entry { key, asns, hold: f[2].parse().ok()? })
}
fn show_list(ns: &[Nlri]) -> String { if ns.is_empty() { "-".into() } else { join(ns.iter().map(|n| n.show()), ",") } }
fn parse_list(s: &str) -> Option<Vec<Nlri>> { if s == "-" { Some(vec![]) } else { s.split(',').map(Nlri::parse).collect() } }
fn show_op(o: &Op) -> String {
    match o {
        Op::Conn(a, n) => format!("c:{a}:{n}"),
        Op::Upd(k, u) => format!("u:{k}:{}:{}:{}", u.attr, show_list(&u.ann), show_list(&u.wd)),
        Op::Notif(k) => format!("n:{k}"), Op::Fin(k) => format!("x:{k}"), Op::Rst(k) => format!("r:{k}"),
        Op::Garbage(k, w) => format!("g:{k}:{w}"), Op::Hold(k) => format!("h:{k}"), Op::Terminate => "t".into(),
        Op::Reconf(c, l, a) => format!("R:{c}:{l}:{a}"), Op::AcceptErr => "A".into(), Op::BindFail => "F".into(),
    }
}
fn parse_op(s: &str) -> Option<Op> {
    let p: Vec<&str> = s.split(':').collect();
    let k = || -> Option<usize> { p.get(1)?.parse().ok() };
    Some(match p[0] {
        "c" if p.len() == 3 => Op::Conn(p[1].parse().ok()?, p[2].parse().ok()?),
        "u" if p.len() == 5 => Op::Upd(k()?, Upd { attr: p[2].parse().ok()?, ann: parse_list(p[3])?, wd: parse_list(p[4])?, mp4: false, corrupt: 0 }),
        "n" => Op::Notif(k()?), "x" => Op::Fin(k()?), "r" => Op::Rst(k()?), "g" => Op::Garbage(k()?, p.get(2)?.parse().ok()?), "h" => Op::Hold(k()?),
        "t" => Op::Terminate,
        "R" if p.len() == 4 => Op::Reconf(k()?, p[2].parse().ok()?, p[3].parse().ok()?),
        "A" => Op::AcceptErr, "F" => Op::BindFail,
        _ => return None,
    })
}
fn show_cfg(c: &[Entry]) -> String { if c.is_empty() { "-".into() } else { join(c.iter().map(show_entry), " ") } }
fn show_case(scn: &Scn) -> String {
    format!("M|{}|{}|{}|{}", scn.link as u8, scn.startfail as u8, join(scn.cfgs.iter().map(|c| show_cfg(c)), " ; "), join(scn.ops.iter().map(show_op), " "))
}
fn parse_case(line: &str) -> Option<Scn> {
    let f: Vec<&str> = line.split('|').collect();
    if f.len() != 5 || f[0] != "M" { return None; }
    let cfgs = f[3].split(';').map(|c| if c.trim() == "-" { Some(vec![]) } else { c.split_whitespace().map(parse_entry).collect::<Option<Vec<_>>>() }).collect::<Option<Vec<_>>>()?;
    if cfgs.is_empty() { return None; }
    let ops = f[4].split_whitespace().map(parse_op).collect::<Option<Vec<_>>>()?;
    Some(Scn { link: f[1].trim() == "1", startfail: f[2].trim() == "1", cfgs, ops })
}

fn toml_of(cfg: &[Entry], port: u16, asn_idx: u8) -> String {
    let mut s = format!("listen = \"127.0.0.1:{port}\"\nmy_asn = {}\nmy_bgp_id = [9, 9, 9, 9]\n", 64999 - asn_idx as u32);
    for (i, e) in cfg.iter().enumerate() {
        let k = match &e.key { Key::Exact(a) => format!("{}", ip_of(*a)), Key::Prefix(l, b) => format!("{}/{}", ip_of(if *l == 0 { 0 } else { b << (32 - *l as u32) }), l) };
        s.push_str(&format!("\n[peers.\"{k}\"]\nname = \"n{i}\"\n"));
        match &e.asns { Asns::One(n) => s.push_str(&format!("remote_asn = {n}\n")), Asns::Many(v) => s.push_str(&format!("remote_asn = [{}]\n", join(v.iter(), ", "))) }
        if e.hold != 0 { s.push_str(&format!("hold_time = {}\n", e.hold)); }
        s.push_str("protocols = [\"Ipv4Unicast\", \"Ipv6Unicast\", \"Ipv4Multicast\", \"Ipv6Multicast\"]\n");
    }
    s
}

// ------------------------------------------------------------------ BGP bytes (as in the bgpin engine)

fn hdr(ty: u8, body: &[u8]) -> Vec<u8> {
    let mut v = vec![0xFF; 16];
    v.extend_from_slice(&((19 + body.len()) as u16).to_be_bytes());
    v.push(ty);
    v.extend_from_slice(body);
    v
}
fn open_bytes(asn: u32, hold: u16, id: [u8; 4]) -> Vec<u8> {
    let mut caps = vec![];
    for (afi, safi) in [(1u16, 1u8), (2, 1), (1, 2), (2, 2)] { caps.extend_from_slice(&[1, 4]); caps.extend_from_slice(&afi.to_be_bytes()); caps.extend_from_slice(&[0, safi]); }
    caps.extend_from_slice(&[65, 4]);
    caps.extend_from_slice(&asn.to_be_bytes());
    let mut b = vec![4];
    b.extend_from_slice(&(if asn > 65535 { 23456u16 } else { asn as u16 }).to_be_bytes());
    b.extend_from_slice(&hold.to_be_bytes());
    b.extend_from_slice(&id);
    b.push((caps.len() + 2) as u8);
    b.push(2);
    b.push(caps.len() as u8);
    b.extend_from_slice(&caps);
    hdr(1, &b)
}
fn keepalive() -> Vec<u8> { hdr(4, &[]) }
fn notification() -> Vec<u8> { hdr(3, &[6, 2]) }

#[derive(Debug)]
enum Frame { Msg(u8, Vec<u8>), Eof, Timeout }

async fn read_frame(s: &mut TcpStream, wait: Duration) -> Frame {
    let mut h = [0u8; 19];
    match tokio::time::timeout(wait, s.read_exact(&mut h)).await {
        Err(_) => return Frame::Timeout,
        Ok(Err(_)) => return Frame::Eof,
        Ok(Ok(_)) => {}
    }
    let len = u16::from_be_bytes([h[16], h[17]]) as usize;
    let mut body = vec![0u8; len.saturating_sub(19)];
    match tokio::time::timeout(Duration::from_secs(2), s.read_exact(&mut body)).await {
        Ok(Ok(_)) => Frame::Msg(h[18], body),
        _ => Frame::Eof,
    }
}

/// Reads whatever the unit has sent on `s` until it closes the connection; `true` = closed within `limit`.
async fn closed_by_unit(s: &mut TcpStream, limit: Duration) -> bool {
    let t = Instant::now();
    loop {
        match read_frame(s, Duration::from_millis(5)).await {
            Frame::Eof => return true,
            Frame::Timeout => if t.elapsed() > limit { return false; },
            Frame::Msg(..) => {}
        }
    }
}

// ------------------------------------------------------------------ the exposition, as /metrics renders it

#[derive(Clone, Debug, Default, PartialEq)]
struct Snap { bound: u64, accepted: u64, lost: u64, disc: u64, gu: u64, gd: u64, gs: Option<u64>, errs: Vec<String> }

impl Snap {
    fn rec(&self) -> String { format!("{},{},{},{},{},{},{}", self.bound, self.accepted, self.lost, self.disc, self.gu, self.gd, self.gs.map(|v| v.to_string()).unwrap_or("-".into())) }
}

fn exposition(src: &Arc<dyn Source>) -> String {
    let mut t = Target::new(OutputFormat::Prometheus);
    src.append(UNIT, &mut t);
    t.into_string()
}

const COUNTERS: [(&str, &str); 6] = [
    ("bound", "bgp_tcp_in_listener_bound_count"), ("accepted", "bgp_tcp_in_connection_accepted_count"),
    ("lost", "bgp_tcp_in_connection_lost_count"), ("disc", "bgp_tcp_in_disconnect_count"),
    ("gu", "num_updates"), ("gd", "num_dropped_updates"),
];

fn parse_exposition(text: &str) -> Snap {
    let mut s = Snap::default();
    let mut samples: BTreeMap<String, String> = BTreeMap::new();
    let mut help: BTreeMap<String, usize> = BTreeMap::new();
    let mut types: BTreeMap<String, String> = BTreeMap::new();
    for line in text.lines() {
        if line.is_empty() { continue; }
        if let Some(r) = line.strip_prefix("# HELP ") { *help.entry(r.split(' ').next().unwrap_or("").to_string()).or_insert(0) += 1; continue; }
        if let Some(r) = line.strip_prefix("# TYPE ") {
            let mut it = r.split(' ');
            let n = it.next().unwrap_or("").to_string();
            if types.insert(n.clone(), it.next().unwrap_or("").to_string()).is_some() { s.errs.push(format!("second-TYPE:{n}")); }
            continue;
        }
        if line.starts_with('#') { continue; }
        let Some((lhs, val)) = line.rsplit_once(' ') else { s.errs.push(format!("unparsable-line:{}", line.replace(' ', "_"))); continue };
        let (name, labels) = match lhs.split_once('{') { Some((n, l)) => (n, l.trim_end_matches('}')), None => (lhs, "") };
        if labels != format!("component=\"{UNIT}\"") { s.errs.push(format!("labels:{name}:{}", labels.replace(' ', "_"))); }
        if samples.insert(name.to_string(), val.to_string()).is_some() { s.errs.push(format!("duplicate-sample:{name}")); }
    }
    for (n, c) in &help { if *c != 1 { s.errs.push(format!("HELP-lines:{n}:{c}")); } }
    let find = |suffix: &str| -> Option<(&String, &String)> { samples.iter().find(|(k, _)| k.strip_prefix("rotonda_").map(|r| r == suffix || r.strip_suffix("_total") == Some(suffix)).unwrap_or(false)) };
    let mut get = |short: &str, suffix: &str, want_type: &str, errs: &mut Vec<String>| -> Option<u64> {
        match find(suffix) {
            None => { if short != "gs" { errs.push(format!("missing:{suffix}")); } None }
            Some((k, v)) => {
                if types.get(k).map(|t| t.as_str()) != Some(want_type) { errs.push(format!("type:{k}:{}", types.get(k).cloned().unwrap_or("none".into()))); }
                if help.get(k).is_none() { errs.push(format!("no-HELP:{k}")); }
                match v.parse::<u64>() { Ok(n) => Some(n), Err(_) => { errs.push(format!("value:{k}:{v}")); None } }
            }
        }
    };
    let mut errs = vec![];
    s.bound = get("bound", COUNTERS[0].1, "counter", &mut errs).unwrap_or(u64::MAX);
    s.accepted = get("accepted", COUNTERS[1].1, "counter", &mut errs).unwrap_or(u64::MAX);
    s.lost = get("lost", COUNTERS[2].1, "counter", &mut errs).unwrap_or(u64::MAX);
    s.disc = get("disc", COUNTERS[3].1, "counter", &mut errs).unwrap_or(u64::MAX);
    s.gu = get("gu", COUNTERS[4].1, "counter", &mut errs).unwrap_or(u64::MAX);
    s.gd = get("gd", COUNTERS[5].1, "counter", &mut errs).unwrap_or(u64::MAX);
    s.gs = get("gs", "update_set_size", "gauge", &mut errs);
    // the wall-clock pair: present, parsable
    match find("since_last_update_seconds").or_else(|| find("since_last_update")) { Some((_, v)) => if v.parse::<i64>().is_err() { errs.push(format!("value:since_last_update:{v}")); }, None => errs.push("missing:since_last_update".into()) }
    s.errs.extend(errs);
    s
}

// ------------------------------------------------------------------ one case on the real code

/// `shut`: the unit closed this connection at termination and the peer has seen it; the peer's socket is kept (the
/// model's `copen`), what it still sends goes nowhere and is answered without touching the network
struct Conn { stream: Option<TcpStream>, matched: Option<Entry>, main: (u8, u8), shut: bool }

#[derive(Clone, Debug, Default)]
struct Step { tok: String, snap: Snap, closed: Vec<usize>, binds: usize, bind_attempts: usize }

struct Raw { steps: Vec<Step>, late: Option<Snap>, panicked: bool, discard: Option<String>, text: String }

async fn wait_until(limit: Duration, mut f: impl FnMut() -> bool) -> bool {
    let t = Instant::now();
    loop {
        if f() { return true; }
        if t.elapsed() > limit { return false; }
        tokio::time::sleep(Duration::from_millis(1)).await;
    }
}

static NEXT_PORT: std::sync::atomic::AtomicUsize = std::sync::atomic::AtomicUsize::new(0);
/// Ports 2000..9999 (the bgpin engine of another check may run at the same time on 10000..62499), a slot per
/// process, never handed out twice within a process before the counter wraps, and bindable right now.
fn free_port() -> u16 {
    loop {
        let n = NEXT_PORT.fetch_add(1, std::sync::atomic::Ordering::SeqCst);
        let base = verif_harness::port_slot(2000);
        let port = (base + n % 2000) as u16;
        if std::net::TcpListener::bind(("127.0.0.1", port)).is_ok() { return port; }
    }
}

const SETTLE: Duration = Duration::from_millis(250);
const ARRIVE: Duration = Duration::from_secs(6);

async fn run_async(scn: &Scn) -> Raw {
    let fail = |why: &str| Raw { steps: vec![], late: None, panicked: false, discard: Some(why.to_string()), text: String::new() };
    let reg = Arc::new(ving::new_register());
    let collected: Arc<Mutex<Vec<Update>>> = Arc::new(Mutex::new(vec![]));
    let mut started = None;
    let mut ports = [0u16; 2];
    for _ in 0..20 {
        ports = [free_port(), free_port()];
        let cfg = match hook_in::parse_unit(&toml_of(&scn.cfgs[0], ports[0], 0)) { Ok(c) => c, Err(e) => return fail(&format!("bad-config:{}", e.replace(|c: char| c.is_whitespace() || c == '|', "_"))) };
        let (mu, mut link) = hook::start(cfg, reg.clone(), UNIT, scn.startfail as usize);
        let mut keep = None;
        if scn.link {
            let c2 = collected.clone();
            let target = Arc::new(FnTarget(Arc::new(move |u: Update| { c2.lock().unwrap().push(u); })));
            link.set_direct_update_target(target.clone());
            let _ = link.connect(false).await;
            keep = Some((link, target));
        }
        // our own unit says it is listening (a failed first bind costs the unit's 1 s back-off)
        let ok = wait_until(if scn.startfail { Duration::from_secs(5) } else { Duration::from_millis(1500) }, || mu.unit.listener_bound_count() >= 1).await;
        if ok { started = Some((mu, keep)); break; }
        mu.unit.task.abort();
    }
    let Some((mu, _keep)) = started else { return fail("no-listener") };
    let src = mu.metrics_source();
    let snap = || parse_exposition(&exposition(&src));
    let faults = mu.faults.clone();
    let attempts = || faults.bind_attempts.load(std::sync::atomic::Ordering::SeqCst);
    let mut conns: Vec<Conn> = vec![];
    let mut steps: Vec<Step> = vec![];
    let first = snap();
    steps.push(Step { tok: "start".into(), snap: first, closed: vec![], binds: mu.unit.listener_bound_count(), bind_attempts: attempts() });
    let mut terminated = false;
    let mut agent: Option<rotonda::comms::GateAgent> = None; // the newest agent after a reconfigure
    let mut port = ports[0];
    let mut cur_cfg = 0usize;
    let mut cur_main = (0u8, 0u8);
    let mut guard: Vec<TcpSocket> = vec![];
    let mut port_lost = false;
    for op in scn.ops.iter() {
        let before = snap();
        let mut closed: Vec<usize> = vec![];
        let tok: String = match op {
            Op::Conn(addr, asn) if port_lost => { conns.push(Conn { stream: None, matched: None, main: cur_main, shut: false }); "port-lost".into() }
            Op::Conn(addr, asn) => {
                let sock = TcpSocket::new_v4().unwrap();
                let _ = sock.set_reuseaddr(true);
                let bound = sock.bind(SocketAddr::from((ip_of(*addr), 0)));
                let before_infos = (1..=200u32).filter(|i| reg.get(*i).is_some()).count();
                let res = match bound { Err(_) => None, Ok(()) => tokio::time::timeout(Duration::from_secs(2), sock.connect(SocketAddr::from(([127, 0, 0, 1], port)))).await.ok().and_then(|r| r.ok()) };
                match res {
                    None => { conns.push(Conn { stream: None, matched: None, main: cur_main, shut: false }); "refused".into() }
                    Some(mut s) => {
                        let _ = s.set_nodelay(true);
                        let _ = s.write_all(&open_bytes(*asn, 90, [10, 0, (*addr >> 8) as u8, *addr as u8])).await;
                        let mut got_open = false;
                        let mut got_ka = false;
                        let mut verdict = String::new();
                        let t = Instant::now();
                        loop {
                            if t.elapsed() > ARRIVE { verdict = "stuck".into(); break; }
                            match read_frame(&mut s, Duration::from_millis(5)).await {
                                Frame::Msg(1, _) => got_open = true,
                                Frame::Msg(4, _) => { if !got_ka { let _ = s.write_all(&keepalive()).await; } got_ka = true; }
                                Frame::Msg(3, b) => { verdict = format!("notif{}.{}", b.first().copied().unwrap_or(0), b.get(1).copied().unwrap_or(0)); }
                                Frame::Msg(_, _) => {}
                                Frame::Eof => { if verdict.is_empty() { verdict = if got_open { "rejected".into() } else { "nocfg".into() }; } break; }
                                Frame::Timeout => {
                                    if got_open && got_ka && verdict.is_empty() && (1..=200u32).filter(|i| reg.get(*i).is_some()).count() > before_infos { verdict = "neg".into(); break; }
                                }
                            }
                        }
                        let est = verdict == "neg";
                        let v = match verdict.as_str() { "notif2.2" => "badas".to_string(), "notif6.5" => "rejected".to_string(), x => x.to_string() };
                        conns.push(Conn { stream: if est { Some(s) } else { None }, matched: spec_match(&scn.cfgs[cur_cfg], *addr).cloned(), main: cur_main, shut: false });
                        v
                    }
                }
            }
            Op::Upd(k, _) if conns.get(*k).map(|c| c.shut && c.stream.is_some()).unwrap_or(false) => "lostupd".into(),
            Op::Notif(k) if conns.get(*k).map(|c| c.shut && c.stream.is_some()).unwrap_or(false) => "notified".into(),
            Op::Fin(k) | Op::Rst(k) | Op::Garbage(k, _) | Op::Hold(k) if conns.get(*k).map(|c| c.shut && c.stream.is_some()).unwrap_or(false) => { conns[*k].stream = None; "noend".into() }
            Op::Upd(k, u) => {
                match conns.get_mut(*k).and_then(|c| c.stream.as_mut()) {
                    None => "nc".into(),
                    Some(s) => {
                        let (pdu, _pas) = encode_update(u).unwrap();
                        let sent = s.write_all(&pdu).await.is_ok();
                        // quiescent once the gate has counted the update (GateMetrics::update runs after the deliveries)
                        let arrived = sent && wait_until(if terminated { SETTLE } else { ARRIVE }, || snap().gu > before.gu).await;
                        if arrived { "sent".into() } else { "lostupd".into() }
                    }
                }
            }
            Op::Notif(k) => match conns.get_mut(*k).and_then(|c| c.stream.as_mut()) {
                None => "nc".into(),
                Some(s) => { let _ = s.write_all(&notification()).await; tokio::time::sleep(Duration::from_millis(15)).await; "notified".into() }
            },
            Op::Fin(k) | Op::Rst(k) | Op::Garbage(k, _) => {
                match conns.get_mut(*k) {
                    Some(c) if c.stream.is_some() => {
                        let mut s = c.stream.take().unwrap();
                        match op {
                            Op::Rst(_) => { let _ = s.set_linger(Some(Duration::from_secs(0))); drop(s); }
                            Op::Garbage(_, kind) => {
                                let mut b = vec![0xFF; 16];
                                if *kind == 0 { b.extend_from_slice(&[0, 7, 2]); } else { b.extend_from_slice(&[0, 19, 9]); }
                                let _ = s.write_all(&b).await;
                                // keep the socket open: only the bytes can end the session; the unit closes it if it ends it
                                if closed_by_unit(&mut s, if *kind == 0 || terminated { SETTLE } else { ARRIVE }).await { closed.push(*k); }
                                drop(s);
                            }
                            _ => { let _ = s.shutdown().await; drop(s); }
                        }
                        // the session's end is complete once its Withdraw went through the gate (last step of the epilogue)
                        let ended = wait_until(if matches!(op, Op::Garbage(_, 0)) && !terminated { SETTLE } else { ARRIVE }, || snap().gu > before.gu).await;
                        if ended { "ended".into() } else { "noend".into() }
                    }
                    _ => "nc".into(),
                }
            }
            Op::Hold(k) => {
                match conns.get_mut(*k) {
                    Some(c) if c.stream.is_some() => {
                        let mut s = c.stream.take().unwrap();
                        let t = Instant::now();
                        let mut expired = false;
                        let mut eof = false;
                        while t.elapsed() < Duration::from_secs(10) {
                            match read_frame(&mut s, Duration::from_millis(100)).await {
                                Frame::Msg(3, b) if b.first() == Some(&4) => { expired = true; }
                                Frame::Eof => { eof = true; break; }
                                _ => { if expired { break; } }
                            }
                        }
                        if expired && !eof { eof = closed_by_unit(&mut s, SETTLE).await; }
                        if eof { closed.push(*k); }
                        let ended = wait_until(SETTLE, || snap().gu > before.gu).await;
                        drop(s);
                        let ended = ended || wait_until(SETTLE, || snap().gu > before.gu).await;
                        format!("{}{}", if expired { "expired" } else { "noexpiry" }, if ended { "-ended" } else { "-noend" })
                    }
                    _ => "nc".into(),
                }
            }
            Op::Terminate => {
                if terminated { "nc".into() } else {
                    terminated = true;
                    let open: Vec<usize> = conns.iter().enumerate().filter(|(_, c)| c.stream.is_some()).map(|(i, _)| i).collect();
                    match &agent { Some(a) => a.terminate().await, None => mu.unit.agent.terminate().await }
                    wait_until(ARRIVE, || mu.unit.task.is_finished()).await;
                    for p in [port] { match TcpSocket::new_v4() { Ok(g) => match { let _ = g.set_reuseaddr(true); g.bind(SocketAddr::from(([127, 0, 0, 1], p))) } { Ok(()) => guard.push(g), Err(_) => port_lost = true }, Err(_) => port_lost = true } }
                    // every session that was up ends: the unit closes the connection and sends its Withdraw through the gate
                    for k in &open { if let Some(s) = conns[*k].stream.as_mut() { if closed_by_unit(s, ARRIVE).await { closed.push(*k); } } }
                    for k in &closed { conns[*k].shut = true; }
                    let n = closed.len() as u64;
                    wait_until(if n > 0 { ARRIVE } else { SETTLE }, || snap().gu >= before.gu + n.max(1)).await;
                    format!("term-{}", if mu.unit.task.is_finished() { "unit-ended" } else { "unit-running" })
                }
            }
            Op::Reconf(ci, l, a) => {
                if terminated { "nc".into() } else {
                    let new_port = ports[(*l as usize) % 2];
                    match hook_in::parse_unit(&toml_of(&scn.cfgs[*ci % scn.cfgs.len()], new_port, *a)) {
                        Err(_) => "bad-config".into(),
                        Ok(new_unit) => {
                            let want = hook::config_debug(&new_unit);
                            let open: Vec<usize> = conns.iter().enumerate().filter(|(_, c)| c.stream.is_some()).map(|(i, _)| i).collect();
                            let r = match &agent { Some(a) => hook::reconfigure_via(a, new_unit).await, None => hook::reconfigure_via(&mu.unit.agent, new_unit).await };
                            match r {
                                Err(_) => "reconf-refused".into(),
                                Ok(new_agent) => {
                                    agent = Some(new_agent);
                                    // the accept loop has switched to the new configuration …
                                    let switched = wait_until(ARRIVE, || mu.current_config_debug() == want).await;
                                    // … and, if the listen address changed, is listening there
                                    let rebound = if new_port != port { wait_until(ARRIVE, || snap().bound > before.bound).await } else { true };
                                    port = new_port;
                                    // which sessions did the unit end? Each peer looks at its own connection: those the stated design
                                    // ends (changed unit config, changed or removed peer config) are awaited, the others only probed
                                    let ci = *ci % scn.cfgs.len();
                                    for k in &open {
                                        let must = reconf_verdict(&scn.cfgs, &conns[*k].matched, conns[*k].main, ci, (*l, *a)).is_some();
                                        if let Some(s) = conns[*k].stream.as_mut() { if closed_by_unit(s, if must { ARRIVE } else { Duration::from_millis(3) }).await { closed.push(*k); } }
                                    }
                                    for k in &closed { conns[*k].stream = None; }
                                    cur_cfg = ci;
                                    cur_main = (*l, *a);
                                    let n = closed.len() as u64;
                                    if n > 0 { wait_until(ARRIVE, || snap().gu >= before.gu + n).await; }
                                    format!("reconf{}{}", if switched { "" } else { "-not-switched" }, if rebound { "" } else { "-not-rebound" })
                                }
                            }
                        }
                    }
                }
            }
            Op::AcceptErr => {
                if terminated { "nc".into() } else {
                    let e0 = faults.accept_errors.load(std::sync::atomic::Ordering::SeqCst);
                    faults.accept_error.notify_one();
                    let seen = wait_until(ARRIVE, || faults.accept_errors.load(std::sync::atomic::Ordering::SeqCst) > e0).await;
                    // quiescent once the unit listens again
                    let again = seen && wait_until(ARRIVE, || snap().bound > before.bound).await;
                    if again { "accerr".into() } else if seen { "accerr-not-rebound".into() } else { "accerr-not-taken".into() }
                }
            }
            Op::BindFail => { if terminated { "nc".into() } else { faults.bind_failures.fetch_add(1, std::sync::atomic::Ordering::SeqCst); "armed".into() } }
        };
        tokio::time::sleep(Duration::from_millis(2)).await;
        steps.push(Step { tok, snap: snap(), closed, binds: mu.unit.listener_bound_count(), bind_attempts: attempts() });
    }
    // stragglers (nothing should change any more)
    tokio::time::sleep(Duration::from_millis(25)).await;
    let last = snap();
    let late = if Some(&last) != steps.last().map(|s| &s.snap) { Some(last) } else { None };
    let panicked = mu.unit.task.is_finished() && !terminated;
    let text = exposition(&src);
    mu.unit.task.abort();
    drop(conns);
    drop(guard);
    let _ = collected;
    Raw { steps, late, panicked, discard: if port_lost { Some("port-lost".into()) } else { None }, text }
}

// ------------------------------------------------------------------ panics (per case, by runtime thread name)

static CASE_NO: std::sync::atomic::AtomicUsize = std::sync::atomic::AtomicUsize::new(0);
static PANICS: Mutex<Vec<(String, String)>> = Mutex::new(Vec::new());

fn install_panic_hook() {
    let loud = std::env::var("VERIF_PANICS").is_ok();
    let default = std::panic::take_hook();
    std::panic::set_hook(Box::new(move |info| {
        let t = std::thread::current().name().unwrap_or("").to_string();
        let loc = info.location().map(|l| { let f = l.file(); let f = f.rsplit("/src/").next().unwrap_or(f); format!("{}:{}", f, l.line()) }).unwrap_or_default();
        let msg = info.payload().downcast_ref::<String>().cloned().or_else(|| info.payload().downcast_ref::<&str>().map(|s| s.to_string())).unwrap_or_default();
        PANICS.lock().unwrap().push((t, format!("{} {}", loc, msg.split_whitespace().take(4).collect::<Vec<_>>().join("-"))));
        if loud { default(info); }
    }));
}

// ------------------------------------------------------------------ oracle: the ledger

/// The ledger's own reading of a configuration: an exact entry for the address, else the longest prefix entry.
fn spec_match<'a>(cfg: &'a [Entry], addr: u32) -> Option<&'a Entry> {
    if let Some(e) = cfg.iter().find(|e| e.key == Key::Exact(addr)) { return Some(e); }
    cfg.iter().filter(|e| matches!(&e.key, Key::Prefix(l, b) if (*l == 0 || addr >> (32 - *l as u32) == *b))).max_by_key(|e| match &e.key { Key::Prefix(l, _) => *l, _ => 0 })
}

/// The design stated in router_handler.rs: a changed unit config (listen address, own AS, BGP id) reconnects every
/// peer, a changed peer config (AS policy, hold time) that peer, a removed peer that peer; "the peer's config" is the
/// entry the connection matched when it was accepted (a more specific entry that appears later is not looked at).
/// `None` = the session stays.
fn reconf_verdict(cfgs: &[Vec<Entry>], matched: &Option<Entry>, conn_main: (u8, u8), new_ci: usize, new_main: (u8, u8)) -> Option<&'static str> {
    if new_main != conn_main { return Some("unit-config-changed"); }
    let old = matched.as_ref()?;
    match cfgs[new_ci].iter().find(|e| e.key == old.key) {
        None => Some("deconfigured"),
        Some(n) => if old.asns != n.asns || old.hold != n.hold { Some("peer-config-changed") } else { None },
    }
}

/// Signatures of the listed findings, for ranking only (an unlisted signature is reported first).
const LISTED: [&str; 8] = [
    "bgpmetrics:connection_lost_count:peer-close-not-counted",
    "bgpmetrics:connection_lost_count:read-error-not-counted",
    "bgpmetrics:disconnect_count:duplicate-session-not-counted",
    "bgpmetrics:disconnect_count:unit-config-changed-not-counted",
    "bgpmetrics:disconnect_count:peer-config-changed-not-counted",
    "bgpmetrics:disconnect_count:hold-timer-expiry-not-counted",
    "bgpmetrics:disconnect_count:bad-peer-as-not-counted",
    "bgpmetrics:disconnect_count:framing-error-not-counted",
];

struct Outcome { case: String, imp: String, oracle: String, nontrivial: bool, notes: Vec<String>, discard: bool, steps: Vec<Step> }

fn run_scn(scn: &Scn) -> Outcome {
    let tname = format!("bgpmetrics-case-{}", CASE_NO.fetch_add(1, std::sync::atomic::Ordering::SeqCst));
    let rt = tokio::runtime::Builder::new_multi_thread().worker_threads(2).thread_name(tname.clone()).enable_all().build().unwrap();
    let raw = rt.block_on(run_async(scn));
    rt.shutdown_timeout(Duration::from_millis(200));
    let panics: Vec<String> = { let mut g = PANICS.lock().unwrap(); let (mine, rest): (Vec<_>, Vec<_>) = g.drain(..).partition(|(t, _)| *t == tname); *g = rest; mine.into_iter().map(|(_, m)| m).collect() };
    let case = show_case(scn);
    if let Some(why) = &raw.discard { return Outcome { case, imp: why.clone(), oracle: "ok".into(), nontrivial: false, notes: vec![], discard: true, steps: vec![] }; }
    let mut fails: Vec<String> = vec![];
    let mut notes: Vec<String> = vec![];
    if raw.panicked { fails.push("panic:unit-task-ended-without-termination".into()); }
    let short_frames = scn.ops.iter().filter(|o| matches!(o, Op::Garbage(_, 0))).count();
    for p in &panics {
        notes.push(format!("panic-{}", p.split_whitespace().next().unwrap_or("")));
        if !(p.starts_with("bgp/fsm/session.rs") && p.contains("subtract") && short_frames > 0) { fails.push(format!("panic:{}", p.replace(' ', "_"))); }
    }

    // ---- the ledger: per event, what the traffic implies for each metric
    #[derive(Clone)]
    struct L { up: bool, main: (u8, u8), matched: Option<Entry> }
    let mut led: Vec<L> = vec![];
    let mut cur_cfg = 0usize;
    let mut cur_main = (0u8, 0u8);
    let mut linked = scn.link;
    let mut terminated = false;
    let mut last_bulk: Option<u64> = None;
    let s0 = &raw.steps[0];
    for e in &s0.snap.errs { fails.push(format!("bgpmetrics:exposition:{e}")); }
    if (s0.snap.bound, s0.snap.accepted, s0.snap.lost, s0.snap.disc, s0.snap.gu, s0.snap.gd, s0.snap.gs) != (1, 0, 0, 0, 0, 0, None) { fails.push(format!("bgpmetrics:start:not-fresh {}", s0.snap.rec())); }
    if s0.bind_attempts != 1 + scn.startfail as usize { fails.push(format!("bgpmetrics:listener_bound_count:bind-attempts-at-start {} attempts", s0.bind_attempts)); }
    let mut pending_bind_failures = 0usize;
    let mut attempts_expected = s0.bind_attempts;
    let mut ends = 0usize;
    let mut peer_ends = 0usize;
    for (opi, op) in scn.ops.iter().enumerate() {
        let prev = &raw.steps[opi].snap;
        let st = &raw.steps[opi + 1];
        let now = &st.snap;
        let tok = st.tok.as_str();
        let show = show_op(op);
        for e in &now.errs { fails.push(format!("bgpmetrics:exposition:{e}")); }
        // expected deltas: (bound, accepted, lost, disconnect, gate updates), with the mechanism to blame per metric
        let mut want_bound = 0u64;
        let mut want_acc = 0u64;
        let mut want_lost: Vec<&'static str> = vec![];   // one entry per connection the peer ended
        let mut want_disc: Vec<&'static str> = vec![];   // one entry per connection the unit ended
        let mut either: Vec<&'static str> = vec![];      // ended by the unit because of what the peer sent: lost or disconnect
        let mut want_gu = 0u64;
        let mut bulk: Option<u64> = None;
        match op {
            Op::Conn(a, _n) => {
                match tok {
                    "refused" | "port-lost" => { led.push(L { up: false, main: cur_main, matched: None }); }
                    "nocfg" => { want_acc = 1; led.push(L { up: false, main: cur_main, matched: None }); }
                    "badas" => { want_acc = 1; want_disc.push("bad-peer-as"); led.push(L { up: false, main: cur_main, matched: None }); }
                    "rejected" => { want_acc = 1; want_disc.push("duplicate-session"); led.push(L { up: false, main: cur_main, matched: None }); }
                    "neg" => { want_acc = 1; led.push(L { up: true, main: cur_main, matched: spec_match(&scn.cfgs[cur_cfg], *a).cloned() }); }
                    other => { fails.push(format!("lifecycle:connection-verdict {show} {other}")); led.push(L { up: false, main: cur_main, matched: None }); }
                }
                if terminated && tok != "refused" && tok != "port-lost" { fails.push(format!("lifecycle:accepted-after-termination {show} {tok}")); }
            }
            Op::Upd(k, u) => {
                let up = led.get(*k).map(|l| l.up).unwrap_or(false);
                match (up, tok) {
                    (true, "sent") => { want_gu = 1; bulk = Some((u.ann.len() + u.wd.len()) as u64); }
                    (false, "nc") | (false, "lostupd") => {}
                    _ => fails.push(format!("lifecycle:update-fate {show} {tok} up={up}")),
                }
            }
            Op::Notif(_) => {}
            Op::Fin(k) | Op::Rst(k) | Op::Garbage(k, _) | Op::Hold(k) => {
                let up = led.get(*k).map(|l| l.up).unwrap_or(false);
                if up {
                    led[*k].up = false;
                    ends += 1;
                    match op {
                        Op::Fin(_) => { want_lost.push("peer-close"); peer_ends += 1; }
                        Op::Rst(_) => { want_lost.push("read-error"); peer_ends += 1; }
                        Op::Garbage(..) => either.push("framing-error"),
                        _ => want_disc.push("hold-timer-expiry"),
                    }
                    want_gu = 1;
                    let ended = tok == "ended" || tok == "expired-ended";
                    if !ended {
                        // the session was not wound up at all (no Withdraw): C07's subject (bgp:session-end-without-cleanup:*), not a metric question
                        want_gu = 0;
                        notes.push(format!("end-without-cleanup-{}", tok));
                    }
                } else if tok != "nc" && !(terminated && tok == "noend") { fails.push(format!("lifecycle:end-of-closed-connection {show} {tok}")); }
            }
            Op::Terminate => {
                if !terminated {
                    terminated = true;
                    for (k, l) in led.iter_mut().enumerate() { if l.up { l.up = false; ends += 1; want_disc.push("unit-termination"); want_gu += 1; if !st.closed.contains(&k) { fails.push(format!("lifecycle:session-survived-termination connection {k}")); } } }
                    if tok != "term-unit-ended" { fails.push(format!("lifecycle:termination {tok}")); }
                }
            }
            Op::Reconf(ci, l, a) => {
                if !terminated {
                    let ci = *ci % scn.cfgs.len();
                    let new_main = (*l, *a);
                    if new_main.0 != cur_main.0 { want_bound = 1; }
                    for (k, s) in led.iter_mut().enumerate() {
                        if !s.up { continue; }
                        let why = reconf_verdict(&scn.cfgs, &s.matched, s.main, ci, new_main);
                        let was_closed = st.closed.contains(&k);
                        match why {
                            Some(w) => { if was_closed { s.up = false; ends += 1; want_disc.push(w); want_gu += 1; } else { fails.push(format!("lifecycle:session-survived-reconfiguration connection {k} ({w})")); } }
                            None => { if was_closed { s.up = false; fails.push(format!("lifecycle:session-ended-by-unrelated-reconfiguration connection {k}")); } }
                        }
                    }
                    cur_cfg = ci;
                    cur_main = new_main;
                    linked = false; // a reconfigured gate has no subscribers until the downstream units link again
                    if tok != "reconf" { fails.push(format!("lifecycle:reconfiguration {tok}")); }
                }
            }
            Op::AcceptErr => { if !terminated { want_bound = 1; if tok != "accerr" { fails.push(format!("lifecycle:accept-error {tok}")); } } }
            Op::BindFail => { if !terminated { pending_bind_failures += 1; } }
        }
        // bind attempts: every successful bind is one attempt, every armed failure one more
        if want_bound > 0 { attempts_expected += want_bound as usize + pending_bind_failures; pending_bind_failures = 0; }
        if st.bind_attempts != attempts_expected { fails.push(format!("bgpmetrics:listener_bound_count:bind-attempts op {opi} {show}: {} attempts, expected {attempts_expected}", st.bind_attempts)); }
        // ---- judge the change of every metric
        let d = |a: u64, b: u64| a as i128 - b as i128;
        if now.bound < prev.bound || now.accepted < prev.accepted || now.lost < prev.lost || now.disc < prev.disc || now.gu < prev.gu || now.gd < prev.gd { fails.push(format!("bgpmetrics:counter-decreased op {opi} {show}: {} -> {}", prev.rec(), now.rec())); }
        if d(now.bound, prev.bound) != want_bound as i128 { fails.push(format!("bgpmetrics:listener_bound_count:{} op {opi} {show}: +{} expected +{want_bound}", if want_bound > 0 { "successful-bind-not-counted" } else { "changed-without-a-bind" }, d(now.bound, prev.bound))); }
        if d(now.accepted, prev.accepted) != want_acc as i128 { fails.push(format!("bgpmetrics:connection_accepted_count:{} op {opi} {show} ({tok}): +{} expected +{want_acc}", if want_acc > 0 { "connection-not-counted" } else { "changed-without-a-connection" }, d(now.accepted, prev.accepted))); }
        // several sessions can end in one event: the increments seen are credited first to the ends the code is known to
        // count (attribution only; the number of missing increments does not depend on it)
        want_disc.sort_by_key(|w| !matches!(*w, "deconfigured" | "unit-termination"));
        let dl = d(now.lost, prev.lost);
        let dd = d(now.disc, prev.disc);
        let nl = want_lost.len() as i128;
        let nd = want_disc.len() as i128;
        let ne = either.len() as i128;
        if dl < nl { for w in want_lost.iter().skip(dl.max(0) as usize) { fails.push(format!("bgpmetrics:connection_lost_count:{w}-not-counted op {opi} {show}: +{dl} expected +{nl}")); } }
        if dd < nd { for w in want_disc.iter().skip(dd.max(0) as usize) { fails.push(format!("bgpmetrics:disconnect_count:{w}-not-counted op {opi} {show}: +{dd} expected +{nd}")); } }
        let extra = (dl - nl).max(0) + (dd - nd).max(0);
        if extra > ne { if dl > nl && ne == 0 { fails.push(format!("bgpmetrics:connection_lost_count:counted-without-a-lost-connection op {opi} {show}: +{dl} expected +{nl}")); } if dd > nd && (ne == 0 || dl <= nl) { fails.push(format!("bgpmetrics:disconnect_count:counted-without-a-disconnect op {opi} {show}: +{dd} expected +{nd}")); } if ne > 0 && dl > nl && dd > nd { fails.push(format!("bgpmetrics:session-end-counted-twice op {opi} {show}: lost +{dl} disconnect +{dd}")); } }
        else if extra < ne { for w in either.iter().skip(extra as usize) { fails.push(format!("bgpmetrics:disconnect_count:{w}-not-counted op {opi} {show}: lost +{dl} disconnect +{dd}, one of them expected")); } }
        if d(now.gu, prev.gu) != want_gu as i128 { fails.push(format!("bgpmetrics:num_updates:{} op {opi} {show} ({tok}): +{} expected +{want_gu}", if d(now.gu, prev.gu) < want_gu as i128 { "update-not-counted" } else { "counted-without-an-update" }, d(now.gu, prev.gu))); }
        let want_gd = if linked { 0 } else { d(now.gu, prev.gu).max(0) };
        if d(now.gd, prev.gd) != want_gd { fails.push(format!("bgpmetrics:num_dropped_updates:{} op {opi} {show}: +{} expected +{want_gd}", if linked { "delivered-update-counted-as-dropped" } else { "undelivered-update-not-counted-as-dropped" }, d(now.gd, prev.gd))); }
        // set size: the size of the last Bulk that went through the gate (exported from the first update on; a session
        // withdrawal has no items and leaves it alone: GateMetrics::update, covered by ConnMetrics' C15conn_gate_exact)
        if let Some(b) = bulk { last_bulk = Some(b); }
        let want_gs = if now.gu == 0 { None } else { Some(last_bulk.unwrap_or(0)) };
        if now.gs != want_gs { fails.push(format!("bgpmetrics:update_set_size:not-the-last-bulk op {opi} {show}: {:?} expected {:?}", now.gs, want_gs)); }
        // conservation: what was accepted is open, or ended and counted at most once
        let open = led.iter().filter(|l| l.up).count() as u64;
        if now.lost + now.disc + open > now.accepted { fails.push(format!("bgpmetrics:conservation:more-ends-than-connections op {opi} {show}: lost {} + disconnect {} + open {open} > accepted {}", now.lost, now.disc, now.accepted)); }
    }
    if let Some(l) = &raw.late { fails.push(format!("bgpmetrics:late-change {} -> {}", raw.steps.last().map(|s| s.snap.rec()).unwrap_or_default(), l.rec())); }

    let mut imp = join(raw.steps.iter().map(|s| format!("{}@{}", s.tok, s.snap.rec())), " ");
    if let Some(l) = &raw.late { imp.push_str(&format!(" late@{}", l.rec())); }
    if !panics.is_empty() { imp = format!("{imp} ## panics: {}", panics.join("; ")); }
    let rank = |f: &String| -> usize { let sig = f.split_whitespace().next().unwrap_or(""); LISTED.iter().position(|l| *l == sig).map(|p| p + 1).unwrap_or(0) };
    fails.sort_by_key(rank);
    fails.dedup_by_key(|f| f.split_whitespace().next().unwrap_or("").to_string());
    for f in &fails { notes.push(format!("oracle-{}", f.split_whitespace().next().unwrap_or(""))); }
    let oracle = match fails.first() { None => "ok".to_string(), Some(f) => format!("fail {}{}", f, if fails.len() > 1 { format!(" (+{} more: {})", fails.len() - 1, join(fails[1..].iter().map(|x| x.split_whitespace().next().unwrap_or("").to_string()), ",")) } else { String::new() }) };
    let nontrivial = led.len() >= 2 && ends >= 1 && raw.steps.iter().any(|s| s.tok == "sent");
    for s in &raw.steps { notes.push(format!("tok-{}", s.tok)); }
    let _ = (peer_ends, &raw.text);
    Outcome { case, imp, oracle, nontrivial, notes, discard: false, steps: raw.steps }
}

// ------------------------------------------------------------------ generators

fn a4(b: u8, c: u8, d: u8) -> u32 { u32::from_be_bytes([127, b, c, d]) }

fn gen_asns(g: &mut Rng) -> Asns { match g.below(4) { 0 => Asns::One(65001 + g.below(3) as u32), 1 => Asns::Many(vec![65001, 65002]), 2 => Asns::Many(vec![65000 + g.below(4) as u32, 70000]), _ => Asns::Many(vec![]) } }

fn gen_cfg(g: &mut Rng) -> Vec<Entry> {
    let mut v: Vec<Entry> = vec![];
    for _ in 0..g.range(1, 5) {
        let key = match g.below(6) {
            0 | 1 => Key::Exact(a4(1, g.below(2) as u8, 1 + g.below(4) as u8)),
            2 => Key::Prefix(24, a4(1, g.below(2) as u8, 0) >> 8),
            3 => Key::Prefix(16, a4(1, 0, 0) >> 16),
            4 => Key::Prefix(32, a4(1, 0, 1 + g.below(3) as u8)),
            _ => Key::Prefix(30, a4(1, 0, 0) >> 2),
        };
        if v.iter().any(|e| e.key == key) { continue; }
        let a = gen_asns(g);
        v.push(Entry { key, asns: a, hold: 0 });
    }
    v
}

/// A later generation of a configuration: entries kept, changed (AS policy or hold time), removed, added.
fn mutate_cfg(g: &mut Rng, base: &[Entry]) -> Vec<Entry> {
    let mut v = vec![];
    for e in base {
        match g.below(5) {
            0 => {}
            1 => v.push(Entry { key: e.key.clone(), asns: gen_asns(g), hold: e.hold }),
            2 => v.push(Entry { key: e.key.clone(), asns: e.asns.clone(), hold: if e.hold == 0 { 120 } else { 0 } }),
            _ => v.push(e.clone()),
        }
    }
    if g.chance(1, 3) { for e in gen_cfg(g) { if !v.iter().any(|x| x.key == e.key) { v.push(e); break; } } }
    v
}

fn gen_upd(g: &mut Rng, pool: &[Pfx]) -> Upd {
    let fam6 = g.chance(1, 3);
    let cands: Vec<Pfx> = pool.iter().filter(|p| p.v6 == fam6).cloned().collect();
    let mut ann = vec![];
    let mut wd = vec![];
    for _ in 0..g.range(0, 4) { let p = cands[g.below(cands.len() as u64) as usize]; let n = Nlri { pfx: p, safi: Safi::U }; if !ann.contains(&n) { ann.push(n); } }
    for _ in 0..g.range(0, 2) { let p = cands[g.below(cands.len() as u64) as usize]; let n = Nlri { pfx: p, safi: Safi::U }; if !ann.contains(&n) && !wd.contains(&n) { wd.push(n); } }
    if ann.is_empty() && wd.is_empty() { ann.push(Nlri { pfx: cands[0], safi: Safi::U }); }
    Upd { attr: 1 + g.below(40) as u32, ann, wd, mp4: false, corrupt: 0 }
}

fn gen_scn(g: &mut Rng, pool: &[Pfx]) -> Scn {
    let with_reconf = g.chance(1, 3);
    let mut cfgs = vec![gen_cfg(g)];
    if with_reconf { for _ in 0..g.range(1, 2) { let b = cfgs[g.below(cfgs.len() as u64) as usize].clone(); cfgs.push(mutate_cfg(g, &b)); } }
    let mut ops = vec![];
    let mut nconn = 0usize;
    let mut cur = 0usize;
    let addrs = [a4(1, 0, 1), a4(1, 0, 2), a4(1, 0, 3), a4(1, 1, 1), a4(1, 1, 2), a4(2, 0, 1)];
    let n = g.range(6, 16);
    let mut slow = 0;
    // connections this generator has already ended (mostly avoided afterwards: 1 in 6 picks ignores the list)
    let mut gone: Vec<usize> = vec![];
    let pick = |g: &mut Rng, gone: &Vec<usize>, nconn: usize| -> usize {
        let live: Vec<usize> = (0..nconn).filter(|k| !gone.contains(k)).collect();
        if live.is_empty() || g.chance(1, 6) { g.below(nconn as u64) as usize } else { live[g.below(live.len() as u64) as usize] }
    };
    for _ in 0..n {
        let r = g.below(100);
        if nconn == 0 || r < 24 {
            let cfg = &cfgs[cur];
            let (a, asn) = if !cfg.is_empty() && g.chance(3, 4) {
                let e = &cfg[g.below(cfg.len() as u64) as usize];
                let a = match &e.key { Key::Exact(a) => *a, Key::Prefix(l, b) => { let base = if *l == 0 { 0 } else { b << (32 - *l as u32) }; if *l >= 31 { base } else { base | (1 + g.below(3) as u32) } } };
                let asn = match &e.asns { Asns::One(n) => *n, Asns::Many(v) if !v.is_empty() => v[g.below(v.len() as u64) as usize], _ => 65001 + g.below(3) as u32 };
                (a, if g.chance(1, 8) { 65009 } else { asn })
            } else { (addrs[g.below(addrs.len() as u64) as usize], 65001 + g.below(3) as u32) };
            ops.push(Op::Conn(a, asn));
            nconn += 1;
        } else if r < 60 { ops.push(Op::Upd(pick(g, &gone, nconn), gen_upd(g, pool))); }
        else if r < 64 { ops.push(Op::Notif(pick(g, &gone, nconn))); }
        else if r < 74 { let k = pick(g, &gone, nconn); gone.push(k); ops.push(Op::Fin(k)); }
        else if r < 81 { let k = pick(g, &gone, nconn); gone.push(k); ops.push(Op::Rst(k)); }
        else if r < 86 { let k = pick(g, &gone, nconn); gone.push(k); ops.push(Op::Garbage(k, if g.chance(1, 5) { 0 } else { 1 })); }
        else if r < 90 { ops.push(Op::AcceptErr); }
        else if r < 92 && slow < 1 { ops.push(Op::BindFail); ops.push(Op::AcceptErr); slow += 1; }
        else if r < 98 && with_reconf {
            let ci = g.below(cfgs.len() as u64) as usize;
            let (l, a) = match g.below(8) { 0 => (1, 0), 1 => (0, 1), _ => (0, 0) };
            ops.push(Op::Reconf(ci, l, a));
            cur = ci;
        }
        else if r >= 98 { ops.push(Op::Terminate); }
        else { ops.push(Op::Upd(pick(g, &gone, nconn), gen_upd(g, pool))); }
    }
    Scn { link: !with_reconf || g.chance(1, 2), startfail: g.chance(1, 40), cfgs, ops }
}

/// Hold-timer histories: the peer entry has `hold_time = 3`, so every session of that peer is silent for at most a few
/// quick events before its `h:` (or ends otherwise at once); nothing else in the case waits on the wall clock.
fn gen_hold_scn(g: &mut Rng, pool: &[Pfx]) -> Scn {
    let p = a4(1, 0, 1 + g.below(3) as u8);
    let q = a4(1, 1, 1);
    let mut cfg = vec![Entry { key: Key::Exact(p), asns: Asns::One(65001), hold: 3 }];
    if g.chance(1, 2) { cfg.push(Entry { key: Key::Prefix(24, q >> 8), asns: Asns::Many(vec![]), hold: 0 }); }
    let mut ops = vec![Op::Conn(p, 65001)];
    let mut n = 1usize;
    if g.chance(1, 2) { ops.push(Op::Upd(0, gen_upd(g, pool))); }
    if g.chance(1, 2) { ops.push(Op::Conn(q, 65002)); n += 1; if g.chance(1, 2) { ops.push(Op::Upd(1, gen_upd(g, pool))); } }
    ops.push(Op::Hold(0));
    if g.chance(2, 3) {
        ops.push(Op::Conn(p, 65001));
        let k = n;
        match g.below(4) { 0 => ops.push(Op::Fin(k)), 1 => ops.push(Op::Rst(k)), 2 => ops.push(Op::Hold(k)), _ => ops.push(Op::Terminate) }
    }
    Scn { link: g.chance(3, 4), startfail: false, cfgs: vec![cfg], ops }
}

fn witnesses(pool: &[Pfx]) -> Vec<(&'static str, Scn)> {
    let u = |attr: u32, ann: Vec<usize>, wd: Vec<usize>| Upd { attr, ann: ann.into_iter().map(|i| Nlri { pfx: pool[i], safi: Safi::U }).collect(), wd: wd.into_iter().map(|i| Nlri { pfx: pool[i], safi: Safi::U }).collect(), mp4: false, corrupt: 0 };
    let p1 = a4(1, 0, 1);
    let p2 = a4(1, 0, 2);
    let p3 = a4(1, 0, 3);
    let e = |key: Key, asns: Asns, hold: u16| Entry { key, asns, hold };
    let one = |cfg: Vec<Entry>, ops: Vec<Op>| Scn { link: true, startfail: false, cfgs: vec![cfg], ops };
    vec![
        ("fin", one(vec![e(Key::Exact(p1), Asns::One(65001), 0)], vec![Op::Conn(p1, 65001), Op::Upd(0, u(1, vec![0, 1], vec![])), Op::Fin(0)])),
        ("rst", one(vec![e(Key::Exact(p1), Asns::One(65001), 0)], vec![Op::Conn(p1, 65001), Op::Upd(0, u(2, vec![0], vec![])), Op::Rst(0)])),
        ("dup", one(vec![e(Key::Exact(p1), Asns::One(65001), 0)], vec![Op::Conn(p1, 65001), Op::Conn(p1, 65001)])),
        ("badas", one(vec![e(Key::Exact(p1), Asns::One(65001), 0)], vec![Op::Conn(p1, 65002), Op::Conn(p2, 65001)])),
        ("hold", one(vec![e(Key::Exact(p1), Asns::One(65001), 3)], vec![Op::Conn(p1, 65001), Op::Hold(0)])),
        ("frame0", one(vec![e(Key::Exact(p1), Asns::One(65001), 0)], vec![Op::Conn(p1, 65001), Op::Garbage(0, 0)])),
        ("frame1", one(vec![e(Key::Exact(p1), Asns::One(65001), 0)], vec![Op::Conn(p1, 65001), Op::Upd(0, u(3, vec![0, 1, 2], vec![])), Op::Garbage(0, 1)])),
        ("term", one(vec![e(Key::Prefix(16, p1 >> 16), Asns::Many(vec![]), 0)], vec![Op::Conn(p1, 65001), Op::Conn(p2, 65002), Op::Upd(1, u(4, vec![0], vec![1])), Op::Terminate, Op::Conn(p3, 65001)])),
        // reconfiguration: p1 keeps its entry, p2's entry changes, p3's entry goes away; then the unit's own AS changes
        ("reconf-peer", Scn { link: true, startfail: false, cfgs: vec![
                vec![e(Key::Exact(p1), Asns::One(65001), 0), e(Key::Exact(p2), Asns::One(65002), 0), e(Key::Exact(p3), Asns::Many(vec![]), 0)],
                vec![e(Key::Exact(p1), Asns::One(65001), 0), e(Key::Exact(p2), Asns::Many(vec![65002]), 0)]],
            ops: vec![Op::Conn(p1, 65001), Op::Conn(p2, 65002), Op::Conn(p3, 65003), Op::Reconf(1, 0, 0), Op::Upd(0, u(5, vec![0], vec![]))] }),
        ("reconf-main", Scn { link: true, startfail: false, cfgs: vec![vec![e(Key::Exact(p1), Asns::One(65001), 0)]],
            ops: vec![Op::Conn(p1, 65001), Op::Reconf(0, 0, 1), Op::Conn(p1, 65001), Op::Reconf(0, 1, 1), Op::Conn(p1, 65001)] }),
        ("listener", Scn { link: false, startfail: true, cfgs: vec![vec![e(Key::Exact(p1), Asns::One(65001), 0)]],
            ops: vec![Op::Conn(p1, 65001), Op::AcceptErr, Op::Conn(p2, 65001), Op::BindFail, Op::AcceptErr, Op::Upd(0, u(6, vec![0, 1], vec![2])), Op::Fin(0)] }),
    ]
}

fn main() {
    let args = parse_args();
    let t0 = Instant::now();
    install_panic_hook();
    let pool = pool();
    let mut rec = Recorder::new("at least two connections, at least one session end, at least one UPDATE that went through the gate");
    let mut record = |rec: &mut Recorder, o: Outcome| {
        if o.discard { rec.bump("discarded.environment"); return; }
        for n in &o.notes { rec.bump(n); }
        rec.case(o.case, o.imp, o.oracle, o.nontrivial);
    };
    if let Some(path) = &args.replay {
        for line in replay_cases(path) { if let Some(scn) = parse_case(&line) { let o = run_scn(&scn); record(&mut rec, o); } }
        rec.finish(&args, t0.elapsed().as_secs_f64());
        return;
    }
    if args.rest.iter().any(|a| a == "--show") {
        for (name, s) in witnesses(&pool) { let o = run_scn(&s); println!("== {name}\ncase: {}\nimpl: {}\noracle: {}", o.case, o.imp, o.oracle); }
        return;
    }
    let ws = witnesses(&pool);
    let wh: Vec<_> = ws.into_iter().map(|(n, s)| std::thread::spawn(move || (n, run_scn(&s)))).collect();
    let budget = if args.thorough { Duration::from_secs(150) } else { Duration::from_secs(12) };
    let nthreads = 8usize;
    let seed = args.seed;
    let handles: Vec<_> = (0..nthreads).map(|ti| {
        let pool = pool.clone();
        std::thread::spawn(move || {
            let mut g = Rng::new(seed.wrapping_mul(1000).wrapping_add(ti as u64 + 1));
            let mut outs = vec![];
            while t0.elapsed() < budget { let scn = if g.chance(1, 40) { gen_hold_scn(&mut g, &pool) } else { gen_scn(&mut g, &pool) }; outs.push(run_scn(&scn)); }
            outs
        })
    }).collect();
    let mut variants: BTreeMap<&'static str, &'static str> = BTreeMap::new();
    for k in ["fsmdrop", "frame", "lostfin", "losterr", "discdup", "discmain", "discpeer"] { variants.insert(k, "as-written"); }
    for h in wh { if let Ok((name, o)) = h.join() {
        // defect-site variants, from the witnesses' own observations
        let last = o.steps.last().cloned().unwrap_or_default();
        let prev = if o.steps.len() >= 2 { o.steps[o.steps.len() - 2].clone() } else { Step::default() };
        match name {
            "fin" => if last.snap.lost > prev.snap.lost { variants.insert("lostfin", "repaired"); },
            "rst" => if last.snap.lost > prev.snap.lost { variants.insert("losterr", "repaired"); },
            "dup" => if last.snap.disc > prev.snap.disc { variants.insert("discdup", "repaired"); },
            "hold" => if last.tok == "expired-ended" { variants.insert("fsmdrop", "repaired"); },
            "frame0" => if last.tok == "ended" { variants.insert("frame", "repaired"); },
            "reconf-main" => if o.steps.len() > 2 && o.steps[2].snap.disc > o.steps[1].snap.disc { variants.insert("discmain", "repaired"); },
            "reconf-peer" => if o.steps.len() > 4 && o.steps[4].snap.disc >= o.steps[3].snap.disc + 2 { variants.insert("discpeer", "repaired"); },
            _ => {}
        }
        record(&mut rec, o);
    } }
    for h in handles { if let Ok(v) = h.join() { for o in v { record(&mut rec, o); } } }
    for (k, v) in &variants { rec.variant(k, v); }
    rec.finish(&args, t0.elapsed().as_secs_f64());
}
