//! Engine of the extraction ties (`checks/Xextract.json`, notes/Extract.md).
//!
//! The extraction tie needs no differential run: the Lean definitions under
//! `lean/RotondaModel/Generated/` are regenerated from /repo's source text by
//! `tools/extract_<area>.py` and the linking theorems (`Props/Extract*.lean`) are re-checked.
//! What this engine adds is the part the extractors cannot see in the text they read: the
//! *universe* of each table (the variants of the enum a `match` dispatches on) is hard-coded
//! in the extractors; here the same lists are written as exhaustive Rust `match`es over the real
//! types, so a variant added upstream (routecore's BMP `Message`, rotonda's `Update`,
//! `GateCommand`, …) stops this engine from compiling and `./check` reports the tie as broken.
//! Each universe is one case; the Lean driver prints the generated universe for the same case.
use std::time::Instant;
use verif_harness::{parse_args, replay_cases, Recorder};

/// the variants of routecore's `bmp::message::Message`, by an exhaustive match
fn bmp_kind(m: &routecore::bmp::message::Message<bytes::Bytes>) -> &'static str {
    use routecore::bmp::message::Message as M;
    match m {
        M::InitiationMessage(_) => "init",
        M::PeerUpNotification(_) => "peerUp",
        M::PeerDownNotification(_) => "peerDown",
        M::RouteMonitoring(_) => "routeMon",
        M::StatisticsReport(_) => "stats",
        M::RouteMirroring(_) => "mirror",
        M::TerminationMessage(_) => "term",
    }
}
const BMP_KINDS: [&str; 7] = ["init", "peerUp", "peerDown", "routeMon", "stats", "mirror", "term"];

/// the variants of rotonda's `payload::Update`
fn update_kind(u: &rotonda::payload::Update) -> &'static str {
    use rotonda::payload::{Update as U, UpstreamStatus};
    match u {
        U::Single(_) => "single",
        U::Bulk(_) => "bulk",
        U::Withdraw(_, _) => "withdraw",
        U::WithdrawBulk(_) => "withdrawBulk",
        U::QueryResult(_, _) => "queryResult",
        U::UpstreamStatusChange(UpstreamStatus::EndOfStream { .. }) => "upstreamStatus",
        U::OutputStream(_) => "outputStream",
    }
}
const UPDATE_KINDS: [&str; 7] = ["single", "bulk", "withdraw", "withdrawBulk", "queryResult", "upstreamStatus", "outputStream"];

/// routecore's `AfiSafiType` (one plain and one ADD-PATH `Nlri` variant each), with the numbers of its table
fn afisafi_name(t: routecore::bgp::nlri::afisafi::AfiSafiType) -> Option<&'static str> {
    use routecore::bgp::nlri::afisafi::AfiSafiType as T;
    match t {
        T::Ipv4Unicast => Some("Ipv4Unicast"), T::Ipv4Multicast => Some("Ipv4Multicast"),
        T::Ipv4MplsUnicast => Some("Ipv4MplsUnicast"), T::Ipv4MplsVpnUnicast => Some("Ipv4MplsVpnUnicast"),
        T::Ipv4RouteTarget => Some("Ipv4RouteTarget"), T::Ipv4FlowSpec => Some("Ipv4FlowSpec"),
        T::Ipv6Unicast => Some("Ipv6Unicast"), T::Ipv6Multicast => Some("Ipv6Multicast"),
        T::Ipv6MplsUnicast => Some("Ipv6MplsUnicast"), T::Ipv6MplsVpnUnicast => Some("Ipv6MplsVpnUnicast"),
        T::Ipv6FlowSpec => Some("Ipv6FlowSpec"), T::L2VpnVpls => Some("L2VpnVpls"), T::L2VpnEvpn => Some("L2VpnEvpn"),
        T::Unsupported(_, _) => None,
    }
}
fn afisafi_universe() -> String {
    use routecore::bgp::nlri::afisafi::AfiSafiType as T;
    let all = [T::Ipv4Unicast, T::Ipv4Multicast, T::Ipv4MplsUnicast, T::Ipv4MplsVpnUnicast, T::Ipv4RouteTarget, T::Ipv4FlowSpec,
        T::Ipv6Unicast, T::Ipv6Multicast, T::Ipv6MplsUnicast, T::Ipv6MplsVpnUnicast, T::Ipv6FlowSpec, T::L2VpnVpls, T::L2VpnEvpn];
    all.iter().map(|t| { let (a, s): (u16, u8) = (*t).into(); format!("{}:{}:{}", afisafi_name(*t).unwrap(), a, s) }).collect::<Vec<_>>().join(" ")
}

/// the variants of routecore's `mrt::Bgp4Mp`
fn bgp4mp_kind<'a>(m: &routecore::mrt::Bgp4Mp<'a, &'a [u8]>) -> &'static str {
    use routecore::mrt::Bgp4Mp as B;
    match m {
        B::StateChange(_) => "StateChange",
        B::Message(_) => "Message",
        B::MessageAs4(_) => "MessageAs4",
        B::StateChangeAs4(_) => "StateChangeAs4",
    }
}
const BGP4MP_KINDS: [&str; 4] = ["StateChange", "Message", "MessageAs4", "StateChangeAs4"];

fn universe(area: &str) -> Option<String> {
    match area {
        "bmpdispatch" => { let _ = bmp_kind; Some(BMP_KINDS.join(" ")) }
        "ribupdate" => { let _ = update_kind; Some(UPDATE_KINDS.join(" ")) }
        "codecafi" => Some(afisafi_universe()),
        "mrtdispatch" => { let _ = bgp4mp_kind; Some(BGP4MP_KINDS.join(" ")) }
        _ => None,
    }
}

fn main() {
    let args = parse_args();
    let t0 = Instant::now();
    let mut rec = Recorder::new("a case names one extracted table; nontrivial = the engine knows that table's universe (enum variants pinned by an exhaustive Rust match)");
    let areas: Vec<String> = match &args.replay {
        Some(p) => replay_cases(p).into_iter().filter_map(|c| c.strip_prefix("universe ").map(|s| s.to_string())).collect(),
        None => ["bmpdispatch", "ribupdate", "codecafi", "mrtdispatch"].iter().map(|s| s.to_string()).collect(),
    };
    for a in areas {
        let u = universe(&a);
        rec.bump(&format!("universe.{}", a));
        rec.case(format!("universe {}", a), u.clone().unwrap_or_else(|| "unknown-area".into()), "ok".into(), u.is_some());
    }
    rec.finish(&args, t0.elapsed().as_secs_f64());
}
