//! GateReconf engine: the real `Gate` / clones / `Link` / `DirectLink` / `GateAgent` of
//! `src/comms.rs` across `Reconfigure`, vs the Lean LTS `Model/GateReconf.lean`.
//!
//! One case = one explicit schedule of operations (the third field of the case line) executed on
//! the real objects.  The root gate's `process()` loop runs on its own OS thread and is stopped
//! at the event tap that announces every command (`verif::gate::ev("cmd.*")`); every
//! `update_data` call runs on its own OS thread and is stopped before every delivery
//! (`update.deliver`).  Exactly one thread runs at a time (hand-over through a condvar), the
//! main thread performs all link / agent / clone operations itself, and the spawned
//! `gate-attach-clone` tasks live on a current-thread tokio runtime that only runs when the
//! schedule says so.  So a case is a deterministic, replayable interleaving of the real code and
//! the sequence of atomic actions it performed is known: that sequence (second field) is what
//! the Lean driver replays through the LTS (every action must be an enabled step, every announced
//! command kind must be the head of the model's queue) before the final observations are compared.
//!
//! Oracle (no Lean involved): the two properties judged on the real observations, see `oracle()`.
use std::collections::HashMap;
use std::future::Future;
use std::panic::{catch_unwind, AssertUnwindSafe};
use std::pin::Pin;
use std::sync::{Arc, Condvar, Mutex};
use std::task::{Context, Poll};
use std::time::{Duration, Instant};

use futures::FutureExt;
use rotonda::comms::{AnyDirectUpdate, DirectLink, Gate, GateAgent, Link};
use rotonda::payload::Update;
use rotonda::verif::gate as vg;
use smallvec::smallvec;
use uuid::Uuid;
use verif_harness::{join, parse_args, replay_cases, rng::Rng, Recorder};

const QS: usize = 256; // update queue length of queue links (the model's update queues are unbounded)
const CCAP: usize = 16; // COMMAND_QUEUE_LEN
const ROOM: usize = 12; // the generator keeps every root command channel below this

// ---------------------------------------------------------------- worker threads (baton passing)

#[derive(Clone, Debug, PartialEq)]
enum Report { Paused(&'static str, Option<Uuid>), Blocked, Done(&'static str), Stuck }
type Ev = (&'static str, Option<Uuid>);

struct WInner { go: bool, report: Option<Report>, events: Vec<Ev>, shutdown: bool }
struct Worker { m: Mutex<WInner>, cv: Condvar }

impl Worker {
    fn new() -> Arc<Self> { Arc::new(Worker { m: Mutex::new(WInner { go: true, report: None, events: vec![], shutdown: false }), cv: Condvar::new() }) }
    // worker side
    fn yield_(&self, r: Report) {
        let mut g = self.m.lock().unwrap();
        if g.shutdown { return; }
        g.report = Some(r); g.go = false;
        self.cv.notify_all();
        while !g.go && !g.shutdown { g = self.cv.wait(g).unwrap(); }
    }
    fn finish(&self, r: Report) { let mut g = self.m.lock().unwrap(); g.report = Some(r); g.go = false; self.cv.notify_all(); }
    fn log(&self, e: Ev) { self.m.lock().unwrap().events.push(e); }
    fn is_shutdown(&self) -> bool { self.m.lock().unwrap().shutdown }
    // main side
    fn wait_report(&self) -> (Report, Vec<Ev>) {
        let mut g = self.m.lock().unwrap();
        let t0 = Instant::now();
        while g.report.is_none() {
            let (g2, _) = self.cv.wait_timeout(g, Duration::from_millis(500)).unwrap();
            g = g2;
            if g.report.is_none() && t0.elapsed() > Duration::from_secs(15) { return (Report::Stuck, std::mem::take(&mut g.events)); }
        }
        (g.report.clone().unwrap(), std::mem::take(&mut g.events))
    }
    fn resume(&self) -> (Report, Vec<Ev>) {
        { let mut g = self.m.lock().unwrap(); g.report = None; g.go = true; self.cv.notify_all(); }
        self.wait_report()
    }
    fn shutdown(&self) { let mut g = self.m.lock().unwrap(); g.shutdown = true; g.go = true; self.cv.notify_all(); }
}

fn spawn_root(gate: Arc<Gate>, w: Arc<Worker>) -> std::thread::JoinHandle<()> {
    std::thread::Builder::new().stack_size(512 * 1024).spawn(move || {
        let w2 = w.clone();
        vg::set_event_handler(Some(Arc::new(move |name, id| {
            if name.starts_with("cmd.") { w2.yield_(Report::Paused(name, id)); } else { w2.log((name, id)); }
        })));
        let waker = futures::task::noop_waker();
        let mut cx = Context::from_waker(&waker);
        let res = catch_unwind(AssertUnwindSafe(|| loop {
            let fut = gate.process();
            futures::pin_mut!(fut);
            let r = loop {
                match fut.as_mut().poll(&mut cx) {
                    Poll::Ready(r) => break r,
                    Poll::Pending => { w.yield_(Report::Blocked); if w.is_shutdown() { return "shutdown"; } }
                }
            };
            if r.is_err() { return "terminated"; }
            if w.is_shutdown() { return "shutdown"; }
        }));
        vg::set_event_handler(None);
        w.finish(Report::Done(res.unwrap_or("panicked")));
    }).unwrap()
}

fn spawn_pub(gate: Arc<Gate>, w: Arc<Worker>, u: Update) -> std::thread::JoinHandle<()> {
    std::thread::Builder::new().stack_size(256 * 1024).spawn(move || {
        let w2 = w.clone();
        vg::set_event_handler(Some(Arc::new(move |name, id| {
            if name == "update.deliver" { w2.yield_(Report::Paused(name, id)); } else { w2.log((name, id)); }
        })));
        let waker = futures::task::noop_waker();
        let mut cx = Context::from_waker(&waker);
        let res = catch_unwind(AssertUnwindSafe(|| {
            let fut = gate.update_data(u);
            futures::pin_mut!(fut);
            loop {
                match fut.as_mut().poll(&mut cx) {
                    Poll::Ready(()) => break,
                    Poll::Pending => { w.yield_(Report::Blocked); if w.is_shutdown() { break; } }
                }
            }
        }));
        vg::set_event_handler(None);
        drop(gate);
        w.finish(Report::Done(if res.is_ok() { "finished" } else { "panicked" }));
    }).unwrap()
}

// ---------------------------------------------------------------- operations

#[derive(Clone, Debug, PartialEq)]
enum Op { Sub { direct: bool, gen: usize }, Disc { link: usize, keep: bool }, Reconf, Term, Root, Pub(usize), CloneNew, Attach, CloneProc(usize), CloneDrop(usize), Drain }

impl Op {
    fn show(&self) -> String {
        match self {
            Op::Sub { direct, gen } => format!("S.{}.{gen}", if *direct { "d" } else { "q" }),
            Op::Disc { link, keep } => format!("D.{link}.{}", *keep as u8),
            Op::Reconf => "A".into(), Op::Term => "T".into(), Op::Root => "R".into(), Op::Pub(p) => format!("P.{p}"),
            Op::CloneNew => "N".into(), Op::Attach => "a".into(), Op::CloneProc(c) => format!("c.{c}"), Op::CloneDrop(c) => format!("x.{c}"), Op::Drain => "Z".into(),
        }
    }
    fn parse(s: &str) -> Option<Op> {
        let p: Vec<&str> = s.split('.').collect();
        Some(match p[0] {
            "S" => Op::Sub { direct: p.get(1)? == &"d", gen: p.get(2)?.parse().ok()? },
            "D" => Op::Disc { link: p.get(1)?.parse().ok()?, keep: p.get(2)? == &"1" },
            "A" => Op::Reconf, "T" => Op::Term, "R" => Op::Root, "P" => Op::Pub(p.get(1)?.parse().ok()?),
            "N" => Op::CloneNew, "a" => Op::Attach, "c" => Op::CloneProc(p.get(1)?.parse().ok()?), "x" => Op::CloneDrop(p.get(1)?.parse().ok()?), "Z" => Op::Drain,
            _ => return None,
        })
    }
}

fn tag(cmd: &str) -> &'static str {
    match cmd {
        "cmd.subscribe" => "sub", "cmd.unsubscribe" => "unsub", "cmd.attach_clone" => "att", "cmd.detach_clone" => "det", "cmd.terminate" => "term",
        "cmd.reconfigure" => "reconf", "cmd.follow_subscribe" => "fsub", "cmd.follow_unsubscribe" => "funsub", "cmd.follow_reconfigure" => "frec", _ => "other",
    }
}
fn notifying(cmd: &str) -> bool { matches!(cmd, "cmd.subscribe" | "cmd.unsubscribe" | "cmd.terminate" | "cmd.reconfigure") }

fn mk_update(p: usize, seq: u32) -> Update { Update::WithdrawBulk(smallvec![p as u32, seq]) }
fn rd_update(u: &Update) -> (u32, u32) { match u { Update::WithdrawBulk(v) if v.len() == 2 => (v[0], v[1]), _ => (9999, 0) } }

#[derive(Clone, Debug, PartialEq)]
enum RootSt { Idle, Held(&'static str, Option<Uuid>), Notify, Terminated, Panicked }
#[derive(Clone, Copy, Debug, PartialEq)]
enum LState { Pending, Connected, Refused, Disconnected }

type ConnFut = Pin<Box<dyn Future<Output = (Option<Link>, Option<DirectLink>, bool)> + Send>>;

struct LinkSt {
    gen: usize, direct: bool, st: LState, q: Option<Link>, d: Option<DirectLink>, target: Option<Arc<dyn AnyDirectUpdate>>,
    got: Arc<Mutex<Vec<(u32, u32)>>>, fut: Option<ConnFut>, t_conn: Option<u64>, t_end: Option<u64>,
    /// a clone handled a FollowSubscribe for this slot after the gate had left the slot's generation
    resurrected: bool,
}

struct CloneSt {
    gate: Option<Arc<Gate>>, uuid: Uuid, terminated: bool, closed: bool, attach_pending: bool, reconf_seen: usize,
    registered_at: Option<u64>, pending_reconf_at_attach: bool, t_closed: Option<u64>, ever_registered: bool,
}

struct PubRun { w: Arc<Worker>, h: Option<std::thread::JoinHandle<()>>, await_snap: bool, pending: Option<Uuid>, upd: usize }
struct UpdRec { p: usize, seq: u32, t_begin: u64, t_end: Option<u64> }

thread_local! { static MAIN_EVENTS: std::cell::RefCell<Vec<Ev>> = const { std::cell::RefCell::new(Vec::new()) }; }
fn take_main_events() -> Vec<Ev> { MAIN_EVENTS.with(|e| std::mem::take(&mut *e.borrow_mut())) }

struct Case {
    rt: tokio::runtime::Runtime,
    unit: rotonda::units::Unit,
    root: Option<Arc<Gate>>,
    rootw: Arc<Worker>,
    rooth: Option<std::thread::JoinHandle<()>>,
    root_st: RootSt,
    agents: Vec<GateAgent>,
    cnt: Vec<usize>,
    rx: usize,
    stale: bool,
    links: Vec<LinkSt>,
    clones: Vec<CloneSt>, // index c-1
    runs: HashMap<usize, PubRun>,
    seqs: HashMap<usize, u32>,
    upds: Vec<UpdRec>,
    slot_of: HashMap<Uuid, usize>,
    tick: u64,
    trace: Vec<String>,
    ops: Vec<String>,
    bad: Vec<String>,
    handled: usize,
    n_reconf_sent: usize,
    t_gen_end: Vec<Option<u64>>,
    t_reconf: Vec<u64>,
    t_term_handled: Option<u64>,
    notify_woken: bool,
    panicked_in_notify: bool,
    drained: bool,
    stats: Vec<&'static str>,
}

impl Case {
    fn new(stale: bool) -> Case {
        let rt = tokio::runtime::Builder::new_current_thread().enable_all().build().unwrap();
        let unit: rotonda::units::Unit = toml::from_str("type = \"mrt-file-in\"\nfilename = \"/nonexistent.mrt\"\n").unwrap();
        let (gate, agent) = Gate::new(QS);
        let root = Arc::new(gate);
        let rootw = Worker::new();
        let rooth = spawn_root(root.clone(), rootw.clone());
        let mut c = Case {
            rt, unit, root: Some(root), rootw, rooth: Some(rooth), root_st: RootSt::Idle, agents: vec![agent], cnt: vec![0], rx: 0, stale,
            links: vec![], clones: vec![], runs: HashMap::new(), seqs: HashMap::new(), upds: vec![], slot_of: HashMap::new(), tick: 0,
            trace: vec![], ops: vec![], bad: vec![], handled: 0, n_reconf_sent: 0, t_gen_end: vec![None], t_reconf: vec![], t_term_handled: None,
            notify_woken: false, panicked_in_notify: false, drained: false, stats: vec![],
        };
        let (r, _) = c.rootw.wait_report();
        if r != Report::Blocked { c.bad.push(format!("root-start-{r:?}")); }
        c
    }
    fn tick(&mut self) -> u64 { self.tick += 1; self.tick }
    fn emit(&mut self, s: String) { self.trace.push(s); }
    fn send_gen(&self) -> usize { if self.stale { 0 } else { self.rx } }
    fn root_alive(&self) -> bool { !matches!(self.root_st, RootSt::Terminated | RootSt::Panicked) }
    fn pub_gate(&self, p: usize) -> Option<Arc<Gate>> { if p == 0 { self.root.clone() } else { self.clones.get(p - 1).and_then(|c| c.gate.clone()) } }

    // ---- which operations make sense now (the generator only picks from these; replay skips the rest)
    fn enabled(&self, op: &Op) -> bool {
        match op {
            Op::Sub { gen, .. } => *gen < self.agents.len() && self.links.len() < 24 && (*gen < self.rx || self.cnt[*gen] < ROOM),
            Op::Disc { link, keep } => self.links.get(*link).map(|l| l.st == LState::Connected && (l.direct || !*keep) && (l.gen < self.rx || self.cnt[l.gen] < ROOM)).unwrap_or(false),
            Op::Reconf => self.agents.len() < 6 && self.cnt[self.agents.len() - 1] < ROOM,
            Op::Term => self.cnt[self.agents.len() - 1] < ROOM,
            Op::Root => match self.root_st { RootSt::Idle => self.cnt[self.rx] > 0, RootSt::Held(..) => true, RootSt::Notify => self.notify_woken, _ => false },
            Op::Pub(p) => self.runs.contains_key(p) || (self.pub_gate(*p).is_some() && self.seqs.get(p).copied().unwrap_or(0) < 12),
            Op::CloneNew => self.clones.len() < 4,
            Op::Attach => self.clones.iter().any(|c| c.attach_pending) && (self.send_gen() < self.rx || self.cnt[self.send_gen()] < ROOM),
            Op::CloneProc(c) => *c >= 1 && self.clones.get(*c - 1).map(|c| c.gate.is_some() && !c.terminated).unwrap_or(false),
            Op::CloneDrop(c) => *c >= 1 && !self.runs.contains_key(c) && self.clones.get(*c - 1).map(|c| c.gate.is_some()).unwrap_or(false) && (self.send_gen() < self.rx || self.cnt[self.send_gen()] < ROOM),
            Op::Drain => true,
        }
    }

    fn do_op(&mut self, op: &Op) -> bool {
        if !self.enabled(op) { return false; }
        if *op != Op::Drain { self.ops.push(op.show()); }
        self.tick();
        match op.clone() {
            Op::Sub { direct, gen } => self.op_sub(direct, gen),
            Op::Disc { link, keep } => self.op_disc(link, keep),
            Op::Reconf => {
                let (g, a) = Gate::new(QS);
                let r = self.agents.last().unwrap().reconfigure(self.unit.clone(), g).now_or_never();
                if !matches!(r, Some(Ok(()))) { self.bad.push("reconfigure-not-sent".into()); }
                let last = self.agents.len() - 1;
                self.cnt[last] += 1; self.cnt.push(0); self.agents.push(a); self.t_gen_end.push(None); self.n_reconf_sent += 1;
                self.emit("ar".into());
            }
            Op::Term => {
                let r = self.agents.last().unwrap().terminate().now_or_never();
                if r.is_none() { self.bad.push("terminate-not-sent".into()); }
                let last = self.agents.len() - 1;
                self.cnt[last] += 1;
                self.emit("at".into());
            }
            Op::Root => self.op_root(),
            Op::Pub(p) => self.op_pub(p),
            Op::CloneNew => {
                let Some(root) = self.root.clone() else { return false };
                let g = { let _e = self.rt.enter(); (*root).clone() };
                let uuid = vg::gate_clone_id(&g).unwrap();
                self.clones.push(CloneSt { gate: Some(Arc::new(g)), uuid, terminated: false, closed: false, attach_pending: true, reconf_seen: 0, registered_at: None, pending_reconf_at_attach: false, t_closed: None, ever_registered: false });
                let c = self.clones.len();
                self.emit(format!("cn.{c}"));
            }
            Op::Attach => {
                take_main_events();
                for _ in 0..8 {
                    self.rt.block_on(async { tokio::task::yield_now().await });
                    let evs = take_main_events();
                    for (name, id) in evs {
                        if name != "clone.attach_sent" { continue; }
                        let Some(ci) = self.clones.iter().position(|c| Some(c.uuid) == id) else { self.bad.push("attach-of-unknown-clone".into()); continue };
                        self.clones[ci].attach_pending = false;
                        self.clones[ci].pending_reconf_at_attach = self.n_reconf_sent > self.t_reconf.len();
                        let sg = self.send_gen();
                        if sg >= self.rx { self.cnt[sg] += 1; }
                        self.emit(format!("ca.{}", ci + 1));
                    }
                    if !self.clones.iter().any(|c| c.attach_pending) { break; }
                }
                if self.clones.iter().any(|c| c.attach_pending) { self.bad.push("attach-task-did-not-run".into()); }
            }
            Op::CloneProc(c) => {
                let g = self.clones[c - 1].gate.clone().unwrap();
                take_main_events();
                let r = g.process().now_or_never();
                let evs = take_main_events();
                let t = self.tick;
                for (name, id) in evs {
                    if name.starts_with("cmd.") {
                        self.emit(format!("cp.{c}.{}", tag(name)));
                        if name == "cmd.follow_subscribe" {
                            if let Some(i) = id.and_then(|u| self.slot_of.get(&u).copied()) { if self.links[i].gen < self.rx { self.links[i].resurrected = true; } }
                        }
                        if name == "cmd.follow_reconfigure" { self.clones[c - 1].reconf_seen += 1; }
                        if name == "cmd.terminate" { self.clones[c - 1].terminated = true; }
                    } else if name == "process.closed" {
                        self.emit(format!("cc.{c}"));
                        self.clones[c - 1].terminated = true; self.clones[c - 1].closed = true; self.clones[c - 1].t_closed = Some(t);
                    }
                }
                if matches!(r, Some(Err(_))) && !self.clones[c - 1].terminated { self.bad.push("clone-terminated-without-event".into()); }
                self.notify_woken = true;
            }
            Op::CloneDrop(c) => {
                let g = self.clones[c - 1].gate.take().unwrap();
                match Arc::try_unwrap(g) { Ok(g) => drop(g), Err(_) => { self.bad.push("clone-arc-shared".into()); } }
                let sg = self.send_gen();
                if sg >= self.rx { self.cnt[sg] += 1; }
                self.emit(format!("cd.{c}"));
                self.notify_woken = true;
            }
            Op::Drain => { self.drain(); }
        }
        true
    }

    fn op_sub(&mut self, direct: bool, gen: usize) {
        let slot = self.links.len();
        let got: Arc<Mutex<Vec<(u32, u32)>>> = Arc::new(Mutex::new(vec![]));
        let mut agent = self.agents[gen].clone();
        let link = agent.create_link();
        let mut target: Option<Arc<dyn AnyDirectUpdate>> = None;
        let mut fut: ConnFut = if direct {
            let got2 = got.clone();
            let t: Arc<dyn AnyDirectUpdate> = Arc::new(vg::FnTarget(Arc::new(move |u| got2.lock().unwrap().push(rd_update(&u)))));
            target = Some(t.clone());
            let mut dl = DirectLink::from(link);
            Box::pin(async move { let ok = dl.connect(t, false).await.is_ok(); (None, Some(dl), ok) })
        } else {
            let mut l = link;
            Box::pin(async move { let ok = l.connect(false).await.is_ok(); (Some(l), None, ok) })
        };
        take_main_events();
        let r = fut.as_mut().now_or_never();
        let sent = take_main_events().iter().any(|e| e.0 == "link.connect.sent");
        let mut ls = LinkSt { gen, direct, st: LState::Pending, q: None, d: None, target, got, fut: None, t_conn: None, t_end: None, resurrected: false };
        match r {
            Some((q, d, ok)) => { ls.q = q; ls.d = d; ls.st = LState::Refused; if ok { self.bad.push("connect-answered-at-once".into()); } }
            None => { ls.fut = Some(fut); if sent { self.cnt[gen] += 1; } else { self.bad.push("subscribe-not-sent".into()); } }
        }
        self.links.push(ls);
        self.emit(format!("ls.{slot}.{}.{gen}", direct as u8));
    }

    fn drain_link(&mut self, i: usize) {
        let l = &mut self.links[i];
        if l.st != LState::Connected { return; }
        if let Some(q) = l.q.as_mut() {
            while let Some(Ok(u)) = q.query().now_or_never() { l.got.lock().unwrap().push(rd_update(&u)); }
        }
    }

    fn op_disc(&mut self, i: usize, keep: bool) {
        self.drain_link(i);
        let t = self.tick;
        let rx = self.rx;
        let l = &mut self.links[i];
        l.t_end = Some(t);
        if let Some(q) = l.q.as_mut() { let _ = q.disconnect().now_or_never(); }
        if let Some(d) = l.d.as_mut() { let _ = d.disconnect().now_or_never(); }
        if !keep { l.target = None; }
        l.st = LState::Disconnected;
        let gen = l.gen;
        if gen >= rx { self.cnt[gen] += 1; }
        self.emit(format!("ld.{i}.{}", keep as u8));
    }

    fn poll_links(&mut self) {
        let t = self.tick;
        for i in 0..self.links.len() {
            if self.links[i].st != LState::Pending { continue; }
            let Some(mut fut) = self.links[i].fut.take() else { continue };
            match fut.as_mut().now_or_never() {
                None => self.links[i].fut = Some(fut),
                Some((q, d, ok)) => {
                    let l = &mut self.links[i];
                    l.q = q; l.d = d;
                    if ok {
                        l.st = LState::Connected; l.t_conn = Some(t);
                        let u = if let Some(q) = l.q.as_ref() { q.connected_gate_slot() } else { l.d.as_mut().and_then(|d| vg::direct_link_inner(d).connected_gate_slot()) };
                        if let Some(u) = u { self.slot_of.insert(u, i); } else { self.bad.push("connected-without-slot".into()); }
                    } else { l.st = LState::Refused; }
                }
            }
        }
    }

    fn root_resume(&mut self) {
        let before = self.root_st.clone();
        let (rep, evs) = self.rootw.resume();
        let t = self.tick;
        let sent = evs.iter().any(|e| e.0 == "notify.sent");
        let mut in_notify = false;
        match &before {
            RootSt::Held(cmd, id) => {
                self.emit(format!("rp.{}", tag(cmd)));
                self.handled += 1;
                self.cnt[self.rx] = self.cnt[self.rx].saturating_sub(1);
                match *cmd {
                    "cmd.reconfigure" => { self.t_gen_end[self.rx] = Some(t); self.t_reconf.push(t); self.rx += 1; }
                    "cmd.attach_clone" => { if let Some(c) = self.clones.iter_mut().find(|c| Some(c.uuid) == *id) { c.registered_at = Some(t); c.ever_registered = true; } }
                    "cmd.detach_clone" => { if let Some(c) = self.clones.iter_mut().find(|c| Some(c.uuid) == *id) { c.registered_at = None; } }
                    "cmd.terminate" => { self.t_term_handled = Some(t); }
                    _ => {}
                }
                if notifying(cmd) {
                    if sent { self.emit("rn*".into()); }
                    else if rep == Report::Blocked { self.emit("rn-".into()); in_notify = true; }
                    else if rep == Report::Done("panicked") { self.emit("rn!".into()); self.panicked_in_notify = true; }
                }
            }
            RootSt::Notify => {
                if sent { self.emit("rn*".into()); }
                else if rep == Report::Blocked { self.emit("rn-".into()); in_notify = true; }
                else if rep == Report::Done("panicked") { self.emit("rn!".into()); self.panicked_in_notify = true; }
            }
            _ => {}
        }
        self.notify_woken = false;
        self.root_st = match rep {
            Report::Paused(name, id) => RootSt::Held(name, id),
            Report::Blocked => if in_notify { RootSt::Notify } else { RootSt::Idle },
            Report::Done("terminated") => RootSt::Terminated,
            Report::Done("panicked") => RootSt::Panicked,
            Report::Done(_) => RootSt::Idle,
            Report::Stuck => { self.bad.push("root-thread-stuck".into()); RootSt::Panicked }
        };
    }

    fn op_root(&mut self) {
        if self.root_st == RootSt::Idle {
            self.root_resume();
            if !matches!(self.root_st, RootSt::Held(..)) { return; }
        }
        self.root_resume();
        self.poll_links();
    }

    fn op_pub(&mut self, p: usize) {
        let (rep, evs) = if let Some(run) = self.runs.get(&p) { run.w.resume() } else {
            let Some(g) = self.pub_gate(p) else { return };
            let seq = { let s = self.seqs.entry(p).or_insert(0); *s += 1; *s };
            let t = self.tick;
            self.upds.push(UpdRec { p, seq, t_begin: t, t_end: None });
            let w = Worker::new();
            let h = spawn_pub(g, w.clone(), mk_update(p, seq));
            self.runs.insert(p, PubRun { w: w.clone(), h: Some(h), await_snap: true, pending: None, upd: self.upds.len() - 1 });
            w.wait_report()
        };
        let _ = evs;
        let mut out = vec![];
        let mut done = false;
        {
            let run = self.runs.get_mut(&p).unwrap();
            match rep {
                Report::Paused(_, id) => {
                    if std::mem::replace(&mut run.await_snap, false) { out.push(format!("pb.{p}")); }
                    if let Some(prev) = run.pending.take() { out.push(format!("pd.{p}.{}", self.slot_of.get(&prev).copied().unwrap_or(999))); }
                    run.pending = id;
                }
                Report::Done(_) => {
                    if std::mem::replace(&mut run.await_snap, false) { out.push(format!("pb.{p}")); }
                    if let Some(prev) = run.pending.take() { out.push(format!("pd.{p}.{}", self.slot_of.get(&prev).copied().unwrap_or(999))); }
                    out.push(format!("pe.{p}"));
                    done = true;
                }
                _ => { self.bad.push("publisher-blocked".into()); done = true; }
            }
        }
        for o in out { self.emit(o); }
        if done {
            let mut run = self.runs.remove(&p).unwrap();
            run.w.shutdown();
            if let Some(h) = run.h.take() { let _ = h.join(); }
            let t = self.tick;
            self.upds[run.upd].t_end = Some(t);
        }
        for i in 0..self.links.len() { self.drain_link(i); }
    }

    /// Everybody does what is pending until nothing moves any more.
    fn drain(&mut self) {
        for _ in 0..200 {
            let mut moved = false;
            let ps: Vec<usize> = self.runs.keys().copied().collect();
            for p in ps { while self.runs.contains_key(&p) { moved |= self.do_op(&Op::Pub(p)); } }
            if self.do_op(&Op::Attach) { moved = true; }
            for c in 1..=self.clones.len() {
                let pend = self.clones[c - 1].gate.as_ref().and_then(|g| vg::gate_pending_commands(g)).unwrap_or(0);
                let before = self.trace.len();
                if (pend > 0 || !self.clones[c - 1].ever_registered) && self.do_op(&Op::CloneProc(c)) && self.trace.len() > before { moved = true; }
            }
            while self.do_op(&Op::Root) { moved = true; if self.trace.len() > 4000 { break; } }
            if !moved { break; }
        }
        self.drained = true;
    }

    // ---- the final observation of the real objects (same shape as the driver's `observe`)
    fn observe(&mut self) -> String {
        // give the command lock back: a root gate parked in `recv()` holds it
        if self.root_st == RootSt::Idle && self.cnt[self.rx] > 0 { self.root_resume(); }
        self.poll_links();
        for i in 0..self.links.len() { self.drain_link(i); }
        let root = self.root.clone().unwrap();
        let g_real = self.agents.iter().position(|a| !a.is_terminated()).unwrap_or(self.agents.len());
        let mut u: Vec<usize> = vg::gate_slots(&root).0.iter().map(|x| self.slot_of.get(x).copied().unwrap_or(997)).collect();
        u.sort();
        let npubs = self.clones.len() + 1;
        let links: Vec<String> = self.links.iter().enumerate().map(|(i, l)| match l.st {
            LState::Pending => format!("{i}:pending"),
            LState::Refused => format!("{i}:refused"),
            _ => {
                let got = l.got.lock().unwrap();
                let per: Vec<String> = (0..npubs).filter_map(|p| {
                    let q: Vec<u32> = got.iter().filter(|m| m.0 as usize == p).map(|m| m.1).collect();
                    if q.is_empty() { None } else { Some(format!("{p}={}", join(q, ","))) }
                }).collect();
                format!("{i}:{}", if per.is_empty() { "-".into() } else { per.join("/") })
            }
        }).collect();
        let clones: Vec<String> = self.clones.iter().enumerate().filter_map(|(i, c)| c.gate.as_ref().map(|g| {
            format!("{}:q{}:r{}:t{}", i + 1, vg::gate_pending_commands(g).map(|n| n.to_string()).unwrap_or("?".into()), c.reconf_seen, c.terminated as u8)
        })).collect();
        let held = matches!(self.root_st, RootSt::Held(..)) as usize;
        // a root gate parked in `recv()` holds the command lock: the probe cannot read the length then;
        // it is parked because the queue was empty, what was sent since is counted by the engine
        let q = match vg::gate_pending_commands(&root) { Some(n) => (n + held).to_string(), None => self.cnt[self.rx].to_string() };
        let r = match self.root_st { RootSt::Panicked => "panic", RootSt::Terminated => "term", RootSt::Notify => "blocked", _ => "idle" };
        let shown = |v: &Vec<usize>| if v.is_empty() { "-".to_string() } else { join(v, ",") };
        format!("ok G={g_real} U={} L={} C={} N={} Q={q} R={r} H={}", shown(&u),
            if links.is_empty() { "-".into() } else { links.join(" ") }, if clones.is_empty() { "-".into() } else { clones.join(" ") },
            vg::gate_clone_count(&root), self.handled)
    }

    // ---- the properties, judged on the real observations only
    fn oracle(&mut self) -> String {
        let mut fails: Vec<String> = self.bad.iter().map(|b| format!("engine-{b}")).collect();
        let npubs = self.clones.len() + 1;
        for (i, l) in self.links.iter().enumerate() {
            let Some(tc) = l.t_conn else { continue };
            let got = l.got.lock().unwrap().clone();
            for p in 0..npubs {
                let q: Vec<u32> = got.iter().filter(|m| m.0 as usize == p).map(|m| m.1).collect();
                if q.windows(2).any(|w| w[0] == w[1]) { fails.push(format!("delivery:duplicate slot={i} pub={p} seqs={}", join(&q, ","))); }
                else if q.windows(2).any(|w| w[0] > w[1]) { fails.push(format!("delivery:out-of-order slot={i} pub={p} seqs={}", join(&q, ","))); }
            }
            if got.iter().any(|m| m.0 == 9999) { fails.push(format!("delivery:foreign-update slot={i}")); }
            // the link is connected from the moment connect() returned until it disconnects or the gate
            // takes over the next generation's channel (the downstream has to subscribe again then)
            let gen_end = self.t_gen_end.get(l.gen).copied().flatten();
            let w_end = match (l.t_end, gen_end) { (Some(a), Some(b)) => Some(a.min(b)), (a, b) => a.or(b) };
            for u in &self.upds {
                let Some(ue) = u.t_end else { continue };
                if tc < u.t_begin && w_end.map(|e| ue < e).unwrap_or(true) && !got.contains(&(u.p as u32, u.seq)) {
                    fails.push(format!("delivery:lost slot={i} gen={} pub={} seq={}", l.gen, u.p, u.seq));
                }
                // nothing for a subscription of a generation the gate has left
                if let Some(ge) = gen_end { if u.t_begin > ge && got.contains(&(u.p as u32, u.seq)) {
                    // the one way the code as written does this: a clone's stale FollowSubscribe put the slot back
                    let sig = if l.resurrected { "delivery:old-generation-slot-served-after-reconfigure" } else { "delivery:old-generation-slot-kept-by-reconfigure" };
                    fails.push(format!("{sig} slot={i} gen={} pub={} seq={}", l.gen, u.p, u.seq));
                } }
            }
        }
        if self.root_st == RootSt::Panicked { fails.push(format!("gate:panic-{}", if self.panicked_in_notify { "clone-dropped-while-notify-waits" } else { "elsewhere" })); }
        for (i, c) in self.clones.iter().enumerate() {
            // a clone made while the gate serves must get attached; the one exception the code has is an
            // AttachClone queued behind a Reconfigure that was already in the channel (observation, see notes)
            if c.closed && !c.ever_registered {
                let alive_then = self.t_term_handled.map(|t| c.t_closed.unwrap_or(0) < t).unwrap_or(true) && !(self.root_st == RootSt::Panicked);
                if alive_then {
                    if c.pending_reconf_at_attach { if !self.stats.contains(&"attach-lost-behind-reconfigure") { self.stats.push("attach-lost-behind-reconfigure"); } }
                    else { fails.push(format!("clone:attach-lost-after-reconfigure pub={}", i + 1)); }
                }
            }
        }
        if self.drained && self.runs.is_empty() {
            match self.root_st {
                RootSt::Idle => {
                    if self.cnt[self.rx] > 0 { fails.push(format!("gate:command-never-handled pending={}", self.cnt[self.rx])); }
                    if self.links.iter().any(|l| l.st == LState::Pending && l.gen >= self.rx && l.gen <= self.rx) { fails.push("gate:subscribe-never-answered".into()); }
                    for (i, c) in self.clones.iter().enumerate() {
                        let (Some(_), Some(ra), false) = (c.gate.as_ref(), c.registered_at, c.terminated) else { continue };
                        let want = self.t_reconf.iter().filter(|t| **t > ra).count();
                        if c.reconf_seen != want { fails.push(format!("clone:reconfigure-not-followed pub={} seen={} handled={want}", i + 1, c.reconf_seen)); }
                    }
                }
                RootSt::Terminated => {
                    for (i, c) in self.clones.iter().enumerate() {
                        if c.gate.is_some() && c.registered_at.is_some() && !c.terminated { fails.push(format!("termination:registered-clone-not-notified pub={}", i + 1)); }
                    }
                }
                RootSt::Held(..) | RootSt::Notify => {
                    // the only excuse for a stuck root gate: a clone that exists, is not polled any more (it
                    // observed termination) and has a full queue
                    let excuse = self.clones.iter().any(|c| c.terminated && c.gate.as_ref().and_then(|g| vg::gate_pending_commands(g)).unwrap_or(0) >= CCAP);
                    if !excuse { fails.push("gate:stuck-after-drain".into()); }
                }
                RootSt::Panicked => {}
            }
        }
        fails.sort(); fails.dedup();
        if fails.is_empty() { "ok".into() } else { format!("fail {} {}", fails[0].split_whitespace().next().unwrap(), fails.join("; ")) }
    }

    fn teardown(mut self) {
        for (_, run) in self.runs.drain() { run.w.shutdown(); if let Some(h) = run.h { let _ = h.join(); } }
        self.rootw.shutdown();
        if let Some(h) = self.rooth.take() { let _ = h.join(); }
        {
            // a connected `Link` that cannot send its Unsubscribe (full channel) spawns a task when dropped
            let _e = self.rt.enter();
            for l in self.links.iter_mut() {
                l.fut = None;
                if let Some(q) = l.q.as_mut() { let _ = q.disconnect().now_or_never(); }
                if let Some(d) = l.d.as_mut() { let _ = d.disconnect().now_or_never(); }
            }
            self.links.clear();
        }
        self.root = None; // the last reference: the command receiver goes away, detaching clones do not block
        for c in self.clones.iter_mut() { c.gate = None; }
        self.agents.clear();
    }
}

struct Outcome { case: String, imp: String, oracle: String, nontrivial: bool, stats: Vec<&'static str>, variant_probe: (bool, bool, bool) }

/// `choose` is asked for the next operation until it says `None`.
fn run_case(stale: bool, mut choose: impl FnMut(&Case) -> Option<Op>) -> Outcome {
    let mut c = Case::new(stale);
    let mut n = 0;
    while let Some(op) = choose(&c) {
        c.do_op(&op);
        if op == Op::Drain { c.ops.push("Z".into()); }
        n += 1;
        if n > 600 || c.trace.len() > 3000 { break; }
    }
    // no update may be left half done (its thread would be torn down mid-way)
    let ps: Vec<usize> = c.runs.keys().copied().collect();
    for p in ps { while c.runs.contains_key(&p) { c.do_op(&Op::Pub(p)); } }
    let imp = c.observe();
    let oracle = c.oracle();
    let tr = &c.trace;
    let mut stats = c.stats.clone();
    if tr.iter().any(|t| t == "rp.reconf") { stats.push("reconfigure-handled"); }
    if tr.iter().any(|t| t == "rn-") { stats.push("root-blocked-on-clone-queue"); }
    if tr.iter().any(|t| t == "rn!") { stats.push("root-panicked"); }
    if tr.iter().any(|t| t.starts_with("cc.")) { stats.push("clone-saw-closed-channel"); }
    if tr.iter().any(|t| t.ends_with(".frec")) { stats.push("clone-followed-reconfigure"); }
    if tr.iter().any(|t| t == "rp.term") { stats.push("terminate-handled"); }
    if c.links.iter().any(|l| l.st == LState::Refused) { stats.push("subscribe-refused"); }
    if oracle.contains("old-generation") { stats.push("old-generation-delivery"); }
    let delivered: usize = c.links.iter().map(|l| l.got.lock().unwrap().len()).sum();
    let nontrivial = tr.iter().any(|t| t == "rp.reconf") && (delivered > 0 || tr.iter().any(|t| t.ends_with(".frec")));
    let root = c.root.clone().unwrap();
    let old_slot_in_map = c.links.iter().enumerate().any(|(i, l)| l.gen < c.rx && vg::gate_slots(&root).0.iter().any(|u| c.slot_of.get(u) == Some(&i)));
    drop(root);
    let probe = (c.clones.first().map(|c| c.closed).unwrap_or(false), c.root_st == RootSt::Panicked, old_slot_in_map);
    let case = format!("ccap={CCAP}|{}|{}", c.trace.join(" "), c.ops.join(","));
    c.teardown();
    Outcome { case, imp, oracle, nontrivial, stats, variant_probe: probe }
}

fn run_script(stale: bool, ops: &[Op]) -> Outcome {
    let mut i = 0;
    run_case(stale, |_| { let o = ops.get(i).cloned(); i += 1; o })
}

// ---------------------------------------------------------------- witnesses and corpus

fn w_stale_sender() -> Vec<Op> { vec![Op::Reconf, Op::Root, Op::CloneNew, Op::Attach, Op::Root, Op::CloneProc(1)] }
fn w_follow_edit() -> Vec<Op> {
    vec![Op::CloneNew, Op::Attach, Op::Root, Op::Sub { direct: true, gen: 0 }, Op::Root, Op::Reconf, Op::Root, Op::CloneProc(1),
         Op::Sub { direct: true, gen: 1 }, Op::Root, Op::Pub(0), Op::Pub(0), Op::Pub(0), Op::Pub(0), Op::Drain]
}
fn w_notify_panic() -> Vec<Op> {
    let mut v = vec![Op::CloneNew, Op::Attach, Op::Root];
    for _ in 0..17 { v.push(Op::Sub { direct: true, gen: 0 }); v.push(Op::Root); }
    v.push(Op::CloneDrop(1)); v.push(Op::Root); v.push(Op::Root);
    v
}
fn corpus() -> Vec<Vec<Op>> {
    let s = |d: bool, g: usize| Op::Sub { direct: d, gen: g };
    vec![
        // a reload with a polled clone: downstream subscribes again through the new agent, root and clone publish
        vec![Op::CloneNew, Op::Attach, Op::Root, s(true, 0), Op::Root, Op::CloneProc(1), Op::Pub(0), Op::Pub(0), Op::Reconf, Op::Root, Op::CloneProc(1),
             s(true, 1), Op::Root, Op::CloneProc(1), Op::Pub(0), Op::Pub(1), Op::Drain, Op::Pub(1), Op::Drain],
        // an update in flight across the reconfigure
        vec![s(false, 0), Op::Root, s(true, 0), Op::Root, Op::Pub(0), Op::Reconf, Op::Root, Op::Pub(0), Op::Pub(0), s(false, 1), Op::Root, Op::Pub(0), Op::Drain],
        // a clone made between the manager's send and the gate's handling of Reconfigure
        vec![Op::Reconf, Op::CloneNew, Op::Attach, Op::Root, Op::CloneProc(1), Op::Drain],
        // subscribe through the new agent before the gate has taken the new channel over; old agent afterwards
        vec![Op::Reconf, s(true, 1), s(false, 0), Op::Root, Op::Root, Op::Root, s(true, 0), Op::Pub(0), Op::Drain],
        // the wedge: a clone that is never polled, then the reload and the shutdown do not get through
        { let mut v = vec![Op::CloneNew, Op::Attach, Op::Root];
          for _ in 0..17 { v.push(s(true, 0)); v.push(Op::Root); }
          v.extend([Op::Reconf, Op::Term, Op::Root, Op::CloneProc(1), Op::Root, Op::Drain]); v },
        // two reloads in a row, terminate through the newest agent, clones observe it
        vec![Op::CloneNew, Op::CloneNew, Op::Attach, Op::Root, Op::Root, Op::Reconf, Op::Reconf, Op::Root, Op::Root, s(true, 2), Op::Root, Op::Pub(2), Op::Pub(2), Op::Term, Op::Drain],
        // disconnect after the reload: the Unsubscribe goes into the closed channel
        vec![s(true, 0), Op::Root, Op::Reconf, Op::Root, Op::Disc { link: 0, keep: true }, s(true, 1), Op::Root, Op::Pub(0), Op::Drain],
        // a clone dropped and one made after the reload
        vec![Op::CloneNew, Op::Attach, Op::Root, Op::Reconf, Op::Root, Op::CloneDrop(1), Op::Root, Op::CloneNew, Op::Attach, Op::Root, s(false, 1), Op::Root, Op::Pub(2), Op::Drain],
    ]
}

// ---------------------------------------------------------------- random schedules

fn random_case(r: &mut Rng, stale: bool, big: bool) -> Outcome {
    let profile = r.below(10);
    let lazy_clone = profile == 0; // clone 1 is never polled
    let with_term = r.chance(1, 4);
    let n_ops = if lazy_clone { r.range(60, 140) } else { r.range(8, if big { 90 } else { 50 }) } as usize;
    let drain_at_end = r.chance(3, 4);
    let mut k = 0usize;
    let mut r2 = r.fork();
    run_case(stale, move |c| {
        k += 1;
        if k > n_ops { return if k == n_ops + 1 && drain_at_end && !lazy_clone { Some(Op::Drain) } else { None }; }
        let newest = c.agents.len() - 1;
        let mut opts: Vec<(u64, Op)> = vec![];
        let g = match r2.below(8) { 0 => r2.below(c.agents.len() as u64) as usize, 1 => c.rx, _ => newest };
        opts.push((if lazy_clone { 8 } else { 3 }, Op::Sub { direct: r2.chance(2, 3), gen: g }));
        for (i, l) in c.links.iter().enumerate() { if l.st == LState::Connected { opts.push((1, Op::Disc { link: i, keep: l.direct && r2.chance(1, 2) })); } }
        opts.push((2, Op::Reconf));
        if with_term { opts.push((1, Op::Term)); }
        opts.push((if lazy_clone { 10 } else { 6 }, Op::Root));
        for p in 0..=c.clones.len() { opts.push((if c.runs.contains_key(&p) { 4 } else { 1 }, Op::Pub(p))); }
        opts.push((2, Op::CloneNew));
        opts.push((4, Op::Attach));
        for ci in 1..=c.clones.len() {
            if !(lazy_clone && ci == 1) { opts.push((2, Op::CloneProc(ci))); }
            opts.push((if lazy_clone && ci == 1 { 1 } else { 1 }, Op::CloneDrop(ci)));
        }
        let opts: Vec<(u64, Op)> = opts.into_iter().filter(|(_, o)| c.enabled(o)).collect();
        if opts.is_empty() { return None; }
        let total: u64 = opts.iter().map(|o| o.0).sum();
        let mut x = r2.below(total);
        for (w, o) in opts { if x < w { return Some(o); } x -= w; }
        None
    })
}

fn main() {
    let args = parse_args();
    if std::env::var("GR_DEBUG").is_err() { std::panic::set_hook(Box::new(|_| {})); }
    let t0 = Instant::now();
    // events announced on the main thread (link / clone operations, attach tasks on the current-thread runtime)
    vg::set_event_handler(Some(Arc::new(|name, id| MAIN_EVENTS.with(|e| e.borrow_mut().push((name, id))))));
    let mut rec = Recorder::new("the root gate handled at least one Reconfigure and afterwards an update was delivered or a clone followed the reconfiguration");
    let mut record = |rec: &mut Recorder, kind: &str, o: Outcome| {
        rec.bump(&format!("kind:{kind}"));
        for s in &o.stats { rec.bump(&format!("saw:{s}")); }
        if o.oracle != "ok" { rec.bump(&format!("oracle:{}", o.oracle.split_whitespace().nth(1).unwrap_or("?"))); }
        rec.case(o.case, o.imp, o.oracle, o.nontrivial);
    };

    if let Some(path) = &args.replay {
        // variants first (the driver is given the flags of this tree)
        let stale = run_script(false, &w_stale_sender()).variant_probe.0;
        for line in replay_cases(path) {
            let ops: Vec<Op> = line.split('|').nth(2).unwrap_or("").split(',').filter_map(Op::parse).collect();
            let o = run_script(stale, &ops);
            record(&mut rec, "replay", o);
        }
        rec.finish(&args, t0.elapsed().as_secs_f64());
        return;
    }

    // witnesses of the three defect sites decide the variants of this tree
    let w1 = run_script(false, &w_stale_sender());
    let stale = w1.variant_probe.0;
    rec.variant("clonesender", if stale { "as-written" } else { "repaired" });
    let w1 = if stale { run_script(true, &w_stale_sender()) } else { w1 };
    record(&mut rec, "witness", w1);
    let w2 = run_script(stale, &w_notify_panic());
    rec.variant("notifypanic", if w2.variant_probe.1 { "as-written" } else { "repaired" });
    record(&mut rec, "witness", w2);
    let w3 = run_script(stale, &w_follow_edit());
    rec.variant("followedit", if w3.variant_probe.2 { "as-written" } else { "repaired" });
    record(&mut rec, "witness", w3);
    for sc in corpus() { let o = run_script(stale, &sc); record(&mut rec, "corpus", o); }

    let budget = Duration::from_secs(if args.thorough { 150 } else { 9 });
    let n_workers = 4;
    let results: Arc<Mutex<Vec<Outcome>>> = Arc::new(Mutex::new(vec![]));
    let mut hs = vec![];
    for wi in 0..n_workers {
        let results = results.clone();
        let seed = args.seed.wrapping_mul(1000).wrapping_add(wi as u64);
        let thorough = args.thorough;
        hs.push(std::thread::spawn(move || {
            vg::set_event_handler(Some(Arc::new(|name, id| MAIN_EVENTS.with(|e| e.borrow_mut().push((name, id))))));
            let mut r = Rng::new(seed);
            let t1 = Instant::now();
            let mut local = vec![];
            let max = if thorough { 20000 } else { 1200 };
            while t1.elapsed() < budget && local.len() < max { local.push(random_case(&mut r, stale, thorough)); }
            results.lock().unwrap().extend(local);
        }));
    }
    for h in hs { let _ = h.join(); }
    let mut all = std::mem::take(&mut *results.lock().unwrap());
    // deterministic order whatever the thread timing: by case text
    all.sort_by(|a, b| a.case.cmp(&b.case));
    for o in all { record(&mut rec, "random", o); }
    rec.finish(&args, t0.elapsed().as_secs_f64());
}
