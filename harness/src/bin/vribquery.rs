//! VribQuery engine (areas C11/C12): two parts of the RIB query API no other engine executes.
//!
//! Part A, `V|…` cases: a really spawned pipeline (`Manager::load` -> `prepare` -> `spawn`: real
//! `bmp-tcp-in`, a physical `rib` unit with the `filter_names` shorthand, i.e. generated virtual RIBs
//! `rib-vRIB-<k>`, optionally a hand-written virtual RIB `vr`, null-out targets), routes announced over a
//! real BMP/TCP session (so they reach the physical RIB through `RibUnitRunner::process_update`), and HTTP
//! queries through the real `Server::handle_request` -> `Resources` -> `PrefixesApi::process_request`.
//! A virtual RIB answers by `Link::trigger(TriggerData::MatchPrefix)` to the physical RIB, which publishes
//! `Update::QueryResult` through its gate; every virtual RIB on the way runs
//! `RibUnitRunner::reprocess_query_results`.
//!   case  `V|<k>.<vr>|<announcements>|<query>;<query>;…`   (k = generated virtual RIBs)
//!         announcement = `<router>.<pool index>`; query = `<endpoint>.<what>.<include>=<upstream answer>`
//!         endpoint: `p` physical RIB, `0..2` generated virtual RIB, `v` hand-written one, `x` = GET /status
//!         what: pool index of the prefix | `i` a numeric path (per-ingress listing) | `u` unknown parameter
//!               | `c` = pool prefix 0 with the client going away while the result is in flight
//!         include: `n` none, `l` lessSpecifics, `m` moreSpecifics, `b` both
//!         upstream answer: what the physical RIB itself answered to the same query before the sequence
//!         started: `D<n>L<n|->M<n|->` (number of entries per section), `E<status>`
//!   obs   one token per query: `200:D<n>L<n|->M<n|->`, `400`, `404`, `T` (never answered), each with `!<site>`
//!         appended when a panic was recorded while the query was in flight
//!
//! Part B, the `sort=` machinery and the other rendering parameters of the physical RIB's API:
//!   `C|<json>|<json>`             `PrefixesApi::cmp_json_values` on two values              -> `L`/`E`/`G`/`panic`
//!   `K|<keys>|<json>|<json>`      the comparator closure of `sort_results` (two-element slice) -> `ab`/`ba`
//!   `S|<keys>|<json>,<json>,…`    `PrefixesApi::sort_results` on a slice                     -> permutation
//!   `R|<query>|<D entries>|<L entries or ->|<M entries or ->`  one GET on a populated real RIB (c11 style
//!         fixture) whose query string carries sort / sort_by / sort_order / details / format; the entries are
//!         the JSON objects of the same query *without* those parameters, in the order the API returned them
//!         -> `200 D[perm] L[perm|-] M[perm|-]` / `200 dump` / `400` / `panic`
//!   `G|<path kind>`               per-ingress listing `GET /prefixes/<id>`                     -> status + listed
//! JSON values are written in a prefix code (see `enc`): `n` null, `t`/`f`, `i<int>`, `d<halves>` (a float
//! k/2), `s<hex of utf-8>`, `a<len>:<items>`, `o<len>:<hexkey>=<value>…`.
use std::collections::{BTreeMap, BTreeSet};
use std::io::Write as _;
use std::net::{SocketAddr, TcpListener, TcpStream};
use std::panic::{catch_unwind, AssertUnwindSafe};
use std::sync::atomic::{AtomicBool, AtomicUsize, Ordering as AO};
use std::sync::{Arc, Mutex};
use std::time::{Duration, Instant};

use bytes::Bytes;
use hyper::{Body, Request};
use rotonda::bgp::encode::{mk_initiation_msg, mk_raw_route_monitoring_msg};
use rotonda::verif::http as vh;
use rotonda::verif::manager as vm;
use rotonda::verif::ribq::RibQueryFixture;
use rotonda::verif::vribquery as vq;
use serde_json::Value;
use verif_harness::rib::{encode_update, BmpPeer, BmpRouter, Nlri, Pfx, Safi, Upd};
use verif_harness::{join, parse_args, replay_cases, rng::Rng, Recorder};

// =====================================================================================================
// panic log: every panic of the process is recorded (site = file basename + kind of message)
// =====================================================================================================

static PANICS: Mutex<Vec<String>> = Mutex::new(Vec::new());

fn install_panic_hook() {
    std::panic::set_hook(Box::new(|info| {
        let file = info.location().map(|l| l.file().rsplit('/').next().unwrap_or("?").to_string()).unwrap_or("?".into());
        let msg = if let Some(s) = info.payload().downcast_ref::<&str>() { s.to_string() } else if let Some(s) = info.payload().downcast_ref::<String>() { s.clone() } else { "?".into() };
        let kind = if msg.contains("not yet implemented") { "todo" }
            else if msg.contains("called `Result::unwrap()` on an `Err` value") { "unwrap-err" }
            else if msg.contains("called `Option::unwrap()` on a `None` value") { "unwrap-none" }
            else if msg.contains("total order") { "sort-total-order" }
            else if msg.contains("unreachable") { "unreachable" }
            else { "other" };
        PANICS.lock().unwrap_or_else(|e| e.into_inner()).push(format!("{file}:{kind}"));
    }));
}
fn panics_take() -> Vec<String> { std::mem::take(&mut *PANICS.lock().unwrap_or_else(|e| e.into_inner())) }
fn panics_len() -> usize { PANICS.lock().unwrap_or_else(|e| e.into_inner()).len() }

// =====================================================================================================
// Part A: the running pipeline
// =====================================================================================================

/// The prefixes of part A: nested ones (less / more specifics), a sibling and one nobody announces.
const POOL: [([u8; 4], u8); 6] = [([10, 1, 0, 0], 16), ([10, 1, 1, 0], 24), ([10, 1, 1, 128], 25), ([10, 2, 0, 0], 16), ([10, 1, 2, 0], 24), ([10, 250, 0, 0], 24)];
const NEVER: usize = 5;
fn pool_pfx(i: usize) -> Pfx { Pfx::v4(POOL[i].0, POOL[i].1) }
fn pool_text(i: usize) -> String { let (a, l) = POOL[i]; format!("{}.{}.{}.{}/{}", a[0], a[1], a[2], a[3], l) }

/// status `get_t` reports when no response arrived within the wait
const TIMEOUT: u16 = 598;

#[derive(Default)]
struct Window { armed: AtomicBool, parked: AtomicUsize, release: AtomicBool }

struct Pipe {
    rt: tokio::runtime::Runtime,
    manager: vm::Manager,
    port: u16,
    routers: BTreeMap<u8, (TcpStream, BmpPeer)>,
    window: Arc<Window>,
    k: u8,
    vr: bool,
}

fn free_port() -> u16 { TcpListener::bind("127.0.0.1:0").ok().and_then(|l| l.local_addr().ok()).map(|a| a.port()).unwrap_or(0) }

fn render(k: u8, vr: bool, port: u16) -> String {
    let mut s = String::from("http_listen = [\"127.0.0.1:0\"]\n");
    s.push_str(&format!("\n[units.b0]\ntype = \"bmp-tcp-in\"\nlisten = \"127.0.0.1:{port}\"\nhttp_api_path = \"/routers0/\"\n"));
    s.push_str("\n[units.rib]\ntype = \"rib\"\nsources = [\"b0\"]\nhttp_api_path = \"/prefixes/\"\n");
    if k > 0 { s.push_str(&format!("filter_names = [{}]\n", join((0..=k).map(|i| format!("\"f{i}\"")), ", "))); }
    s.push_str("\n[units.rib.query_limits.more_specifics]\nshortest_prefix_ipv4 = 16\nshortest_prefix_ipv6 = 19\n");
    if vr { s.push_str("\n[units.vr]\ntype = \"rib\"\nrib_type = \"Virtual\"\nsources = [\"rib\"]\nvrib_upstream = \"rib\"\nhttp_api_path = \"/vr/\"\n"); }
    s.push_str("\n[targets.t0]\ntype = \"null-out\"\nsources = [\"rib\"]\n");
    if vr { s.push_str("\n[targets.t8]\ntype = \"null-out\"\nsources = [\"vr\"]\n"); }
    s
}

impl Pipe {
    /// `ConfigFile::new` -> `Manager::load` -> `prepare` -> `spawn`, as `main.rs` does it.
    fn new(dir: &std::path::Path, k: u8, vr: bool) -> Result<Pipe, String> {
        let window: Arc<Window> = Arc::default();
        let w = window.clone();
        // Every worker thread gets a gate event handler: when armed, the first gate that starts publishing an
        // update (`Gate::update_data`, tap `update.begin`) is held until the harness releases it. Not armed: no-op.
        let rt = tokio::runtime::Builder::new_multi_thread().worker_threads(4).enable_all()
            .on_thread_start(move || {
                let w = w.clone();
                rotonda::verif::gate::set_event_handler(Some(Arc::new(move |name: &'static str, _id| {
                    if name != "update.begin" || !w.armed.swap(false, AO::SeqCst) { return; }
                    w.parked.fetch_add(1, AO::SeqCst);
                    let t0 = Instant::now();
                    while !w.release.load(AO::SeqCst) && t0.elapsed() < Duration::from_secs(20) { std::thread::sleep(Duration::from_micros(200)); }
                })));
            }).build().map_err(|e| e.to_string())?;
        let _g = rt.enter();
        vm::reset_loader();
        let mut manager = vm::Manager::new();
        let port = free_port();
        let text = render(k, vr, port);
        let path = dir.join("rotonda.conf");
        let file = catch_unwind(AssertUnwindSafe(|| vm::ConfigFile::new(text.into_bytes(), vm::Source::from(&path)))).map_err(|_| "panic:config-file")?.map_err(|e| format!("config-file {e}"))?;
        let mut config = catch_unwind(AssertUnwindSafe(|| manager.load(&file))).map_err(|_| "panic:load")?.map_err(|_| "load-rejected".to_string())?;
        catch_unwind(AssertUnwindSafe(|| manager.prepare(&config, &file))).map_err(|_| "panic:prepare")?.map_err(|_| "prepare-rejected".to_string())?;
        catch_unwind(AssertUnwindSafe(|| manager.spawn(&mut config))).map_err(|_| "panic:spawn")?;
        drop(_g);
        Ok(Pipe { rt, manager, port, routers: BTreeMap::new(), window, k, vr })
    }

    /// One request through the real handler chain. A request that is not answered within `ms` — or, when
    /// `until_panic`, within 250 ms after a panic was recorded — is dropped and reported as `TIMEOUT`.
    fn get_t(&self, target: &str, ms: u64, until_panic: bool) -> (u16, String) {
        let req = Request::builder().method("GET").uri(target).body(Body::empty()).unwrap();
        let resources = self.manager.http_resources();
        let metrics = self.manager.metrics();
        let p0 = panics_len();
        let r = catch_unwind(AssertUnwindSafe(|| self.rt.block_on(async {
            let fut = async {
                let res = vh::handle_request(req, &metrics, &resources).await;
                let status = res.status().as_u16();
                let body = hyper::body::to_bytes(res.into_body()).await.map(|b| b.to_vec()).unwrap_or_default();
                (status, String::from_utf8_lossy(&body).into_owned())
            };
            tokio::pin!(fut);
            let t0 = Instant::now();
            let mut panic_seen: Option<Instant> = None;
            loop {
                match tokio::time::timeout(Duration::from_millis(20), &mut fut).await {
                    Ok(x) => return x,
                    Err(_) => {
                        if until_panic && panic_seen.is_none() && panics_len() > p0 { panic_seen = Some(Instant::now()); }
                        if let Some(t) = panic_seen { if t.elapsed() > Duration::from_millis(250) { return (TIMEOUT, "timeout".into()); } }
                        if t0.elapsed() > Duration::from_millis(ms) { return (TIMEOUT, "timeout".into()); }
                    }
                }
            }
        })));
        r.unwrap_or((599, "panic".into()))
    }

    /// The request future is dropped (the client went away) while the physical RIB is about to publish the
    /// query result: the gate is held at `update.begin`, the future dropped, the gate released.
    fn get_client_gone(&self, target: &str) -> (u16, String) {
        let req = Request::builder().method("GET").uri(target).body(Body::empty()).unwrap();
        let resources = self.manager.http_resources();
        let metrics = self.manager.metrics();
        self.window.parked.store(0, AO::SeqCst);
        self.window.release.store(false, AO::SeqCst);
        self.window.armed.store(true, AO::SeqCst);
        let w = self.window.clone();
        let r = catch_unwind(AssertUnwindSafe(|| self.rt.block_on(async {
            let fut = async {
                let res = vh::handle_request(req, &metrics, &resources).await;
                let status = res.status().as_u16();
                let body = hyper::body::to_bytes(res.into_body()).await.map(|b| b.to_vec()).unwrap_or_default();
                (status, String::from_utf8_lossy(&body).into_owned())
            };
            tokio::pin!(fut);
            let t0 = Instant::now();
            loop {
                match tokio::time::timeout(Duration::from_millis(5), &mut fut).await {
                    Ok(x) => return x,                                   // answered before anything was published (4xx)
                    Err(_) => {
                        if w.parked.load(AO::SeqCst) > 0 { return (TIMEOUT, "client-gone".into()); }
                        if t0.elapsed() > Duration::from_secs(20) { return (597, "never-published".into()); }
                    }
                }
            }
        })));
        self.window.armed.store(false, AO::SeqCst);
        // the future is dropped now; let the gate go on and give the delivery time to happen
        let p0 = panics_len();
        self.window.release.store(true, AO::SeqCst);
        let r = r.unwrap_or((599, "panic".into()));
        if r.0 == TIMEOUT {
            let t0 = Instant::now();
            while panics_len() == p0 && t0.elapsed() < Duration::from_millis(600) { std::thread::sleep(Duration::from_millis(5)); }
        }
        r
    }

    fn connect(&mut self, r: u8) -> bool {
        let addr: SocketAddr = format!("127.0.0.1:{}", self.port).parse().unwrap();
        let t0 = Instant::now();
        let mut sock = loop {
            match TcpStream::connect_timeout(&addr, Duration::from_millis(500)) { Ok(s) => break s, Err(_) if t0.elapsed() < Duration::from_secs(10) => std::thread::sleep(Duration::from_millis(10)), Err(_) => return false }
        };
        let peer = BmpPeer::plain(r as u32);
        let _ = sock.set_nodelay(true);
        let ok = sock.write_all(&mk_initiation_msg(&format!("router{r}"), "verif")).is_ok() && sock.write_all(&BmpRouter::peer_up_msg(&peer)).is_ok();
        self.routers.insert(r, (sock, peer));
        ok
    }

    fn announce(&mut self, r: u8, idx: &[usize]) -> bool {
        let Some((sock, peer)) = self.routers.get_mut(&r) else { return false };
        let u = Upd { attr: 100 + r as u32, ann: idx.iter().map(|i| Nlri { pfx: pool_pfx(*i), safi: Safi::U }).collect(), wd: vec![], mp4: false, corrupt: 0 };
        let (pdu, _) = encode_update(&u).expect("encodable");
        sock.write_all(&mk_raw_route_monitoring_msg(&peer.pph(), Bytes::from(pdu))).is_ok()
    }
}

/// The sections of a prefix-query answer as sorted entry lists `prefix@asn:status`.
fn sections(body: &str) -> Option<(Vec<String>, Option<Vec<String>>, Option<Vec<String>>)> {
    let v: Value = serde_json::from_str(body).ok()?;
    let ent = |x: &Value| -> Option<Vec<String>> {
        let mut out = vec![];
        for e in x.as_array()? {
            let asn: String = e["ingress_info"]["remote_asn"].to_string().chars().filter(|c| c.is_ascii_digit()).collect();
            out.push(format!("{}@{}:{}", e["prefix"].as_str()?, asn, match e["status"].as_str()? { "active" => 'A', "withdrawn" => 'W', _ => '?' }));
        }
        out.sort();
        Some(out)
    };
    let d = ent(v.get("data")?)?;
    let inc = v.get("included")?;
    let l = match inc.get("lessSpecifics") { None => None, Some(x) => Some(ent(x)?) };
    let m = match inc.get("moreSpecifics") { None => None, Some(x) => Some(ent(x)?) };
    Some((d, l, m))
}

#[derive(Clone, Debug, PartialEq)]
struct VQuery { ep: char, what: char, idx: usize, inc: char }
impl VQuery {
    fn show(&self) -> String { format!("{}.{}.{}", self.ep, if self.what == 'q' { self.idx.to_string() } else { self.what.to_string() }, self.inc) }
    fn parse(s: &str) -> Option<VQuery> {
        let f: Vec<&str> = s.split('.').collect();
        if f.len() != 3 { return None; }
        let ep = f[0].chars().next()?;
        let (what, idx) = match f[1] { "i" => ('i', 0), "u" => ('u', 0), "c" => ('c', 0), n => ('q', n.parse().ok().filter(|i| *i < POOL.len())?) };
        let inc = f[2].chars().next()?;
        if !"p0123vx".contains(ep) || !"nlmb".contains(inc) { return None; }
        Some(VQuery { ep, what, idx, inc })
    }
    fn base(&self) -> Option<&'static str> { match self.ep { 'p' => Some("/prefixes/"), '0' => Some("/prefixes/0/"), '1' => Some("/prefixes/1/"), '2' => Some("/prefixes/2/"), '3' => Some("/prefixes/3/"), 'v' => Some("/vr/"), _ => None } }
    fn target(&self, base: &str) -> String {
        let q = match self.inc { 'l' => "?include=lessSpecifics", 'm' => "?include=moreSpecifics", 'b' => "?include=lessSpecifics,moreSpecifics", _ => "" };
        match self.what {
            'i' => format!("{base}7"),
            'u' => format!("{base}{}?sort_by=/ingress_id", pool_text(self.idx)),
            'c' => format!("{base}{}{q}", pool_text(NEVER)),
            _ => format!("{base}{}{q}", pool_text(self.idx)),
        }
    }
}

/// `D<n>L<n|->M<n|->` of a 200 answer, `E<status>` otherwise.
fn summary(st: u16, body: &str) -> String {
    if st != 200 { return format!("E{st}"); }
    match sections(body) { Some((d, l, m)) => format!("D{}L{}M{}", d.len(), l.map_or("-".into(), |x| x.len().to_string()), m.map_or("-".into(), |x| x.len().to_string())), None => "E-json".into() }
}

struct VCase { k: u8, vr: bool, ann: Vec<(u8, usize)>, qs: Vec<VQuery>, ups: Vec<String> }
impl VCase {
    fn line(&self) -> String {
        format!("V|{}.{}|{}|{}", self.k, self.vr as u8, join(self.ann.iter().map(|(r, i)| format!("{r}.{i}")), ","),
            join(self.qs.iter().zip(&self.ups).map(|(q, u)| format!("{}={}", q.show(), u)), ";"))
    }
    fn parse(line: &str) -> Option<VCase> {
        let f: Vec<&str> = line.split('|').collect();
        if f.len() != 4 || f[0] != "V" { return None; }
        let (k, vr) = f[1].split_once('.')?;
        let ann = if f[2].is_empty() { vec![] } else { f[2].split(',').map(|a| { let (r, i) = a.split_once('.')?; Some((r.parse().ok()?, i.parse().ok().filter(|i| *i < NEVER)?)) }).collect::<Option<Vec<_>>>()? };
        let mut qs = vec![]; let mut ups = vec![];
        for q in f[3].split(';') { let (a, b) = q.split_once('=')?; qs.push(VQuery::parse(a)?); ups.push(b.to_string()); }
        Some(VCase { k: k.parse().ok()?, vr: vr == "1", ann, qs, ups })
    }
}

/// Runs the case on a fresh pipeline: announce, settle, ask the physical RIB every query of the sequence
/// (`ups`), then run the sequence. Returns the observation tokens and, per query, the full answers
/// (status, entries) of the endpoint and of the physical RIB for the oracle.
struct VRun { obs: Vec<String>, ups: Vec<String>, detail: Vec<(u16, String)>, up_detail: Vec<(u16, String)>, setup: Option<String> }

fn run_v(dir: &std::path::Path, c: &VCase) -> VRun {
    let mut out = VRun { obs: vec![], ups: vec![], detail: vec![], up_detail: vec![], setup: None };
    let mut pipe = match Pipe::new(dir, c.k, c.vr) { Ok(p) => p, Err(e) => { out.setup = Some(e); return out; } };
    let mut by_router: BTreeMap<u8, Vec<usize>> = BTreeMap::new();
    for (r, i) in &c.ann { by_router.entry(*r).or_default().push(*i); }
    for (r, idx) in &by_router {
        if !pipe.connect(*r) || !pipe.announce(*r, idx) { out.setup = Some("bmp-session".into()); return out; }
    }
    // settle: every announced (router, prefix) shows at the physical RIB
    let want: BTreeSet<(usize, u32)> = c.ann.iter().map(|(r, i)| (*i, 65000 + *r as u32)).collect();
    let t0 = Instant::now();
    loop {
        let mut missing = false;
        for (i, asn) in &want {
            let (st, body) = pipe.get_t(&format!("/prefixes/{}", pool_text(*i)), 20_000, false);
            let seen = st == 200 && sections(&body).map(|(d, _, _)| d.iter().any(|e| e.contains(&format!("@{asn}:")))).unwrap_or(false);
            if !seen { missing = true; break; }
        }
        if !missing { break; }
        if t0.elapsed() > Duration::from_secs(30) { out.setup = Some("routes-did-not-settle".into()); return out; }
        std::thread::sleep(Duration::from_millis(5));
    }
    // every virtual endpoint answers a query for a prefix nobody announced (a trigger sent before the physical RIB's
    // unit has passed its start-up waitpoint is swallowed there: retry with growing waits, as the C13 engine does)
    let mut eps: Vec<String> = (0..c.k).map(|j| format!("/prefixes/{j}/")).collect();
    if c.vr { eps.push("/vr/".into()); }
    for b in &eps {
        let mut ok = false;
        let t0 = Instant::now();
        let mut waits = [500u64, 1000, 2000, 4000].into_iter();
        while t0.elapsed() < Duration::from_secs(40) {
            match pipe.get_t(&format!("{b}{}", pool_text(NEVER)), 500, false).0 {
                200 => { ok = true; break; }
                TIMEOUT => { let Some(w) = waits.next() else { break }; if pipe.get_t(&format!("{b}{}", pool_text(NEVER)), w, false).0 == 200 { ok = true; break; } }
                _ => std::thread::sleep(Duration::from_millis(5)),          // not registered yet (404)
            }
        }
        if !ok { out.setup = Some(format!("virtual-endpoint-not-answering {b}")); return out; }
    }
    let _ = panics_take();
    // the physical RIB's own answers
    for q in &c.qs {
        let (st, body) = match q.base() { None => (200, String::new()), Some(_) => pipe.get_t(&q.target("/prefixes/"), 20_000, false) };
        out.ups.push(if q.ep == 'x' { "-".into() } else { summary(st, &body) });
        out.up_detail.push((st, body));
    }
    // the sequence. Once a query went unanswered the physical RIB's task is gone for good: later waits are short.
    let mut dead = false;
    for q in &c.qs {
        let _ = panics_take();
        let (st, body) = match (q.base(), q.what) {
            (None, _) => pipe.get_t("/status", 20_000, false),
            (Some(b), 'c') if !dead => pipe.get_client_gone(&q.target(b)),
            (Some(b), _) => pipe.get_t(&q.target(b), if dead { 250 } else { 20_000 }, true),
        };
        let ps = panics_take();
        // an abandoned request that nobody answers is how it should be; anything else unanswered means the task is gone
        if st == TIMEOUT && (q.what != 'c' || !ps.is_empty()) { dead = true; }
        let mut tok = match st { 200 if q.ep == 'x' => "200".to_string(), 200 => format!("200:{}", summary(st, &body)), TIMEOUT => "T".into(), s => s.to_string() };
        let mut sites: Vec<String> = ps; sites.sort(); sites.dedup();
        for s in &sites { tok.push('!'); tok.push_str(s); }
        out.obs.push(tok);
        out.detail.push((st, body));
    }
    let rt = std::mem::replace(&mut pipe.rt, tokio::runtime::Builder::new_current_thread().build().unwrap());
    drop(pipe.routers);
    rt.shutdown_timeout(Duration::from_millis(200));
    out
}


// =====================================================================================================
// Part B: JSON prefix code, comparator / sort cases, populated RIB
// =====================================================================================================

fn hex(b: &[u8]) -> String { b.iter().map(|x| format!("{x:02x}")).collect() }
fn unhex(s: &str) -> Option<Vec<u8>> { if s.len() % 2 != 0 { return None; } (0..s.len() / 2).map(|i| u8::from_str_radix(s.get(2 * i..2 * i + 2)?, 16).ok()).collect() }

/// The prefix code of a JSON value; `None` for a float the model cannot represent.
fn enc(v: &Value, out: &mut String) -> Option<()> {
    match v {
        Value::Null => out.push_str("n;"),
        Value::Bool(true) => out.push_str("t;"),
        Value::Bool(false) => out.push_str("f;"),
        Value::Number(n) => {
            if let Some(u) = n.as_u64() { out.push_str(&format!("i{u};")) }
            else if let Some(i) = n.as_i64() { out.push_str(&format!("i{i};")) }
            else { let f = n.as_f64()?; let h = f * 2.0; if h.fract() != 0.0 || h.abs() > 1e12 { return None; } out.push_str(&format!("d{};", h as i64)) }
        }
        Value::String(s) => out.push_str(&format!("s{};", hex(s.as_bytes()))),
        Value::Array(a) => { out.push_str(&format!("a{};", a.len())); for x in a { enc(x, out)?; } }
        Value::Object(m) => {
            let mut ks: Vec<&String> = m.keys().collect(); ks.sort();
            out.push_str(&format!("o{};", ks.len()));
            for k in ks { out.push_str(&format!("s{};", hex(k.as_bytes()))); enc(&m[k.as_str()], out)?; }
        }
    }
    Some(())
}
fn enc1(v: &Value) -> Option<String> { let mut s = String::new(); enc(v, &mut s)?; Some(s) }
fn enc_list(vs: &[Value]) -> Option<String> { let mut s = String::new(); for v in vs { enc(v, &mut s)?; } Some(s) }

fn dec(toks: &mut std::iter::Peekable<std::str::Split<'_, char>>) -> Option<Value> {
    let t = toks.next()?;
    let (k, body) = (t.get(..1)?, t.get(1..)?);
    Some(match k {
        "n" => Value::Null, "t" => Value::Bool(true), "f" => Value::Bool(false),
        "i" => if let Ok(u) = body.parse::<u64>() { Value::from(u) } else { Value::from(body.parse::<i64>().ok()?) },
        "d" => Value::from(body.parse::<i64>().ok()? as f64 / 2.0),
        "s" => Value::String(String::from_utf8(unhex(body)?).ok()?),
        "a" => { let n: usize = body.parse().ok()?; let mut v = vec![]; for _ in 0..n { v.push(dec(toks)?); } Value::Array(v) }
        "o" => { let n: usize = body.parse().ok()?; let mut m = serde_json::Map::new(); for _ in 0..n { let k = toks.next()?; let k = String::from_utf8(unhex(k.get(1..)?)?).ok()?; m.insert(k, dec(toks)?); } Value::Object(m) }
        _ => return None,
    })
}
fn dec_list(s: &str) -> Option<Vec<Value>> {
    let t = s.trim_end_matches(';');
    if t.is_empty() { return Some(vec![]); }
    let mut toks = t.split(';').peekable();
    let mut out = vec![];
    while toks.peek().is_some() { out.push(dec(&mut toks)?); }
    Some(out)
}

struct JGen { rng: Rng }
impl JGen {
    fn num(&mut self) -> Value {
        match self.rng.below(12) {
            0 => Value::from(-(self.rng.range(1, 3) as i64)),
            1 => Value::from(*self.rng.pick(&[i64::MAX as u64, i64::MAX as u64 + 1, u64::MAX])),
            2 | 3 => Value::from(self.rng.range(0, 8) as f64 / 2.0 - 1.0),
            4 => Value::from(i64::MIN),
            _ => Value::from(self.rng.range(0, 4)),
        }
    }
    fn string(&mut self) -> Value { Value::String(self.rng.pick(&["", "a", "ab", "b", "B", "é", "a/b", "10.0.0.0/8", "9.0.0.0/8"]).to_string()) }
    fn key(&mut self) -> String { self.rng.pick(&["a", "b", "", "a/b", "m~n", "0", "01", "~1"]).to_string() }
    fn value(&mut self, depth: u32) -> Value {
        match self.rng.below(if depth == 0 { 7 } else { 10 }) {
            0 => Value::Null,
            1 => Value::Bool(self.rng.chance(1, 2)),
            2 | 3 => self.num(),
            4 | 5 | 6 => self.string(),
            7 | 8 => { let n = self.rng.below(4); Value::Array((0..n).map(|_| self.value(depth - 1)).collect()) }
            _ => self.object(depth - 1),
        }
    }
    fn object(&mut self, depth: u32) -> Value {
        let mut m = serde_json::Map::new();
        for _ in 0..self.rng.below(4) { let k = self.key(); let v = self.value(depth); m.insert(k, v); }
        Value::Object(m)
    }
    /// a value close to `v`: the same, a sibling of the same type, or anything
    fn near(&mut self, v: &Value, depth: u32) -> Value {
        match self.rng.below(6) {
            0 => v.clone(),
            1 | 2 | 3 => match v {
                Value::Number(_) => self.num(),
                Value::String(_) => self.string(),
                Value::Bool(b) => Value::Bool(!b),
                Value::Array(a) => { let mut a = a.clone(); match self.rng.below(3) { 0 => { a.pop(); } 1 => a.push(self.value(depth.saturating_sub(1))), _ => if !a.is_empty() { let i = self.rng.below(a.len() as u64) as usize; a[i] = self.near(&a[i].clone(), depth.saturating_sub(1)); } } Value::Array(a) }
                Value::Object(_) => self.object(depth.saturating_sub(1).max(0)),
                Value::Null => Value::Null,
            },
            _ => self.value(depth),
        }
    }
    fn pointer(&mut self) -> String {
        self.rng.pick(&["/a", "/b", "/a/0", "/a/b", "", "/", "a", "/a~1b", "/m~0n", "/0", "/01", "/+1", "/1", "/a/1", "/~01", "/nope", "/b/a"]).to_string()
    }
    fn keys(&mut self) -> String { let n = self.rng.range(1, 3); join((0..n).map(|_| self.pointer()), ",") }
}

fn ord_char(o: std::cmp::Ordering) -> &'static str { match o { std::cmp::Ordering::Less => "L", std::cmp::Ordering::Equal => "E", std::cmp::Ordering::Greater => "G" } }

/// `C|a|b`
fn run_c(a: &Value, b: &Value) -> String {
    match catch_unwind(AssertUnwindSafe(|| vq::cmp_json_values(a, b))) { Ok(o) => ord_char(o).to_string(), Err(_) => { let _ = panics_take(); "panic".into() } }
}
/// The comparator is judged as an ordering: reflexive, and antisymmetric (`cmp(a,b)` is the reverse of `cmp(b,a)`).
fn oracle_c(a: &Value, b: &Value, ab: &str) -> String {
    if ab == "panic" { return "fail ribsort:comparator-panic cmp_json_values panicked".into(); }
    // what the comments of the code promise: strings in string order, (small) unsigned numbers in numeric order
    let want = match (a, b) {
        (Value::String(x), Value::String(y)) => Some(x.cmp(y)),
        (Value::Number(x), Value::Number(y)) => match (x.as_u64().filter(|v| *v <= i64::MAX as u64), y.as_u64().filter(|v| *v <= i64::MAX as u64)) { (Some(x), Some(y)) => Some(x.cmp(&y)), _ => None },
        (Value::Bool(x), Value::Bool(y)) => Some(x.cmp(y)),
        _ => None,
    };
    if let Some(w) = want { if ord_char(w) != ab { return format!("fail ribsort:comparator-wrong-order two values of one plain type compare {ab}, their natural order is {}", ord_char(w)); } }
    let ba = run_c(b, a);
    let rev = match ab { "L" => "G", "G" => "L", _ => "E" };
    if ba != rev { return format!("ok ## not-antisymmetric cmp(a,b)={ab} cmp(b,a)={ba}"); }
    "ok".into()
}

/// `S|keys|values`: the permutation `sort_results` applies (positions in the input, equal values told apart by position:
/// the sort is stable and the values are matched greedily from the left).
fn run_s(keys: Option<&str>, vals: &[Value]) -> String {
    let mut v = vals.to_vec();
    if catch_unwind(AssertUnwindSafe(|| vq::sort_results(keys, &mut v))).is_err() { let _ = panics_take(); return "panic".into(); }
    perm_of(vals, &v).map(|p| format!("[{}]", join(p.iter(), " "))).unwrap_or("not-a-permutation".into())
}
/// The sorted slice is a permutation of its input; entries that lack the first key come before those that have it
/// (`missing < present`); entries whose first key holds strings (or small unsigned numbers) throughout are in that order.
fn oracle_s(keys: Option<&str>, vals: &[Value], imp: &str) -> String {
    if imp == "panic" { return "fail ribsort:sort-panic sort_results panicked".into(); }
    if imp == "not-a-permutation" { return "fail ribsort:sort-changes-answer:slice the sorted slice is not a permutation of its input".into(); }
    let Some(keys) = keys else { return "ok".into() };
    let k0 = keys.split(',').next().unwrap_or("");
    let perm: Vec<usize> = imp.trim_matches(['[', ']']).split_whitespace().filter_map(|x| x.parse().ok()).collect();
    let at: Vec<Option<&Value>> = perm.iter().map(|i| vals[*i].pointer(k0)).collect();
    if at.windows(2).any(|w| w[0].is_some() && w[1].is_none()) { return "fail ribsort:missing-not-first an entry without the sort key comes after one that has it".into(); }
    let present: Vec<&Value> = at.iter().flatten().cloned().collect();
    if present.iter().all(|v| v.is_string()) && present.windows(2).any(|w| w[0].as_str() > w[1].as_str()) { return "fail ribsort:not-ordered-by-key string values of the sort key are not in order".into(); }
    if present.iter().all(|v| v.as_u64().is_some_and(|x| x < 1 << 62)) && present.windows(2).any(|w| w[0].as_u64() > w[1].as_u64()) { return "fail ribsort:not-ordered-by-key numeric values of the sort key are not in order".into(); }
    "ok".into()
}
/// positions in `base` of the elements of `sorted` (each position used once; leftmost unused equal value first)
fn perm_of(base: &[Value], sorted: &[Value]) -> Option<Vec<usize>> {
    if base.len() != sorted.len() { return None; }
    let mut used = vec![false; base.len()];
    let mut out = vec![];
    for s in sorted { let i = (0..base.len()).find(|i| !used[*i] && base[*i] == *s)?; used[i] = true; out.push(i); }
    Some(out)
}

// ------------------------------------------------------------------ populated RIB (c11 style)

#[derive(Clone, Copy, Debug, PartialEq, Eq, PartialOrd, Ord)]
struct QPfx { fam: u8, len: u8, bits: u128 }
impl QPfx {
    fn width(&self) -> u8 { if self.fam == 4 { 32 } else { 128 } }
    fn show(&self) -> String { format!("{}/{}/{}", self.fam, self.len, self.bits) }
    fn addr(&self) -> u128 { if self.len == 0 { 0 } else { self.bits << (self.width() - self.len) } }
    fn text(&self) -> String { if self.fam == 4 { format!("{}/{}", std::net::Ipv4Addr::from(self.addr() as u32), self.len) } else { format!("{}/{}", std::net::Ipv6Addr::from(self.addr()), self.len) } }
    fn parse_show(s: &str) -> Option<QPfx> { let p: Vec<&str> = s.split('/').collect(); if p.len() != 3 { return None; } Some(QPfx { fam: p[0].parse().ok()?, len: p[1].parse().ok()?, bits: p[2].parse().ok()? }) }
    fn parse_text(s: &str) -> Option<QPfx> {
        let (a, l) = s.split_once('/')?; let len: u8 = l.parse().ok()?;
        if let Ok(v4) = a.parse::<std::net::Ipv4Addr>() { let addr = u32::from(v4) as u128; Some(QPfx { fam: 4, len, bits: if len == 0 { 0 } else { addr >> (32 - len) } }) }
        else { let addr = u128::from(a.parse::<std::net::Ipv6Addr>().ok()?); Some(QPfx { fam: 6, len, bits: if len == 0 { 0 } else { addr >> (128 - len) } }) }
    }
    fn to_inetnum(&self) -> inetnum::addr::Prefix {
        let ip: std::net::IpAddr = if self.fam == 4 { std::net::Ipv4Addr::from(self.addr() as u32).into() } else { std::net::Ipv6Addr::from(self.addr()).into() };
        inetnum::addr::Prefix::new(ip, self.len).unwrap()
    }
}

#[derive(Clone, Debug)]
struct QRec { mc: bool, pfx: QPfx, mui: u32, active: bool, aid: u32, path: Vec<u32>, comms: Vec<(u16, u16)> }
impl QRec {
    fn show(&self) -> String { format!("{},{},{},{},{}", if self.mc { "m" } else { "u" }, self.pfx.show(), self.mui, if self.active { "A" } else { "W" }, self.aid) }
    fn raw_attrs(&self) -> Vec<u8> {
        let mut v = vec![0x40, 1, 1, 0];
        v.extend([0x40, 2, if self.path.is_empty() { 0 } else { 2 + 4 * self.path.len() as u8 }]);
        if !self.path.is_empty() { v.extend([2u8, self.path.len() as u8]); for a in &self.path { v.extend(a.to_be_bytes()); } }
        v.extend([0x40, 3, 4, 192, 0, 2, 1]);
        v.extend([0x80, 4, 4]); v.extend(self.aid.to_be_bytes());
        if !self.comms.is_empty() { v.extend([0xC0, 8, 4 * self.comms.len() as u8]); for (a, b) in &self.comms { v.extend(a.to_be_bytes()); v.extend(b.to_be_bytes()); } }
        v
    }
}
/// The c11 fixture (real `PrefixesApi` + register) around a `Rib` the engine also holds itself.
struct Fx { f: RibQueryFixture, rib: Arc<rotonda::verif::rib::Rib> }
#[derive(Clone, Debug)]
struct QPop { ingress: Vec<(u32, Option<u32>)>, recs: Vec<QRec>, wd: Vec<u32> }
impl QPop {
    fn build(&self) -> Result<Fx, String> {
        let rib = Arc::new(rotonda::verif::rib::Rib::new_physical());
        let f = RibQueryFixture::around(rib.clone(), "/prefixes/", 8, 19);
        for (id, asn) in &self.ingress { f.set_ingress(*id, *asn); }
        for (t, r) in self.recs.iter().enumerate() {
            catch_unwind(AssertUnwindSafe(|| f.insert(r.pfx.to_inetnum(), r.mc, r.mui, true, r.raw_attrs(), t as u64))).map_err(|_| "panic-on-insert".to_string())??;
        }
        for (t, r) in self.recs.iter().enumerate() { if !r.active { f.insert(r.pfx.to_inetnum(), r.mc, r.mui, false, vec![], (self.recs.len() + t) as u64)?; } }
        for m in &self.wd { f.withdraw_ingress(*m); }
        Ok(Fx { f, rib })
    }
    fn gen(rng: &mut Rng, narrow: bool) -> QPop {
        let v6 = !narrow && rng.chance(1, 4);
        let base: u128 = if v6 { ((0x2001_0db8u128) << 96) | ((rng.next() as u128 & 0xFFFF) << 80) } else { (10u128 << 24) | ((rng.next() as u128 & 0xFF) << 16) };
        let (fam, w) = if v6 { (6u8, 128u32) } else { (4u8, 32u32) };
        let lens: Vec<u32> = if v6 { vec![32, 48, 49, 64] } else { vec![8, 16, 17, 24, 25] };
        let nmui = rng.range(2, 6) as u32;
        let mut ingress = vec![];
        for m in 1..=nmui { if rng.chance(5, 6) { ingress.push((m, if rng.chance(4, 5) { Some(*rng.pick(&[65001u32, 65002, 3, 4200000001])) } else { None })); } }
        let mut recs: Vec<QRec> = vec![];
        let npfx = rng.range(1, 5);
        for _ in 0..npfx {
            let len = *rng.pick(&lens);
            let mut addr = base; if rng.chance(1, 2) { addr ^= 1u128 << (w - len); }
            let bits = (addr >> (w - len)) & ((1u128 << len) - 1);
            let pfx = QPfx { fam, len: len as u8, bits };
            let mc = rng.chance(1, 8);
            for m in 1..=nmui {
                if !rng.chance(3, 4) || recs.iter().any(|r| r.mc == mc && r.pfx == pfx && r.mui == m) { continue; }
                let path = (0..rng.below(3)).map(|_| *rng.pick(&[1u32, 2, 65001, 4200000001])).collect();
                let comms = (0..rng.below(3)).map(|_| (*rng.pick(&[1u16, 2, 65001]), *rng.pick(&[1u16, 666]))).collect();
                recs.push(QRec { mc, pfx, mui: m, active: rng.chance(4, 5), aid: rng.range(1, 9) as u32 * 10 + recs.len() as u32 % 10, path, comms });
            }
        }
        let wd = (1..=nmui).filter(|_| rng.chance(1, 10)).collect();
        QPop { ingress, recs, wd }
    }
    fn show(&self) -> String { format!("{}|{}", join(self.recs.iter().map(|r| r.show()), ";"), join(self.wd.iter(), ",")) }
    /// everything the population was built from, `~`-separated (last field of an `R` line: replays only, the driver ignores it)
    fn show_full(&self) -> String {
        format!("{}~{}~{}", join(self.recs.iter().map(|r| format!("{},{},{}", r.show(), join(r.path.iter(), "."), join(r.comms.iter().map(|(a, b)| format!("{a}:{b}")), "."))), ";"), join(self.wd.iter(), ","),
            join(self.ingress.iter().map(|(i, a)| format!("{}:{}", i, a.map_or("-".to_string(), |a| a.to_string()))), ","))
    }
    fn parse_full(t: &str) -> Option<QPop> {
        let f: Vec<&str> = t.split('~').collect();
        if f.len() != 3 { return None; }
        let mut recs = vec![];
        if !f[0].is_empty() { for r in f[0].split(';') {
            let g: Vec<&str> = r.split(',').collect(); if g.len() != 7 { return None; }
            let path = if g[5].is_empty() { vec![] } else { g[5].split('.').map(|x| x.parse().ok()).collect::<Option<Vec<u32>>>()? };
            let comms = if g[6].is_empty() { vec![] } else { g[6].split('.').map(|x| { let (a, b) = x.split_once(':')?; Some((a.parse().ok()?, b.parse().ok()?)) }).collect::<Option<Vec<(u16, u16)>>>()? };
            recs.push(QRec { mc: g[0] == "m", pfx: QPfx::parse_show(g[1])?, mui: g[2].parse().ok()?, active: g[3] == "A", aid: g[4].parse().ok()?, path, comms });
        } }
        let wd = if f[1].is_empty() { vec![] } else { f[1].split(',').map(|m| m.parse().ok()).collect::<Option<Vec<_>>>()? };
        let ingress = if f[2].is_empty() { vec![] } else { f[2].split(',').map(|e| { let (i, a) = e.split_once(':')?; Some((i.parse().ok()?, if a == "-" { None } else { Some(a.parse().ok()?) })) }).collect::<Option<Vec<_>>>()? };
        Some(QPop { ingress, recs, wd })
    }
    fn parse(recs: &str, wd: &str) -> Option<QPop> {
        let recs = if recs.is_empty() { vec![] } else { recs.split(';').map(|r| { let f: Vec<&str> = r.split(',').collect(); if f.len() != 5 { return None; }
            Some(QRec { mc: f[0] == "m", pfx: QPfx::parse_show(f[1])?, mui: f[2].parse().ok()?, active: f[3] == "A", aid: f[4].parse().ok()?, path: vec![], comms: vec![] }) }).collect::<Option<Vec<_>>>()? };
        let wd = if wd.is_empty() { vec![] } else { wd.split(',').map(|m| m.parse().ok()).collect::<Option<Vec<_>>>()? };
        Some(QPop { ingress: vec![], recs, wd })
    }
}

fn fx_get(rt: &tokio::runtime::Runtime, f: &Fx, path_and_query: &str) -> Result<(u16, String), String> {
    let uri = format!("http://localhost{path_and_query}");
    match catch_unwind(AssertUnwindSafe(|| rt.block_on(f.f.get(&uri)))) {
        Err(_) => { let p = panics_take(); Err(format!("panic {}", join(p.iter(), ","))) }
        Ok(Err(e)) => Err(format!("error {}", e.split_whitespace().next().unwrap_or("?"))),
        Ok(Ok(None)) => Ok((0, String::new())),
        Ok(Ok(Some(x))) => Ok(x),
    }
}

type Sections = (Vec<Value>, Option<Vec<Value>>, Option<Vec<Value>>);
fn json_sections(body: &str) -> Option<Sections> {
    let v: Value = serde_json::from_str(body).ok()?;
    let d = v.get("data")?.as_array()?.clone();
    let inc = v.get("included")?;
    let l = match inc.get("lessSpecifics") { None => None, Some(x) => Some(x.as_array()?.clone()) };
    let m = match inc.get("moreSpecifics") { None => None, Some(x) => Some(x.as_array()?.clone()) };
    Some((d, l, m))
}

const RENDER: [&str; 5] = ["sort", "details", "format", "sort_by", "sort_order"];
fn is_render_param(kv: &str) -> bool { let k = kv.split('=').next().unwrap_or(""); let k = k.split(['[', ']']).next().unwrap_or(""); RENDER.contains(&k) }

struct RCase { pfx: QPfx, query: String, pop: String }

/// `R|…`: returns (case line, impl line, oracle line, nontrivial)
fn run_r(rt: &tokio::runtime::Runtime, f: &Fx, c: &RCase, rec: &mut Recorder) -> Option<(String, String, String, bool)> {
    let base_q = join(c.query.split('&').filter(|kv| !kv.is_empty() && !is_render_param(kv)), "&");
    let path = format!("/prefixes/{}", c.pfx.text());
    let url = |q: &str| if q.is_empty() { path.clone() } else { format!("{path}?{q}") };
    let base = fx_get(rt, f, &url(&base_q));
    let (bd, bl, bm): Sections = match &base { Ok((200, body)) => json_sections(body)?, _ => (vec![], None, None) };
    // the store hands the records over in an order that is not part of any contract: it must at least be repeatable
    if let Ok((200, body)) = fx_get(rt, f, &url(&base_q)) { if json_sections(&body).map(|s| s != (bd.clone(), bl.clone(), bm.clone())).unwrap_or(true) { rec.bump("R.unstable-base-order"); return None; } }
    let sec = |s: &Option<Vec<Value>>| match s { None => Some("-".to_string()), Some(v) => enc_list(v).map(|e| if e.is_empty() { ";".into() } else { e }) };
    let line = format!("R|{}|8,19|{}|{}|{}|{}|{}", c.pfx.show(), hex(c.query.as_bytes()), enc_list(&bd).map(|e| if e.is_empty() { ";".into() } else { e })?, sec(&bl)?, sec(&bm)?, c.pop);
    let got = fx_get(rt, f, &url(&c.query));
    let show = |p: Option<Vec<usize>>| p.map(|p| format!("[{}]", join(p.iter(), " "))).unwrap_or("?".into());
    let (imp, oracle, nontrivial) = match &got {
        Err(e) if e.starts_with("panic") => ("panic".to_string(), format!("fail ribsort:panic GET {} panicked ({e})", url(&c.query)), true),
        Err(e) => (format!("odd {e}"), format!("fail ribsort:unexpected-response {e}"), true),
        Ok((200, body)) if body.starts_with("QueryResult") => ("200 dump".into(), "ok".into(), false),
        Ok((200, body)) => match json_sections(body) {
            None => ("odd json".into(), "fail ribsort:unexpected-response a 200 answer that is not the documented JSON".into(), true),
            Some((d, l, m)) => {
                let pd = perm_of(&bd, &d);
                let pl = match (&bl, &l) { (Some(b), Some(x)) => Some(perm_of(b, x)), (None, None) => None, _ => Some(None) };
                let pm = match (&bm, &m) { (Some(b), Some(x)) => Some(perm_of(b, x)), (None, None) => None, _ => Some(None) };
                let bad = if pd.is_none() { Some("data") } else if pl == Some(None) { Some("lessSpecifics") } else if pm == Some(None) { Some("moreSpecifics") } else { None };
                let imp = format!("200 D{} L{} M{}", show(pd.clone()), pl.clone().map_or("-".into(), show), pm.clone().map_or("-".into(), show));
                let moved = [pd, pl.flatten(), pm.flatten()].iter().flatten().any(|p| p.iter().enumerate().any(|(i, x)| i != *x));
                if moved { rec.bump("R.order-changed"); }
                let big = bd.len() >= 2 || bl.as_ref().is_some_and(|x| x.len() >= 2) || bm.as_ref().is_some_and(|x| x.len() >= 2);
                match bad {
                    Some(s) => (imp, format!("fail ribsort:sort-changes-answer:{s} the entries of {s} are not those of the same query without rendering parameters"), true),
                    None => (imp, "ok".into(), big),
                }
            }
        },
        Ok((400, _)) => {
            // documented: sort takes any value, details a comma list of `communities`, format `dump`; nothing else may be refused
            let base_ok = matches!(&base, Ok((200, _)));
            let mut seen: Vec<&str> = vec![];
            let mut documented = base_ok;
            for kv in c.query.split('&').filter(|kv| !kv.is_empty() && is_render_param(kv)) {
                let (k, v) = kv.split_once('=').unwrap_or((kv, ""));
                if seen.contains(&k) { documented = false; } seen.push(k);
                match k { "sort" => {}, "details" => if !v.split(',').all(|d| d == "communities") { documented = false }, "format" => if v != "dump" { documented = false }, _ => documented = false }
            }
            ("400".into(), if documented { "fail ribsort:valid-query-refused a documented query was answered 400".into() } else { "ok".into() }, false)
        }
        Ok((s, _)) => (format!("{s}"), format!("fail ribsort:server-error status {s}"), true),
    };
    // unknown rendering parameters must not be accepted silently
    let oracle = if oracle == "ok" && imp.starts_with("200") && c.query.split('&').any(|kv| kv.starts_with("sort_by=") || kv.starts_with("sort_order=")) { "fail ribsort:unknown-parameter-accepted sort_by / sort_order are not parameters of the API".to_string() } else { oracle };
    Some((line, imp, oracle, nontrivial))
}

/// `G|1|<hex text>|<recs>|<wd>|O<raw store iteration>`: the per-ingress listing of the physical RIB
fn run_g(rt: &tokio::runtime::Runtime, f: &Fx, pop: &QPop, text: &str) -> (String, String, String, bool) {
    let num = |t: &str| -> Option<u32> { let b = t.strip_prefix('+').unwrap_or(t); if b.is_empty() || !b.bytes().all(|c| c.is_ascii_digit()) { None } else { b.parse().ok() } };
    // what the dependency iterates for this ingress id (input of the model under `listing=as-observed`)
    let raw: Vec<QPfx> = num(text).and_then(|id| catch_unwind(AssertUnwindSafe(|| f.rib.verif_store_mui_prefixes(id))).ok().flatten()).unwrap_or_default()
        .iter().filter_map(|p| QPfx::parse_text(&p.to_string())).collect();
    let line = format!("G|1|{}|{}|O{}", hex(text.as_bytes()), pop.show(), join(raw.iter().map(|p| p.show()), ","));
    let got = fx_get(rt, f, &format!("/prefixes/{text}"));
    match got {
        Err(e) if e.starts_with("panic") => (line, "panic".into(), format!("fail ribsort:panic GET /prefixes/{text} panicked ({e})"), true),
        Err(e) => (line, format!("odd {e}"), format!("fail ribsort:unexpected-response {e}"), true),
        Ok((400, _)) => (line, "400".into(), if num(text).is_some() { "fail ribsort:listing-refused a numeric ingress id was answered 400".into() } else { "ok".into() }, false),
        Ok((200, body)) => {
            let mut items: Vec<(QPfx, u32)> = vec![]; let mut cur: Option<QPfx> = None; let mut odd = false;
            for l in body.lines() {
                if let Some(j) = l.strip_prefix('\t') {
                    let aid = serde_json::from_str::<Value>(j).ok().and_then(|v| v.as_array().and_then(|a| a.iter().find_map(|x| x.get("multiExitDisc").and_then(|m| m.as_u64()))));
                    match (cur, aid) { (Some(p), Some(a)) => items.push((p, a as u32)), _ => odd = true }
                } else { cur = QPfx::parse_text(l); if cur.is_none() { odd = true; } }
            }
            items.sort();
            let imp = format!("200 [{}]", join(items.iter().map(|(p, a)| format!("{}:{}", p.show(), a)), " "));
            let Some(id) = num(text) else { return (line, imp, "fail ribsort:listing-junk-accepted a path that is not an ingress id was answered 200".into(), true) };
            if odd { return (line, imp, "fail ribsort:unexpected-response unparsable listing".into(), true); }
            let stored: Vec<(QPfx, u32)> = pop.recs.iter().filter(|r| r.mui == id).map(|r| (r.pfx, r.aid)).collect();
            if let Some(x) = items.iter().find(|i| !stored.contains(i)) { return (line, imp, format!("fail ribsort:listing-unstored-entry {}:{} is not stored for ingress {id}", x.0.show(), x.1), true); }
            let must: Vec<(QPfx, u32)> = pop.recs.iter().filter(|r| r.mui == id && !r.mc && r.active && !pop.wd.contains(&id)).map(|r| (r.pfx, r.aid)).collect();
            if let Some(x) = must.iter().find(|i| !items.contains(i)) {
                // whose omission is it: the dependency's iterator, or rotonda's handling of what it got?
                let sig = if raw.contains(&x.0) { "ribsort:listing-omits-stored-route" } else { "ribsort:listing:store-iterator-omits-prefix-of-ingress" };
                return (line, imp, format!("fail {sig} the active unicast route {}:{} of ingress {id} is not listed", x.0.show(), x.1), true);
            }
            let nt = !items.is_empty();
            (line, imp, "ok".into(), nt)
        }
        Ok((s, _)) => (line, format!("{s}"), format!("fail ribsort:server-error status {s}"), true),
    }
}

fn gen_render_query(rng: &mut Rng, pop: &QPop) -> String {
    let mut parts: Vec<String> = vec![];
    match rng.below(5) { 0 => parts.push("include=lessSpecifics".into()), 1 => parts.push("include=moreSpecifics".into()), 2 => parts.push("include=lessSpecifics,moreSpecifics".into()), _ => {} }
    if rng.chance(1, 5) { parts.push(format!("{}[peer_as]={}", if rng.chance(1, 2) { "select" } else { "discard" }, rng.pick(&[65001u32, 65002, 3]))); }
    let ptrs = ["/ingress_id", "/prefix", "/status", "/ingress_info/remote_asn", "/ingress_info", "/attributes", "/attributes/0", "/attributes/1/asPath", "/attributes/3/multiExitDisc", "/attributes/4/communities", "/attributes/4/communities/0/parsed/value/tag", "", "/", "/nope", "ingress_id", "/ingress_id/x", "/attributes/01", "/status,/ingress_id", "/attributes/3", "/attributes/2/nextHop"];
    let n = match rng.below(10) { 0 => 0, 1..=6 => 1, _ => 2 };
    for _ in 0..n {
        match rng.below(12) {
            0..=6 => { let k = rng.range(1, 3); parts.push(format!("sort={}", join((0..k).map(|_| *rng.pick(&ptrs)), ","))); }
            7 => parts.push(format!("details={}", rng.pick(&["communities", "communities,communities", "all", "", "Communities"]))),
            8 => parts.push(format!("format={}", rng.pick(&["dump", "json", "", "DUMP"]))),
            9 => parts.push(format!("sort_by={}", rng.pick(&ptrs))),
            10 => parts.push(format!("sort_order={}", rng.pick(&["asc", "desc"]))),
            _ => parts.push("sort".into()),
        }
    }
    let _ = pop;
    // parameter order is free
    for i in (1..parts.len()).rev() { let j = rng.below(i as u64 + 1) as usize; parts.swap(i, j); }
    parts.join("&")
}

// =====================================================================================================
// oracle of part A
// =====================================================================================================

fn oracle_v(c: &VCase, run: &VRun) -> (String, bool) {
    if let Some(e) = &run.setup { return (format!("fail vrib:pipeline-setup {e}"), true); }
    let mut nontrivial = false;
    let mut first: Option<String> = None;
    let mut after: Vec<String> = vec![];
    for (i, q) in c.qs.iter().enumerate() {
        let tok = &run.obs[i];
        let (st, _) = &run.detail[i];
        let virt = q.base().is_some() && q.ep != 'p' && ((q.ep == 'v' && c.vr) || (q.ep.is_ascii_digit() && (q.ep as u8 - b'0') < c.k));
        let up = &run.ups[i];
        if virt && up.starts_with('D') && *up != "D0L-M-" && *up != "D0L0M-" && *up != "D0L-M0" && *up != "D0L0M0" { nontrivial = true; }
        let fail: Option<String> =
            if let Some(site) = tok.split('!').nth(1) {
                Some(match site {
                    "unit.rs:todo" => format!("vrib:nonempty-result-reaches-todo-in-reprocess-rib-value query {} ({}) panicked at {site}; answer {}", q.show(), up, tok.split('!').next().unwrap_or("")),
                    "unit.rs:unwrap-err" if q.what == 'c' => format!("vrib:client-gone-panics-result-delivery query {} panicked at {site} (tx.send(..).unwrap() after the requester went away)", q.show()),
                    s => format!("vrib:panic query {} panicked at {s}", q.show()),
                })
            } else if *st == TIMEOUT && q.what != 'c' { Some(format!("vrib:unanswered query {} was never answered", q.show())) }
            else if *st >= 500 && *st != TIMEOUT { Some(format!("vrib:server-error query {} answered {st}", q.show())) }
            else if q.ep == 'x' && *st != 200 { Some(format!("vrib:status-page-gone /status answered {st}")) }
            else if virt && (q.what == 'i' || q.what == 'u') && *st != 400 { Some(format!("vrib:malformed-request-not-refused {} answered {st}, not 400", q.show())) }
            else if (virt || q.ep == 'p') && q.what == 'q' && up.starts_with('D') && *tok != format!("200:{up}") && !(virt && *st == TIMEOUT) {
                // no roto script is loaded: every virtual RIB accepts everything, so its answer is the physical RIB's
                if virt { Some(format!("vrib:answer-differs-from-upstream query {} answered {tok}, the physical RIB {up}", q.show())) }
                else { Some(format!("vrib:physical-rib-stopped-answering query {} answered {tok}, before the sequence {up}", q.show())) }
            } else if virt && q.what == 'q' && *st == 200 && run.detail[i].1.len() > 2 && sections(&run.detail[i].1) != sections(&run.up_detail[i].1) {
                Some(format!("vrib:answer-differs-from-upstream query {} lists other entries than the physical RIB", q.show()))
            } else { None };
        match (&first, fail) {
            (None, Some(f)) => first = Some(f),
            (Some(_), Some(f)) => after.push(f.split_whitespace().next().unwrap_or("").to_string()),
            _ => {}
        }
    }
    match first {
        None => ("ok".into(), nontrivial),
        Some(f) => { after.sort(); after.dedup(); (format!("fail {f}{}", if after.is_empty() { String::new() } else { format!("; afterwards: {}", after.join(", ")) }), true) }
    }
}

fn gen_v(rng: &mut Rng) -> VCase {
    let k = *rng.pick(&[1u8, 1, 2, 3]);
    let vr = rng.chance(1, 3);
    let mut ann: Vec<(u8, usize)> = vec![];
    for r in 0..rng.range(1, 2) as u8 { for i in 0..NEVER { if rng.chance(1, 2) { ann.push((r, i)); } } }
    let mut eps: Vec<char> = (0..k).map(|j| (b'0' + j) as char).collect();
    if vr { eps.push('v'); }
    let n = rng.range(2, 6);
    let mut qs = vec![];
    for _ in 0..n {
        let ep = match rng.below(10) { 0 => 'p', 1 => 'x', 2 => (b'0' + k) as char, _ => *rng.pick(&eps) };
        let what = match rng.below(12) { 0 => 'i', 1 => 'u', 2 => 'c', _ => 'q' };
        let what = if ep == 'p' && what == 'i' { 'q' } else { what };
        // mostly empty answers first, so that the sequence gets somewhere on a tree where a record is fatal
        let idx = if rng.chance(2, 5) { NEVER } else { rng.below(POOL.len() as u64) as usize };
        let inc = *rng.pick(&['n', 'n', 'l', 'm', 'b']);
        qs.push(VQuery { ep, what, idx, inc });
    }
    // afterwards: does everybody still answer?
    qs.push(VQuery { ep: 'p', what: 'q', idx: 0, inc: 'n' });
    qs.push(VQuery { ep: eps[0], what: 'q', idx: NEVER, inc: 'n' });
    qs.push(VQuery { ep: 'x', what: 'q', idx: 0, inc: 'n' });
    VCase { k, vr, ann, qs, ups: vec![] }
}

/// consecutive pipelines that did not come up (a tree on which none does costs ~10 s per case: after two in a row the
/// remaining live cases are reported as set-up failures without being run)
static SETUP_FAILURES: AtomicUsize = AtomicUsize::new(0);

fn record_v(dir: &std::path::Path, mut c: VCase, rec: &mut Recorder, kind: &str) -> Vec<String> {
    let run = if SETUP_FAILURES.load(AO::SeqCst) >= 2 { VRun { obs: vec![], ups: vec![], detail: vec![], up_detail: vec![], setup: Some("not-run-after-two-failed-set-ups".into()) } } else { run_v(dir, &c) };
    if run.setup.is_some() { SETUP_FAILURES.fetch_add(1, AO::SeqCst); } else { SETUP_FAILURES.store(0, AO::SeqCst); }
    c.ups = if run.ups.len() == c.qs.len() { run.ups.clone() } else { c.qs.iter().map(|_| "?".to_string()).collect() };
    let (oracle, nt) = oracle_v(&c, &run);
    rec.bump(&format!("V.{kind}"));
    for t in &run.obs { rec.bump(&format!("V.obs.{}", t.split(':').next().unwrap_or("").split('!').next().unwrap_or(""))); if t.contains('!') { rec.bump("V.obs.panic"); } }
    let imp = if run.setup.is_some() { "setup-failed".to_string() } else { run.obs.join(" ") };
    rec.case(c.line(), imp, oracle, nt);
    run.obs
}


/// The witnesses of the defect sites: they run first and decide the variants the Lean driver is run with.
fn witnesses(dir: &std::path::Path, rt: &tokio::runtime::Runtime, rec: &mut Recorder) {
    let (dir, rec) = (dir.to_path_buf(), rec);
    // W1: a record in the upstream answer
    let w1 = VCase::parse("V|1.0|0.0|0.5.n=?;0.0.n=?;p.0.n=?;0.5.n=?;x.0.n=?").unwrap();
    let o1 = record_v(&dir, w1, rec, "witness");
    let todo = o1.get(1).is_some_and(|t| t.contains("unit.rs:todo"));
    rec.variant("reprocess", if todo { "as-written" } else { "repaired" });
    // W2: the client goes away, empty answer
    let w2 = VCase::parse("V|1.0|0.0|0.c.n=?;p.0.n=?;0.5.n=?;x.0.n=?").unwrap();
    let o2 = record_v(&dir, w2, rec, "witness");
    let gone = o2.first().is_some_and(|t| t.contains("unit.rs:unwrap-err"));
    rec.variant("clientgone", if gone { "as-written" } else { "repaired" });
    // W3: two routes of one prefix whose ingress ids and MEDs are in opposite order: a sort that sorts cannot keep both orders
    let wp = QPop { ingress: vec![(1, Some(65001)), (2, Some(65002))], wd: vec![], recs: vec![
        QRec { mc: false, pfx: QPfx { fam: 4, len: 8, bits: 10 }, mui: 1, active: true, aid: 20, path: vec![1], comms: vec![] },
        QRec { mc: false, pfx: QPfx { fam: 4, len: 8, bits: 10 }, mui: 2, active: true, aid: 10, path: vec![2], comms: vec![] }] };
    let mut scope_repaired = false;
    if let Ok(f) = wp.build() {
        let mut orders = vec![];
        for q in ["sort=/ingress_id", "sort=/attributes/3/multiExitDisc"] {
            if let Some((line, imp, oracle, _)) = run_r(rt, &f, &RCase { pfx: QPfx { fam: 4, len: 8, bits: 10 }, query: q.into(), pop: wp.show_full() }, rec) { orders.push(imp.clone()); rec.bump("R.witness"); rec.case(line, imp, oracle, true); }
        }
        scope_repaired = orders.len() == 2 && orders[0] != orders[1];
    }
    rec.variant("sortscope", if scope_repaired { "repaired" } else { "as-written" });
    // W3b: null against a number in both directions: `Less` twice as written, `Less` / `Greater` with the total comparator
    let (n, one) = (Value::Null, Value::from(1u64));
    rec.variant("cmp", if run_c(&n, &one) == "L" && run_c(&one, &n) == "G" { "total" } else { "as-written" });

    // W4: the per-ingress listing of an ingress whose routes the store's iterator does not all reach
    let lp = QPop::parse("u,4/24/668673,3,W,60;u,4/16/2612,1,W,31;u,4/16/2613,1,W,52;u,4/16/2613,2,A,73;u,4/24/668672,1,W,34;u,4/24/668672,2,A,95;u,4/24/668672,3,W,56;u,4/17/5225,1,A,17;u,4/17/5225,2,A,58", "").unwrap();
    let mut listing_contract = true;
    if let Ok(f) = lp.build() { let (l, imp, o, _) = run_g(rt, &f, &lp, "2"); listing_contract = !o.contains("store-iterator-omits"); rec.bump("G.witness"); rec.case(l, imp, o, true); }
    rec.variant("listing", if listing_contract { "contract" } else { "as-observed" });

}

fn main() {
    let args = parse_args();
    install_panic_hook();
    let t0 = Instant::now();
    let dir = std::env::temp_dir().join(format!("vribquery-{}-{}", std::process::id(), args.seed));
    std::fs::create_dir_all(&dir).unwrap();
    let mut rec = Recorder::new("V: a virtual-RIB prefix query whose upstream answer holds at least one record; C: always (a comparator pair); S: a slice of >= 2 values; R: a section with >= 2 entries or a refused / failing query; G: a listing with >= 1 route");
    let rt = tokio::runtime::Builder::new_current_thread().enable_all().build().unwrap();
    let mut rng = Rng::new(args.seed);

    if args.rest.first().map(|a| a == "--get").unwrap_or(false) {
        // debugging aid: `--get <k> <vr> <target>…` on a fresh pipeline without routes
        let pipe = Pipe::new(&dir, args.rest[1].parse().unwrap(), args.rest[2] == "1").unwrap();
        while pipe.get_t("/prefixes/10.250.0.0/24", 1000, false).0 != 200 { std::thread::sleep(Duration::from_millis(10)); }
        for t in &args.rest[3..] { println!("{t} -> {:?}", pipe.get_t(t, 5000, false)); }
        return;
    }
    if let Some(path) = &args.replay {
        // the variants are detected on this tree in replay mode too (into a scratch recorder: only the replayed cases are reported)
        let mut scratch = Recorder::new("");
        witnesses(&dir, &rt, &mut scratch);
        rec.variants = scratch.variants.clone();
        for line in replay_cases(path) { replay_line(&dir, &rt, &line, &mut rec); }
        rec.finish(&args, t0.elapsed().as_secs_f64());
        let _ = std::fs::remove_dir_all(&dir);
        return;
    }

    witnesses(&dir, &rt, &mut rec);

    // ---- part A stream
    // fixed cases: every kind of request at every kind of endpoint (generated and hand-written virtual RIB, physical,
    // an index nobody serves), empty answers only, so that they run to the end on a tree where a record is fatal
    for line in ["V|2.1|0.0,1.1|0.5.n=?;1.5.b=?;v.5.l=?;v.i.n=?;0.i.n=?;v.u.n=?;1.u.m=?;2.5.n=?;p.u.n=?;p.5.b=?;0.4.m=?;x.0.n=?",
                 "V|1.0|0.0,0.3|0.2.l=?;p.0.n=?;0.5.n=?;x.0.n=?", "V|3.1|1.1|v.4.b=?;2.5.b=?;v.1.m=?;p.1.n=?;2.5.n=?;x.0.n=?"] {
        record_v(&dir, VCase::parse(line).unwrap(), &mut rec, "fixed");
    }
    // a section beyond the insertion-sort bound of `sort_by` whose sort key holds mixed types (`ingress_info` is null for an
    // unregistered ingress, an object otherwise): harmless while the sort sees one record at a time
    let big = QPop { ingress: (1..=30).filter(|m| m % 2 == 0).map(|m| (m, Some(65000 + m))).collect(), wd: vec![], recs: (1..=30).map(|m| QRec { mc: false, pfx: QPfx { fam: 4, len: 8, bits: 10 }, mui: m, active: true, aid: 100 - m, path: vec![m], comms: vec![] }).collect() };
    if let Ok(f) = big.build() {
        for q in ["sort=/ingress_info", "sort=", "sort=/ingress_info/remote_asn,/ingress_id", "sort=/attributes/3/multiExitDisc"] {
            if let Some((line, imp, oracle, nt)) = run_r(&rt, &f, &RCase { pfx: QPfx { fam: 4, len: 8, bits: 10 }, query: q.into(), pop: big.show_full() }, &mut rec) { rec.bump("R.fixed-big-section"); rec.case(line, imp, oracle, nt); }
        }
    }
    let n_v = if args.thorough { 160 } else { 20 };
    for _ in 0..n_v {
        let c = gen_v(&mut rng);
        record_v(&dir, c, &mut rec, "generated");
    }

    // ---- comparator and sort cases
    let mut jg = JGen { rng: rng.fork() };
    let n_c = if args.thorough { 60_000 } else { 12_000 };
    let mut not_anti = 0u64;
    for _ in 0..n_c {
        let a = jg.value(2); let b = jg.near(&a, 2);
        let (Some(ea), Some(eb)) = (enc1(&a), enc1(&b)) else { rec.bump("C.unencodable"); continue };
        let ab = run_c(&a, &b);
        let o = oracle_c(&a, &b, &ab);
        if o.contains("not-antisymmetric") { not_anti += 1; }
        let kind = |v: &Value| match v { Value::Null => "null", Value::Bool(_) => "bool", Value::Number(_) => "num", Value::String(_) => "str", Value::Array(_) => "arr", Value::Object(_) => "obj" };
        rec.bump(&format!("C.{}-{}", kind(&a), kind(&b)));
        rec.case(format!("C|{ea}|{eb}"), ab, if o.starts_with("ok") { "ok".into() } else { o }, true);
    }
    rec.extra.insert("comparator_pairs_not_antisymmetric".into(), serde_json::json!(not_anti));
    let n_s = if args.thorough { 40_000 } else { 8_000 };
    let mut big_mixed_panics = 0u64; let mut big_mixed = 0u64;
    for i in 0..n_s {
        let keys = if jg.rng.chance(1, 12) { None } else { Some(jg.keys()) };
        let big = i % 10 == 0;
        let vals: Vec<Value> = if big {
            // more than 20 values: driftsort; only strict-weak-order inputs are compared (small ints and strings under /a, /b)
            let n = jg.rng.range(21, 48);
            (0..n).map(|_| serde_json::json!({"a": jg.rng.range(0, 5), "b": *jg.rng.pick(&["x", "y", "z"])})).collect()
        } else { let n = jg.rng.range(0, 20); let proto = jg.object(2); (0..n).map(|_| if jg.rng.chance(1, 2) { jg.near(&proto, 2) } else { jg.object(2) }).collect() };
        let keys = if big { Some(jg.rng.pick(&["/a", "/b", "/a,/b", "/b,/a", "/c,/a", "/b,/c,/a"]).to_string()) } else { keys };
        let Some(ev) = enc_list(&vals) else { rec.bump("S.unencodable"); continue };
        let imp = run_s(keys.as_deref(), &vals);
        let oracle = oracle_s(keys.as_deref(), &vals, &imp);
        rec.bump(if big { "S.big" } else if keys.is_none() { "S.no-key" } else { "S.small" });
        rec.case(format!("S|{}|{}", keys.as_deref().map_or("-".to_string(), |k| if k.is_empty() { "".into() } else { hex(k.as_bytes()) }), if ev.is_empty() { ";".into() } else { ev }), imp, oracle, vals.len() >= 2);
        if i % 40 == 1 {
            // measurement only: a slice beyond the insertion-sort bound with mixed types at the key
            let n = jg.rng.range(24, 64);
            let mut v: Vec<Value> = (0..n).map(|_| serde_json::json!({"a": jg.value(1)})).collect();
            big_mixed += 1;
            if catch_unwind(AssertUnwindSafe(|| vq::sort_results(Some("/a"), &mut v))).is_err() { let _ = panics_take(); big_mixed_panics += 1; }
        }
    }
    rec.extra.insert("sort_by_panics_on_mixed_slices_over_20".into(), serde_json::json!(format!("{big_mixed_panics}/{big_mixed}")));

    // ---- populated RIB: rendering parameters and the per-ingress listing
    let narrow = QPop { ingress: vec![], wd: vec![], recs: vec![QRec { mc: false, pfx: QPfx { fam: 6, len: 32, bits: 0x20010db8 }, mui: 1, active: true, aid: 1, path: vec![], comms: vec![] }] }.build().is_err();
    if narrow { rec.bump("store.overflow-checked-build"); }
    let n_pop = if args.thorough { 1500 } else { 300 };
    for _ in 0..n_pop {
        let pop = QPop::gen(&mut rng, narrow);
        let Ok(f) = pop.build() else { rec.bump("R.population-not-built"); continue };
        let mut pfxs: Vec<QPfx> = pop.recs.iter().map(|r| r.pfx).collect(); pfxs.sort(); pfxs.dedup();
        if pfxs.is_empty() { continue; }
        for _ in 0..12 {
            let pfx = *rng.pick(&pfxs);
            let query = gen_render_query(&mut rng, &pop);
            if let Some((line, imp, oracle, nt)) = run_r(&rt, &f, &RCase { pfx, query, pop: pop.show_full() }, &mut rec) {
                rec.bump(&format!("R.{}", imp.split_whitespace().next().unwrap_or("")));
                rec.case(line, imp, oracle, nt);
            }
        }
        for _ in 0..3 {
            let text = match rng.below(8) { 0 => rng.pick(&["abc", "", "+2", "4294967296", "-1", "07", "1.5", "0x1", "99"]).to_string(), _ => rng.range(1, 7).to_string() };
            let (line, imp, oracle, nt) = run_g(&rt, &f, &pop, &text);
            rec.bump(&format!("G.{}", imp.split_whitespace().next().unwrap_or("")));
            rec.case(line, imp, oracle, nt);
        }
    }
    rec.finish(&args, t0.elapsed().as_secs_f64());
    let _ = std::fs::remove_dir_all(&dir);
}

fn replay_line(dir: &std::path::Path, rt: &tokio::runtime::Runtime, line: &str, rec: &mut Recorder) {
    let f: Vec<&str> = line.split('|').collect();
    match f.first().copied() {
        Some("V") => { if let Some(c) = VCase::parse(line) { record_v(dir, c, rec, "replay"); } }
        Some("C") if f.len() == 3 => {
            if let (Some(a), Some(b)) = (dec_list(f[1]).and_then(|v| v.into_iter().next()), dec_list(f[2]).and_then(|v| v.into_iter().next())) {
                let ab = run_c(&a, &b); let o = oracle_c(&a, &b, &ab);
                rec.case(line.to_string(), ab, if o.starts_with("ok") { "ok".into() } else { o }, true);
            }
        }
        Some("S") if f.len() == 3 => {
            if let Some(vals) = dec_list(f[2]) {
                let keys = if f[1] == "-" { None } else { unhex(f[1]).and_then(|b| String::from_utf8(b).ok()) };
                let imp = run_s(keys.as_deref(), &vals);
                let oracle = oracle_s(keys.as_deref(), &vals, &imp);
                rec.case(line.to_string(), imp, oracle, vals.len() >= 2);
            }
        }
        // G cases carry the record list (attributes do not matter for the listing), R cases the whole population
        Some("G") if f.len() == 6 => {
            if let (Some(pop), Some(text)) = (QPop::parse(f[3], f[4]), unhex(f[2]).and_then(|b| String::from_utf8(b).ok())) {
                if let Ok(fx) = pop.build() { let (l, imp, oracle, nt) = run_g(rt, &fx, &pop, &text); rec.case(l, imp, oracle, nt); }
            }
        }
        Some("R") if f.len() == 8 => {
            if let (Some(pop), Some(pfx), Some(q)) = (QPop::parse_full(f[7]), QPfx::parse_show(f[1]), unhex(f[3]).and_then(|b| String::from_utf8(b).ok())) {
                if let Ok(fx) = pop.build() { if let Some((l, imp, oracle, nt)) = run_r(rt, &fx, &RCase { pfx, query: q, pop: f[7].to_string() }, rec) { rec.case(l, imp, oracle, nt); } }
            }
        }
        _ => {}
    }
}
