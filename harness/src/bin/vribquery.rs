//! VribQuery engine (areas C11/C12): two parts of the RIB query API no other engine executes.
//!
//! Part A, `V|…` cases: a really spawned pipeline (`Manager::load` -> `prepare` -> `spawn`: real
//! `bmp-tcp-in`, a physical `rib` unit with the `filter_names` shorthand, i.e. generated virtual RIBs
//! `rib-vRIB-<k>`, optionally a hand-written virtual RIB `vr`, null-out targets), routes announced over a
//! real BMP/TCP session (so they reach the physical RIB through `RibUnitRunner::process_update`), and HTTP
//! queries through the real `Server::handle_request` -> `Resources` -> `PrefixesApi::process_request`.
//! A virtual RIB answers by `Link::trigger(TriggerData::MatchPrefix)` to the physical RIB, which publishes
//! `Update::QueryResult` through its gate; every virtual RIB on the way runs
//! `RibUnitRunner::reprocess_query_results`.
//!   case  `V|<k>.<vr>|<announcements>|<query>;<query>;…`   (k = generated virtual RIBs)
//!         announcement = `<router>.<pool index>`; query = `<endpoint>.<what>.<include>=<upstream answer>`
//!         endpoint: `p` physical RIB, `0..2` generated virtual RIB, `v` hand-written one, `x` = GET /status
//!         what: pool index of the prefix | `i` a numeric path (per-ingress listing) | `u` unknown parameter
//!               | `c` = pool prefix 0 with the client going away while the result is in flight
//!         include: `n` none, `l` lessSpecifics, `m` moreSpecifics, `b` both
//!         upstream answer: what the physical RIB itself answered to the same query before the sequence
//!         started: `D<n>L<n|->M<n|->` (number of entries per section), `E<status>`
//!   obs   one token per query: `200:D<n>L<n|->M<n|->`, `400`, `404`, `T` (never answered), each with `!<site>`
//!         appended when a panic was recorded while the query was in flight
//!
//! Part B, the `sort=` machinery and the other rendering parameters of the physical RIB's API:
//!   `C|<json>|<json>`             `PrefixesApi::cmp_json_values` on two values              -> `L`/`E`/`G`/`panic`
//!   `K|<keys>|<json>|<json>`      the comparator closure of `sort_results` (two-element slice) -> `ab`/`ba`
//!   `S|<keys>|<json>,<json>,…`    `PrefixesApi::sort_results` on a slice                     -> permutation
//!   `R|<query>|<D entries>|<L entries or ->|<M entries or ->`  one GET on a populated real RIB (c11 style
//!         fixture) whose query string carries sort / sort_by / sort_order / details / format; the entries are
//!         the JSON objects of the same query *without* those parameters, in the order the API returned them
//!         -> `200 D[perm] L[perm|-] M[perm|-]` / `200 dump` / `400` / `panic`
//!   `G|<path kind>`               per-ingress listing `GET /prefixes/<id>`                     -> status + listed
//! JSON values are written in a prefix code (see `enc`): `n` null, `t`/`f`, `i<int>`, `d<halves>` (a float
//! k/2), `s<hex of utf-8>`, `a<len>:<items>`, `o<len>:<hexkey>=<value>…`.
use std::collections::{BTreeMap, BTreeSet};
use std::io::Write as _;
use std::net::{SocketAddr, TcpListener, TcpStream};
use std::panic::{catch_unwind, AssertUnwindSafe};
use std::sync::atomic::{AtomicBool, AtomicUsize, Ordering as AO};
use std::sync::{Arc, Mutex};
use std::time::{Duration, Instant};

use bytes::Bytes;
use hyper::{Body, Request};
use rotonda::bgp::encode::{mk_initiation_msg, mk_raw_route_monitoring_msg};
use rotonda::verif::http as vh;
use rotonda::verif::manager as vm;
use rotonda::verif::ribq::RibQueryFixture;
use rotonda::verif::vribquery as vq;
use serde_json::Value;
use verif_harness::rib::{encode_update, BmpPeer, BmpRouter, Nlri, Pfx, Safi, Upd};
use verif_harness::{join, parse_args, replay_cases, rng::Rng, Recorder};

// =====================================================================================================
// panic log: every panic of the process is recorded (site = file basename + kind of message)
// =====================================================================================================

static PANICS: Mutex<Vec<String>> = Mutex::new(Vec::new());

fn install_panic_hook() {
    std::panic::set_hook(Box::new(|info| {
        let file = info.location().map(|l| l.file().rsplit('/').next().unwrap_or("?").to_string()).unwrap_or("?".into());
        let msg = if let Some(s) = info.payload().downcast_ref::<&str>() { s.to_string() } else if let Some(s) = info.payload().downcast_ref::<String>() { s.clone() } else { "?".into() };
        let kind = if msg.contains("not yet implemented") { "todo" }
            else if msg.contains("called `Result::unwrap()` on an `Err` value") { "unwrap-err" }
            else if msg.contains("called `Option::unwrap()` on a `None` value") { "unwrap-none" }
            else if msg.contains("total order") { "sort-total-order" }
            else if msg.contains("unreachable") { "unreachable" }
            else { "other" };
        PANICS.lock().unwrap_or_else(|e| e.into_inner()).push(format!("{file}:{kind}"));
    }));
}
fn panics_take() -> Vec<String> { std::mem::take(&mut *PANICS.lock().unwrap_or_else(|e| e.into_inner())) }
fn panics_len() -> usize { PANICS.lock().unwrap_or_else(|e| e.into_inner()).len() }

// =====================================================================================================
// Part A: the running pipeline
// =====================================================================================================

/// The prefixes of part A: nested ones (less / more specifics), a sibling and one nobody announces.
const POOL: [([u8; 4], u8); 6] = [([10, 1, 0, 0], 16), ([10, 1, 1, 0], 24), ([10, 1, 1, 128], 25), ([10, 2, 0, 0], 16), ([10, 1, 2, 0], 24), ([10, 250, 0, 0], 24)];
const NEVER: usize = 5;
fn pool_pfx(i: usize) -> Pfx { Pfx::v4(POOL[i].0, POOL[i].1) }
fn pool_text(i: usize) -> String { let (a, l) = POOL[i]; format!("{}.{}.{}.{}/{}", a[0], a[1], a[2], a[3], l) }

/// status `get_t` reports when no response arrived within the wait
const TIMEOUT: u16 = 598;

#[derive(Default)]
struct Window { armed: AtomicBool, parked: AtomicUsize, release: AtomicBool }

struct Pipe {
    rt: tokio::runtime::Runtime,
    manager: vm::Manager,
    port: u16,
    routers: BTreeMap<u8, (TcpStream, BmpPeer)>,
    window: Arc<Window>,
    k: u8,
    vr: bool,
}

fn free_port() -> u16 { TcpListener::bind("127.0.0.1:0").ok().and_then(|l| l.local_addr().ok()).map(|a| a.port()).unwrap_or(0) }

fn render(k: u8, vr: bool, port: u16) -> String {
    let mut s = String::from("http_listen = [\"127.0.0.1:0\"]\n");
    s.push_str(&format!("\n[units.b0]\ntype = \"bmp-tcp-in\"\nlisten = \"127.0.0.1:{port}\"\nhttp_api_path = \"/routers0/\"\n"));
    s.push_str("\n[units.rib]\ntype = \"rib\"\nsources = [\"b0\"]\nhttp_api_path = \"/prefixes/\"\n");
    if k > 0 { s.push_str(&format!("filter_names = [{}]\n", join((0..=k).map(|i| format!("\"f{i}\"")), ", "))); }
    s.push_str("\n[units.rib.query_limits.more_specifics]\nshortest_prefix_ipv4 = 16\nshortest_prefix_ipv6 = 19\n");
    if vr { s.push_str("\n[units.vr]\ntype = \"rib\"\nrib_type = \"Virtual\"\nsources = [\"rib\"]\nvrib_upstream = \"rib\"\nhttp_api_path = \"/vr/\"\n"); }
    s.push_str("\n[targets.t0]\ntype = \"null-out\"\nsources = [\"rib\"]\n");
    if vr { s.push_str("\n[targets.t8]\ntype = \"null-out\"\nsources = [\"vr\"]\n"); }
    s
}

impl Pipe {
    /// `ConfigFile::new` -> `Manager::load` -> `prepare` -> `spawn`, as `main.rs` does it.
    fn new(dir: &std::path::Path, k: u8, vr: bool) -> Result<Pipe, String> {
        let window: Arc<Window> = Arc::default();
        let w = window.clone();
        // Every worker thread gets a gate event handler: when armed, the first gate that starts publishing an
        // update (`Gate::update_data`, tap `update.begin`) is held until the harness releases it. Not armed: no-op.
        let rt = tokio::runtime::Builder::new_multi_thread().worker_threads(4).enable_all()
            .on_thread_start(move || {
                let w = w.clone();
                rotonda::verif::gate::set_event_handler(Some(Arc::new(move |name: &'static str, _id| {
                    if name != "update.begin" || !w.armed.swap(false, AO::SeqCst) { return; }
                    w.parked.fetch_add(1, AO::SeqCst);
                    let t0 = Instant::now();
                    while !w.release.load(AO::SeqCst) && t0.elapsed() < Duration::from_secs(20) { std::thread::sleep(Duration::from_micros(200)); }
                })));
            }).build().map_err(|e| e.to_string())?;
        let _g = rt.enter();
        vm::reset_loader();
        let mut manager = vm::Manager::new();
        let port = free_port();
        let text = render(k, vr, port);
        let path = dir.join("rotonda.conf");
        let file = catch_unwind(AssertUnwindSafe(|| vm::ConfigFile::new(text.into_bytes(), vm::Source::from(&path)))).map_err(|_| "panic:config-file")?.map_err(|e| format!("config-file {e}"))?;
        let mut config = catch_unwind(AssertUnwindSafe(|| manager.load(&file))).map_err(|_| "panic:load")?.map_err(|_| "load-rejected".to_string())?;
        catch_unwind(AssertUnwindSafe(|| manager.prepare(&config, &file))).map_err(|_| "panic:prepare")?.map_err(|_| "prepare-rejected".to_string())?;
        catch_unwind(AssertUnwindSafe(|| manager.spawn(&mut config))).map_err(|_| "panic:spawn")?;
        drop(_g);
        Ok(Pipe { rt, manager, port, routers: BTreeMap::new(), window, k, vr })
    }

    /// One request through the real handler chain. A request that is not answered within `ms` — or, when
    /// `until_panic`, within 400 ms after a panic was recorded — is dropped and reported as `TIMEOUT`.
    fn get_t(&self, target: &str, ms: u64, until_panic: bool) -> (u16, String) {
        let req = Request::builder().method("GET").uri(target).body(Body::empty()).unwrap();
        let resources = self.manager.http_resources();
        let metrics = self.manager.metrics();
        let p0 = panics_len();
        let r = catch_unwind(AssertUnwindSafe(|| self.rt.block_on(async {
            let fut = async {
                let res = vh::handle_request(req, &metrics, &resources).await;
                let status = res.status().as_u16();
                let body = hyper::body::to_bytes(res.into_body()).await.map(|b| b.to_vec()).unwrap_or_default();
                (status, String::from_utf8_lossy(&body).into_owned())
            };
            tokio::pin!(fut);
            let t0 = Instant::now();
            let mut panic_seen: Option<Instant> = None;
            loop {
                match tokio::time::timeout(Duration::from_millis(20), &mut fut).await {
                    Ok(x) => return x,
                    Err(_) => {
                        if until_panic && panic_seen.is_none() && panics_len() > p0 { panic_seen = Some(Instant::now()); }
                        if let Some(t) = panic_seen { if t.elapsed() > Duration::from_millis(400) { return (TIMEOUT, "timeout".into()); } }
                        if t0.elapsed() > Duration::from_millis(ms) { return (TIMEOUT, "timeout".into()); }
                    }
                }
            }
        })));
        r.unwrap_or((599, "panic".into()))
    }

    /// The request future is dropped (the client went away) while the physical RIB is about to publish the
    /// query result: the gate is held at `update.begin`, the future dropped, the gate released.
    fn get_client_gone(&self, target: &str) -> (u16, String) {
        let req = Request::builder().method("GET").uri(target).body(Body::empty()).unwrap();
        let resources = self.manager.http_resources();
        let metrics = self.manager.metrics();
        self.window.parked.store(0, AO::SeqCst);
        self.window.release.store(false, AO::SeqCst);
        self.window.armed.store(true, AO::SeqCst);
        let w = self.window.clone();
        let r = catch_unwind(AssertUnwindSafe(|| self.rt.block_on(async {
            let fut = async {
                let res = vh::handle_request(req, &metrics, &resources).await;
                (res.status().as_u16(), String::new())
            };
            tokio::pin!(fut);
            let t0 = Instant::now();
            loop {
                match tokio::time::timeout(Duration::from_millis(5), &mut fut).await {
                    Ok(x) => return x,                                   // answered before anything was published (4xx)
                    Err(_) => {
                        if w.parked.load(AO::SeqCst) > 0 { return (TIMEOUT, "client-gone".into()); }
                        if t0.elapsed() > Duration::from_secs(20) { return (597, "never-published".into()); }
                    }
                }
            }
        })));
        self.window.armed.store(false, AO::SeqCst);
        // the future is dropped now; let the gate go on and give the delivery time to happen
        let p0 = panics_len();
        self.window.release.store(true, AO::SeqCst);
        let t0 = Instant::now();
        while panics_len() == p0 && t0.elapsed() < Duration::from_millis(600) { std::thread::sleep(Duration::from_millis(5)); }
        r.unwrap_or((599, "panic".into()))
    }

    fn connect(&mut self, r: u8) -> bool {
        let addr: SocketAddr = format!("127.0.0.1:{}", self.port).parse().unwrap();
        let t0 = Instant::now();
        let mut sock = loop {
            match TcpStream::connect_timeout(&addr, Duration::from_millis(500)) { Ok(s) => break s, Err(_) if t0.elapsed() < Duration::from_secs(10) => std::thread::sleep(Duration::from_millis(10)), Err(_) => return false }
        };
        let peer = BmpPeer::plain(r as u32);
        let _ = sock.set_nodelay(true);
        let ok = sock.write_all(&mk_initiation_msg(&format!("router{r}"), "verif")).is_ok() && sock.write_all(&BmpRouter::peer_up_msg(&peer)).is_ok();
        self.routers.insert(r, (sock, peer));
        ok
    }

    fn announce(&mut self, r: u8, idx: &[usize]) -> bool {
        let Some((sock, peer)) = self.routers.get_mut(&r) else { return false };
        let u = Upd { attr: 100 + r as u32, ann: idx.iter().map(|i| Nlri { pfx: pool_pfx(*i), safi: Safi::U }).collect(), wd: vec![], mp4: false, corrupt: 0 };
        let (pdu, _) = encode_update(&u).expect("encodable");
        sock.write_all(&mk_raw_route_monitoring_msg(&peer.pph(), Bytes::from(pdu))).is_ok()
    }
}

/// The sections of a prefix-query answer as sorted entry lists `prefix@asn:status`.
fn sections(body: &str) -> Option<(Vec<String>, Option<Vec<String>>, Option<Vec<String>>)> {
    let v: Value = serde_json::from_str(body).ok()?;
    let ent = |x: &Value| -> Option<Vec<String>> {
        let mut out = vec![];
        for e in x.as_array()? {
            let asn: String = e["ingress_info"]["remote_asn"].to_string().chars().filter(|c| c.is_ascii_digit()).collect();
            out.push(format!("{}@{}:{}", e["prefix"].as_str()?, asn, match e["status"].as_str()? { "active" => 'A', "withdrawn" => 'W', _ => '?' }));
        }
        out.sort();
        Some(out)
    };
    let d = ent(v.get("data")?)?;
    let inc = v.get("included")?;
    let l = match inc.get("lessSpecifics") { None => None, Some(x) => Some(ent(x)?) };
    let m = match inc.get("moreSpecifics") { None => None, Some(x) => Some(ent(x)?) };
    Some((d, l, m))
}

#[derive(Clone, Debug, PartialEq)]
struct VQuery { ep: char, what: char, idx: usize, inc: char }
impl VQuery {
    fn show(&self) -> String { format!("{}.{}.{}", self.ep, if self.what == 'q' { self.idx.to_string() } else { self.what.to_string() }, self.inc) }
    fn parse(s: &str) -> Option<VQuery> {
        let f: Vec<&str> = s.split('.').collect();
        if f.len() != 3 { return None; }
        let ep = f[0].chars().next()?;
        let (what, idx) = match f[1] { "i" => ('i', 0), "u" => ('u', 0), "c" => ('c', 0), n => ('q', n.parse().ok().filter(|i| *i < POOL.len())?) };
        let inc = f[2].chars().next()?;
        if !"p012vx".contains(ep) || !"nlmb".contains(inc) { return None; }
        Some(VQuery { ep, what, idx, inc })
    }
    fn base(&self) -> Option<&'static str> { match self.ep { 'p' => Some("/prefixes/"), '0' => Some("/prefixes/0/"), '1' => Some("/prefixes/1/"), '2' => Some("/prefixes/2/"), 'v' => Some("/vr/"), _ => None } }
    fn target(&self, base: &str) -> String {
        let q = match self.inc { 'l' => "?include=lessSpecifics", 'm' => "?include=moreSpecifics", 'b' => "?include=lessSpecifics,moreSpecifics", _ => "" };
        match self.what {
            'i' => format!("{base}7"),
            'u' => format!("{base}{}?sort_by=/ingress_id", pool_text(self.idx)),
            'c' => format!("{base}{}{q}", pool_text(NEVER)),
            _ => format!("{base}{}{q}", pool_text(self.idx)),
        }
    }
}

/// `D<n>L<n|->M<n|->` of a 200 answer, `E<status>` otherwise.
fn summary(st: u16, body: &str) -> String {
    if st != 200 { return format!("E{st}"); }
    match sections(body) { Some((d, l, m)) => format!("D{}L{}M{}", d.len(), l.map_or("-".into(), |x| x.len().to_string()), m.map_or("-".into(), |x| x.len().to_string())), None => "E-json".into() }
}

struct VCase { k: u8, vr: bool, ann: Vec<(u8, usize)>, qs: Vec<VQuery>, ups: Vec<String> }
impl VCase {
    fn line(&self) -> String {
        format!("V|{}.{}|{}|{}", self.k, self.vr as u8, join(self.ann.iter().map(|(r, i)| format!("{r}.{i}")), ","),
            join(self.qs.iter().zip(&self.ups).map(|(q, u)| format!("{}={}", q.show(), u)), ";"))
    }
    fn parse(line: &str) -> Option<VCase> {
        let f: Vec<&str> = line.split('|').collect();
        if f.len() != 4 || f[0] != "V" { return None; }
        let (k, vr) = f[1].split_once('.')?;
        let ann = if f[2].is_empty() { vec![] } else { f[2].split(',').map(|a| { let (r, i) = a.split_once('.')?; Some((r.parse().ok()?, i.parse().ok().filter(|i| *i < NEVER)?)) }).collect::<Option<Vec<_>>>()? };
        let mut qs = vec![]; let mut ups = vec![];
        for q in f[3].split(';') { let (a, b) = q.split_once('=')?; qs.push(VQuery::parse(a)?); ups.push(b.to_string()); }
        Some(VCase { k: k.parse().ok()?, vr: vr == "1", ann, qs, ups })
    }
}

/// Runs the case on a fresh pipeline: announce, settle, ask the physical RIB every query of the sequence
/// (`ups`), then run the sequence. Returns the observation tokens and, per query, the full answers
/// (status, entries) of the endpoint and of the physical RIB for the oracle.
struct VRun { obs: Vec<String>, ups: Vec<String>, detail: Vec<(u16, String)>, up_detail: Vec<(u16, String)>, setup: Option<String> }

fn run_v(dir: &std::path::Path, c: &VCase) -> VRun {
    let mut out = VRun { obs: vec![], ups: vec![], detail: vec![], up_detail: vec![], setup: None };
    let mut pipe = match Pipe::new(dir, c.k, c.vr) { Ok(p) => p, Err(e) => { out.setup = Some(e); return out; } };
    let mut by_router: BTreeMap<u8, Vec<usize>> = BTreeMap::new();
    for (r, i) in &c.ann { by_router.entry(*r).or_default().push(*i); }
    for (r, idx) in &by_router {
        if !pipe.connect(*r) || !pipe.announce(*r, idx) { out.setup = Some("bmp-session".into()); return out; }
    }
    // settle: every announced (router, prefix) shows at the physical RIB
    let want: BTreeSet<(usize, u32)> = c.ann.iter().map(|(r, i)| (*i, 65000 + *r as u32)).collect();
    let t0 = Instant::now();
    loop {
        let mut missing = false;
        for (i, asn) in &want {
            let (st, body) = pipe.get_t(&format!("/prefixes/{}", pool_text(*i)), 20_000, false);
            let seen = st == 200 && sections(&body).map(|(d, _, _)| d.iter().any(|e| e.contains(&format!("@{asn}:")))).unwrap_or(false);
            if !seen { missing = true; break; }
        }
        if !missing { break; }
        if t0.elapsed() > Duration::from_secs(30) { out.setup = Some("routes-did-not-settle".into()); return out; }
        std::thread::sleep(Duration::from_millis(5));
    }
    let _ = panics_take();
    // the physical RIB's own answers
    for q in &c.qs {
        let (st, body) = match q.base() { None => (200, String::new()), Some(_) => pipe.get_t(&q.target("/prefixes/"), 20_000, false) };
        out.ups.push(if q.ep == 'x' { "-".into() } else { summary(st, &body) });
        out.up_detail.push((st, body));
    }
    // the sequence
    for q in &c.qs {
        let _ = panics_take();
        let (st, body) = match (q.base(), q.what) {
            (None, _) => pipe.get_t("/status", 20_000, false),
            (Some(b), 'c') => pipe.get_client_gone(&q.target(b)),
            (Some(b), _) => pipe.get_t(&q.target(b), 20_000, true),
        };
        let ps = panics_take();
        let mut tok = match st { 200 if q.ep == 'x' => "200".to_string(), 200 => format!("200:{}", summary(st, &body)), TIMEOUT => "T".into(), s => s.to_string() };
        let mut sites: Vec<String> = ps; sites.sort(); sites.dedup();
        for s in &sites { tok.push('!'); tok.push_str(s); }
        out.obs.push(tok);
        out.detail.push((st, body));
    }
    let rt = std::mem::replace(&mut pipe.rt, tokio::runtime::Builder::new_current_thread().build().unwrap());
    drop(pipe.routers);
    rt.shutdown_timeout(Duration::from_millis(200));
    out
}

fn main() {
    let args = parse_args();
    install_panic_hook();
    let dir = std::env::temp_dir().join(format!("vribquery-{}", std::process::id()));
    std::fs::create_dir_all(&dir).unwrap();
    if args.rest.iter().any(|a| a == "--debug-a") {
        for line in [
                     "V|1.0|0.0|0.c.n=?;p.0.n=?;0.5.n=?"] {
            let c = VCase::parse(line).unwrap();
            let t0 = Instant::now();
            let r = run_v(&dir, &c);
            println!("{line}\n  setup={:?} ups={:?}\n  obs={:?}  ({:.2}s)", r.setup, r.ups, r.obs, t0.elapsed().as_secs_f64());
        }
        return;
    }
    let _ = (replay_cases as fn(&std::path::Path) -> Vec<String>, Rng::new(args.seed), Recorder::new("x"));
    let _ = (vq::cmp_json_values as fn(&Value, &Value) -> std::cmp::Ordering, RibQueryFixture::default_limits());
}
