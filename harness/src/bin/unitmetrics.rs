//! UnitMetrics engine (extends C15; Prometheus clause of C19): the metric
//! sources no other engine renders, on the real code, vs `Model/UnitMetrics.lean`
//! (driver `rmodel-unitmetrics`).
//!
//! `q|<unit>|<cfgs>|<steps>`  the real mqtt-out run loop and event-loop task on a
//!     scripted broker (script syntax of the mqttconn engine); after every step
//!     the target's real `MqttMetrics` is rendered through the real
//!     `metrics::Source::append` into a real Prometheus `metrics::Target`, and
//!     `GraphStatus::status_text` / `okay` are read.
//! `r|<unit>|<call> <call>…`   arbitrary call sequences on the target's real
//!     `MqttStatusReporter` (`c` connected, `d` disconnected, `e` connection
//!     error, `l` reconnecting, `p<topic idx>` publish_ok, `f` publish_error,
//!     `i<n>` inflight_update), rendered after every call.
//! `f|<unit>|<ev> <ev>…`   the real `filter` unit runner built by the real
//!     `RotoFilterRunner::new` with a metrics collection: `m<ingress>`
//!     `RotoFilterStatusReporter::message_filtered`, `e` an EndOfStream through
//!     the real `direct_update`; rendered after every event.
//! `a|<src>;<src>…`   several real sources registered (by the real constructors)
//!     with one real `metrics::Collection`, brought to the given states by
//!     reporter calls, then `Collection::assemble(Prometheus)`.
//!
//! Oracle (Rust, no Lean): a ledger kept from what the scripted broker saw /
//! from the calls made, an independent parser of the exposition format, the
//! atomics, and per-source texts for the assembled exposition.
use std::collections::{BTreeMap, BTreeSet};
use std::net::IpAddr;
use std::str::FromStr;
use std::time::{Duration, Instant};

use inetnum::asn::Asn;
use rotonda::metrics::{Collection, OutputFormat, Source, Target};
use rotonda::payload::{Update, UpstreamStatus};
use rotonda::roto_runtime::types::OutputStreamMessage;
use rotonda::targets::verif_hooks_unitmetrics::{BrokerEvent, Counters, MqttMetricsProbe, ProbeConfig, PubMode, ReporterCall, Seen};
use rotonda::units::verif_filter_unitmetrics::FilterMetricsProbe;
use verif_harness::{join, parse_args, replay_cases, rng::Rng, Recorder};

const DUP_SIG: &str = "prometheus:duplicate-help-type-lines";
const ESC_SIG: &str = "prometheus:label-value-not-escaped";
const VOID_SIG: &str = "mqtt-out:lost-while-connecting";
const LOST_SIG: &str = "unitmetrics:mqtt:connection_lost_count:failed-reconnect-counted-as-loss";

const UNIT_NAMES: &[&str] = &["mqtt-out", "m\"q", "b\\s", "n\nl", "x\",evil=\"1", "filter", "a-unit", "z-unit"];
const TEMPLATES: &[&str] = &["rotonda/{id}", "a/{id}/b", "fixed", "q\"{id}\\", "nl\n{id}", "x\",evil=\"{id}", "}{ {id}\\n"];

// ------------------------------------------------------------------ exposition parser (independent of Lean)
#[derive(Clone, Debug, PartialEq)]
enum PLine { Help(String, String), Type(String, String), Sample(String, Option<Vec<(String, String)>>, String) }

fn lname_start(c: char) -> bool { c.is_ascii_alphabetic() || c == '_' }
fn lname_char(c: char) -> bool { lname_start(c) || c.is_ascii_digit() }
fn name_start(c: char) -> bool { lname_start(c) || c == ':' }
fn name_char(c: char) -> bool { name_start(c) || c.is_ascii_digit() }
fn is_name(s: &[char]) -> bool { !s.is_empty() && name_start(s[0]) && s[1..].iter().all(|c| name_char(*c)) }
fn is_lname(s: &[char]) -> bool { !s.is_empty() && lname_start(s[0]) && s[1..].iter().all(|c| lname_char(*c)) }
fn is_number(s: &[char]) -> bool {
    let d = if s.first() == Some(&'-') { &s[1..] } else { s };
    !d.is_empty() && d.iter().all(|c| c.is_ascii_digit())
}
fn doc_ok(s: &[char]) -> bool {
    let mut i = 0;
    while i < s.len() {
        if s[i] == '\\' { if i + 1 < s.len() && (s[i + 1] == '\\' || s[i + 1] == 'n') { i += 2; continue; } return false; }
        if s[i] == '\n' { return false; }
        i += 1;
    }
    true
}
fn take_while(s: &[char], p: fn(char) -> bool) -> (&[char], &[char]) {
    let n = s.iter().take_while(|c| p(**c)).count();
    (&s[..n], &s[n..])
}
fn not_nl(c: char) -> bool { c != '\n' }
fn strip<'a>(s: &'a [char], p: &str) -> Option<&'a [char]> {
    let pc: Vec<char> = p.chars().collect();
    if s.len() >= pc.len() && s[..pc.len()] == pc[..] { Some(&s[pc.len()..]) } else { None }
}
fn parse_lval(s: &[char]) -> Option<(String, &[char])> {
    let mut out = String::new();
    let mut i = 0;
    loop {
        let c = *s.get(i)?;
        if c == '"' { return Some((out, &s[i + 1..])); }
        if c == '\n' { return None; }
        if c == '\\' {
            let d = *s.get(i + 1)?;
            if d == '\\' || d == '"' { out.push(d); } else if d == 'n' { out.push('\n'); } else { return None; }
            i += 2;
            continue;
        }
        out.push(c);
        i += 1;
    }
}
fn parse_pair(s: &[char]) -> Option<((String, String), &[char])> {
    let (n, rest) = take_while(s, lname_char);
    if !is_lname(n) || rest.len() < 2 || rest[0] != '=' || rest[1] != '"' { return None; }
    let (v, rest) = parse_lval(&rest[2..])?;
    Some(((n.iter().collect(), v), rest))
}
fn parse_labels(s: &[char]) -> Option<(Vec<(String, String)>, &[char])> {
    if s.first() == Some(&'}') { return Some((vec![], &s[1..])); }
    let (p, mut rest) = parse_pair(s)?;
    let mut out = vec![p];
    loop {
        match rest.first() {
            Some('}') => return Some((out, &rest[1..])),
            Some(',') => { let (p, r) = parse_pair(&rest[1..])?; out.push(p); rest = r; }
            _ => return None,
        }
    }
}
fn parse_value(s: &[char]) -> Option<(String, &[char])> {
    if s.first() != Some(&' ') { return None; }
    let (v, rest) = take_while(&s[1..], not_nl);
    if !is_number(v) || rest.first() != Some(&'\n') { return None; }
    Some((v.iter().collect(), &rest[1..]))
}
fn parse_line(s: &[char]) -> Option<(PLine, &[char])> {
    for (kw, is_help) in [("# HELP ", true), ("# TYPE ", false)] {
        if let Some(r) = strip(s, kw) {
            let (n, rest) = take_while(r, name_char);
            if !is_name(n) || rest.first() != Some(&' ') { return None; }
            let (d, rest) = take_while(&rest[1..], not_nl);
            if rest.first() != Some(&'\n') { return None; }
            let ds: String = d.iter().collect();
            if is_help {
                if !doc_ok(d) { return None; }
                return Some((PLine::Help(n.iter().collect(), ds), &rest[1..]));
            }
            if !["counter", "gauge", "histogram", "summary"].contains(&ds.as_str()) { return None; }
            return Some((PLine::Type(n.iter().collect(), ds), &rest[1..]));
        }
    }
    let (n, rest) = take_while(s, name_char);
    if !is_name(n) { return None; }
    let name: String = n.iter().collect();
    if rest.first() == Some(&'{') {
        let (ls, rest) = parse_labels(&rest[1..])?;
        let (v, rest) = parse_value(rest)?;
        return Some((PLine::Sample(name, Some(ls), v), rest));
    }
    let (v, rest) = parse_value(rest)?;
    Some((PLine::Sample(name, None, v), rest))
}
fn parse_text(text: &str) -> Option<Vec<PLine>> {
    let cs: Vec<char> = text.chars().collect();
    let mut s = &cs[..];
    let mut out = vec![];
    while !s.is_empty() { let (l, r) = parse_line(s)?; out.push(l); s = r; }
    Some(out)
}
fn hex(s: &str) -> String { s.bytes().map(|b| format!("{b:02x}")).collect() }
fn duplicate_meta(ls: &[PLine]) -> Option<String> {
    let (mut h, mut t) = (BTreeSet::new(), BTreeSet::new());
    for l in ls {
        match l {
            PLine::Help(n, _) => if !h.insert(n.clone()) { return Some(n.clone()); },
            PLine::Type(n, _) => if !t.insert(n.clone()) { return Some(n.clone()); },
            _ => {}
        }
    }
    None
}
/// A metric name announced with two different TYPEs (or HELP texts).
fn conflicting_meta(ls: &[PLine]) -> Option<String> {
    let (mut h, mut t): (BTreeMap<String, String>, BTreeMap<String, String>) = Default::default();
    for l in ls {
        match l {
            PLine::Help(n, d) => if let Some(o) = h.insert(n.clone(), d.clone()) { if o != *d { return Some(format!("{n}: HELP differs")); } },
            PLine::Type(n, d) => if let Some(o) = t.insert(n.clone(), d.clone()) { if o != *d { return Some(format!("{n}: TYPE {o} and {d}")); } },
            _ => {}
        }
    }
    None
}
fn fnv1a(s: &str) -> u64 { s.bytes().fold(14695981039346656037u64, |h, b| (h ^ b as u64).wrapping_mul(1099511628211)) }
fn show_text(t: &str) -> String { format!("txt={}:{:x}", t.chars().count(), fnv1a(t)) }

/// Wall-clock figures are inputs of the model: `since_last_update` (seconds since the gate's last update) and the
/// assemble duration are replaced by 0 when they are non-negative integers.
fn canonical_clock(text: &str) -> String {
    let mut out = String::new();
    for line in text.split_inclusive('\n') {
        let l = line.trim_end_matches('\n');
        let clock = l.starts_with("rotonda_since_last_update_seconds{") || l.starts_with("rotonda_metric_assemble_duration_milliseconds ");
        if clock {
            if let Some(p) = l.rfind(' ') {
                if !l[p + 1..].is_empty() && l[p + 1..].bytes().all(|b| b.is_ascii_digit()) { out.push_str(&l[..p]); out.push_str(" 0\n"); continue; }
            }
        }
        out.push_str(line);
    }
    out
}

fn render(src: &dyn Source, unit: &str) -> String {
    let mut t = Target::new(OutputFormat::Prometheus);
    src.append(unit, &mut t);
    t.into_string()
}

/// The value of the sample of `name` whose labels are exactly `component=<unit>` (text side of a simple metric).
fn simple_value(ls: &[PLine], name: &str, unit: &str) -> Option<u64> {
    ls.iter().find_map(|l| match l {
        PLine::Sample(n, Some(lbl), v) if n == name && lbl.len() == 1 && lbl[0].0 == "component" && lbl[0].1 == unit => v.parse().ok(),
        _ => None,
    })
}
/// (label value, sample value) of the samples of `name` labelled `component=<unit>,<label>=…`, in text order.
fn labelled_values(ls: &[PLine], name: &str, unit: &str, label: &str) -> Vec<(String, u64)> {
    ls.iter().filter_map(|l| match l {
        PLine::Sample(n, Some(lbl), v) if n == name && lbl.len() == 2 && lbl[0].0 == "component" && lbl[0].1 == unit && lbl[1].0 == label => Some((lbl[1].1.clone(), v.parse().ok()?)),
        _ => None,
    }).collect()
}

// ------------------------------------------------------------------ mqtt: what is read after every step
#[derive(Clone, Debug, Default)]
struct MqttSnap { text: String, counters: Counters, status: String, okay: Option<bool>, lib: u16 }

fn snap(probe: &MqttMetricsProbe, unit: &str) -> MqttSnap {
    let (status, okay) = probe.graph_status();
    MqttSnap { text: render(&*probe.metrics_source(), unit), counters: probe.counters(), status, okay, lib: probe.lib_inflight().unwrap_or(0) }
}

struct MqttFields { up: u64, lost: u64, err: u64, infl: u64, perr: u64, topics: Vec<(String, u64)> }

fn mqtt_fields(ls: &[PLine], unit: &str) -> Option<MqttFields> {
    Some(MqttFields {
        up: simple_value(ls, "rotonda_mqtt_target_connection_established_state", unit)?,
        lost: simple_value(ls, "rotonda_mqtt_target_connection_lost_count_total", unit)?,
        err: simple_value(ls, "rotonda_mqtt_target_connection_error_count_total", unit)?,
        infl: simple_value(ls, "rotonda_mqtt_target_in_flight_count_total", unit)?,
        perr: simple_value(ls, "rotonda_mqtt_target_publish_error_count_total", unit)?,
        topics: labelled_values(ls, "rotonda_mqtt_target_publish_count_total", unit, "topic"),
    })
}

fn show_mqtt(s: &MqttSnap, unit: &str) -> String {
    let Some(ls) = parse_text(&s.text) else { return format!("unparsable {}", show_text(&s.text)) };
    let Some(f) = mqtt_fields(&ls, unit) else { return format!("fields-missing {}", show_text(&s.text)) };
    let ts = join(f.topics.iter().map(|(t, n)| format!("x{}:{n}", hex(t))), ",");
    format!("up={} lost={} err={} infl={} perr={} lib={} pub={} T={} st=x{} ok={} {}", f.up, f.lost, f.err, f.infl, f.perr, s.lib,
        f.topics.iter().map(|t| t.1).sum::<u64>(), if ts.is_empty() { "-".into() } else { ts }, hex(&s.status),
        match s.okay { Some(true) => "1", Some(false) => "0", None => "-" }, show_text(&s.text))
}

/// What every snapshot must satisfy whatever happened: the text parses, its labels read back as the unit name,
/// it agrees with the atomics, `status_text` / `okay` agree with the fields. Returns (unknown failure, known finding).
fn judge_mqtt_snapshot(s: &MqttSnap, unit: &str, k: usize) -> (Option<String>, Option<String>) {
    let Some(ls) = parse_text(&s.text) else {
        return (Some(format!("fail {ESC_SIG} step {k}: the exposition of the mqtt target does not parse: {:?}", s.text.lines().find(|l| parse_text(&format!("{l}\n")).is_none()))), None);
    };
    let Some(f) = mqtt_fields(&ls, unit) else { return (Some(format!("fail {ESC_SIG} step {k}: no sample labelled component={unit:?} for one of the five simple metrics (label changed by its content?)")), None) };
    let samples = ls.iter().filter(|l| matches!(l, PLine::Sample(..))).count();
    if samples != 5 + f.topics.len() { return (Some(format!("fail {ESC_SIG} step {k}: {samples} samples, {} of them read back with the component / topic labels supplied", 5 + f.topics.len())), None); }
    let c = &s.counters;
    for (name, text, atomic) in [("connection_established", f.up, c.established as u64), ("connection_lost_count", f.lost, c.connection_lost as u64), ("connection_error_count", f.err, c.connection_errors as u64),
        ("in_flight_count", f.infl, c.in_flight as u64), ("publish_error_count", f.perr, c.publish_errors as u64)] {
        if text != atomic { return (Some(format!("fail unitmetrics:mqtt:{name}:text-differs-from-atomic step {k}: text {text}, atomic {atomic}")), None); }
    }
    let want = if c.established { format!("in-flight: {}\npublished: {}\nerrors: {}", f.infl, f.topics.iter().map(|t| t.1).sum::<u64>(), f.perr) } else { "N/A".to_string() };
    if s.status != want { return (Some(format!("fail unitmetrics:mqtt:status_text:disagrees-with-metrics step {k}: {:?}, the metrics say {want:?}", s.status)), None); }
    if s.okay != Some(c.established) { return (Some(format!("fail unitmetrics:mqtt:okay:disagrees-with-established step {k}")), None); }
    let mut seen = BTreeSet::new();
    for (t, _) in &f.topics { if !seen.insert(t.clone()) { return (Some(format!("fail unitmetrics:mqtt:publish_count:topic-listed-twice step {k}: {t:?}")), None); } }
    (None, duplicate_meta(&ls).map(|n| format!("fail {DUP_SIG} step {k}: the mqtt target's exposition has more than one HELP / TYPE line for {n} (one append per topic)")))
}

fn monotone(prev: &MqttFields, cur: &MqttFields, k: usize) -> Option<String> {
    for (name, a, b) in [("connection_lost_count", prev.lost, cur.lost), ("connection_error_count", prev.err, cur.err), ("publish_error_count", prev.perr, cur.perr)] {
        if b < a { return Some(format!("fail unitmetrics:mqtt:{name}:counter-decreased step {k}: {a} -> {b}")); }
    }
    for (t, n) in &prev.topics {
        match cur.topics.iter().find(|x| x.0 == *t) {
            None => return Some(format!("fail unitmetrics:mqtt:publish_count:topic-vanished step {k}: {t:?}")),
            Some((_, m)) if m < n => return Some(format!("fail unitmetrics:mqtt:publish_count:counter-decreased step {k}: topic {t:?} {n} -> {m}")),
            _ => {}
        }
    }
    None
}

// ------------------------------------------------------------------ q cases
#[derive(Clone, Copy, Debug, PartialEq, Eq)]
struct Cfg { cid: u8, dest: u8, qs: u8, tmpl: u8, r: u64, p: u64, qos: u8, user: u8 }
#[derive(Clone, Copy, Debug, PartialEq, Eq)]
enum Inp { Msg(u8), Reconf(usize), Term }
#[derive(Clone, Debug, PartialEq, Eq)]
enum Step { In(Vec<Inp>), Ev(BrokerEvent), Mode(PubMode), Tick }
#[derive(Clone, Debug, PartialEq, Eq)]
struct QCase { unit: usize, cfgs: Vec<Cfg>, steps: Vec<Step> }

fn probe_config(c: &Cfg) -> ProbeConfig {
    ProbeConfig {
        host: format!("h{}", c.dest), port: 1883 + c.dest as u16, client_id: format!("cid{}", c.cid),
        queue_size: 10 * (c.qs as u16 + 1), topic_template: TEMPLATES[c.tmpl as usize % TEMPLATES.len()].to_string(),
        connect_retry_secs: c.r, publish_max_secs: c.p, qos: c.qos as i32,
        username: if c.user == 0 { None } else { Some(format!("u{}", c.user)) },
        password: if c.user == 0 { None } else { Some("pw".into()) },
    }
}
fn show_cfg(c: &Cfg) -> String { format!("{}.{}.{}.{}.{}.{}.{}.{}", c.cid, c.dest, c.qs, c.tmpl, c.r, c.p, c.qos, c.user) }
fn parse_cfg(s: &str) -> Cfg {
    let f: Vec<u64> = s.split('.').map(|x| x.parse().unwrap()).collect();
    Cfg { cid: f[0] as u8, dest: f[1] as u8, qs: f[2] as u8, tmpl: f[3] as u8, r: f[4], p: f[5], qos: f[6] as u8, user: f[7] as u8 }
}
fn show_step(s: &Step) -> String {
    match s {
        Step::In(v) => format!("I{}", join(v.iter().map(|i| match i { Inp::Msg(t) => format!("m{t}"), Inp::Reconf(k) => format!("r{k}"), Inp::Term => "x".into() }), ",")),
        Step::Ev(e) => format!("E{}", match e { BrokerEvent::Accept => 'a', BrokerEvent::Refuse => 'r', BrokerEvent::Drop => 'd', BrokerEvent::Other => 'o' }),
        Step::Mode(m) => match m { PubMode::Accept => "Pa".into(), PubMode::Fail => "Pf".into(), PubMode::Slow(d) => format!("Ps{d}") },
        Step::Tick => "T".into(),
    }
}
fn parse_step(s: &str) -> Step {
    match &s[0..1] {
        "I" => Step::In(if s.len() == 1 { vec![] } else { s[1..].split(',').map(|i| match &i[0..1] {
            "m" => Inp::Msg(i[1..].parse().unwrap()), "r" => Inp::Reconf(i[1..].parse().unwrap()), _ => Inp::Term }).collect() }),
        "E" => Step::Ev(match &s[1..2] { "a" => BrokerEvent::Accept, "r" => BrokerEvent::Refuse, "d" => BrokerEvent::Drop, _ => BrokerEvent::Other }),
        "P" => Step::Mode(match &s[1..2] { "a" => PubMode::Accept, "f" => PubMode::Fail, _ => PubMode::Slow(s[2..].parse().unwrap()) }),
        _ => Step::Tick,
    }
}
fn show_q(c: &QCase) -> String { format!("q|{}|{}|{}", c.unit, join(c.cfgs.iter().map(show_cfg), ";"), join(c.steps.iter().map(show_step), ";")) }
fn parse_q(p: &[&str]) -> QCase { QCase { unit: p[1].parse().unwrap(), cfgs: p[2].split(';').map(parse_cfg).collect(), steps: p[3].split(';').map(parse_step).collect() } }

fn real_msg(unit: &str, topic: u8, id: u32) -> OutputStreamMessage {
    OutputStreamMessage::peer_down(unit.into(), format!("t{topic}"), IpAddr::from_str("192.0.2.1").unwrap(), Asn::from_u32(id), None)
}
fn msg_id(payload: &[u8]) -> Option<u32> {
    let v: serde_json::Value = serde_json::from_slice(payload).ok()?;
    v.get(1)?.get(1)?.as_u64().map(|n| n as u32)
}

#[derive(Clone, Debug, Default)]
struct QObs { seen: Vec<Seen>, snap: MqttSnap, finished: bool, handed: Vec<(u32, String)>, assembled: Option<String> }

fn component(name: &str, type_name: &'static str, coll: &Collection) -> rotonda::manager::Component {
    rotonda::manager::verif_hooks_unitmetrics::component_with_metrics(name, type_name, rotonda::verif::c17::new_register(), coll.clone())
}

fn run_q(case: &QCase) -> Result<Vec<QObs>, String> {
    let rt = tokio::runtime::Builder::new_current_thread().enable_time().start_paused(true).build().unwrap();
    let case = case.clone();
    let res = std::panic::catch_unwind(std::panic::AssertUnwindSafe(|| rt.block_on(async move {
        let unit = UNIT_NAMES[case.unit % UNIT_NAMES.len()];
        let coll = Collection::default();
        let (probe, fut) = MqttMetricsProbe::new(component(unit, "mqtt-out", &coll), &probe_config(&case.cfgs[0]));
        let jh = tokio::spawn(fut);
        let mut next_id = 0u32;
        let mut out = vec![];
        let n = case.steps.len();
        for (k, step) in case.steps.iter().enumerate() {
            let mut obs = QObs::default();
            match step {
                Step::In(inputs) => for i in inputs {
                    match i {
                        Inp::Msg(t) => {
                            let topic = probe.held_config().topic_template.replace("{id}", &format!("t{t}"));
                            obs.handed.push((next_id, topic));
                            let upd = Update::OutputStream(vec![real_msg(unit, *t, next_id)].into());
                            next_id += 1;
                            probe.direct_update(upd).await;
                        }
                        Inp::Reconf(j) => { probe.reconfigure(&probe_config(&case.cfgs[*j % case.cfgs.len()])); }
                        Inp::Term => { probe.terminate(); }
                    }
                },
                Step::Ev(e) => { probe.broker_event(*e); }
                Step::Mode(m) => probe.set_mode(*m),
                Step::Tick => tokio::time::sleep(Duration::from_secs(1)).await,
            }
            tokio::time::sleep(Duration::from_millis(2)).await;
            obs.seen = probe.take_seen();
            obs.snap = snap(&probe, unit);
            obs.finished = jh.is_finished();
            if k + 1 == n { obs.assembled = Some(coll.assemble(OutputFormat::Prometheus)); }
            out.push(obs);
        }
        jh.abort();
        out
    })));
    res.map_err(|_| "panic".to_string())
}

fn show_q_obs(case: &QCase, obs: &Result<Vec<QObs>, String>) -> String {
    let unit = UNIT_NAMES[case.unit % UNIT_NAMES.len()];
    match obs {
        Err(e) => e.clone(),
        Ok(v) => format!("{} ; wf=1", join(v.iter().map(|o| show_mqtt(&o.snap, unit)), " ; ")),
    }
}

/// The ledger: what each exported value must be, from what the scripted broker saw.
fn oracle_q(case: &QCase, obs: &Result<Vec<QObs>, String>) -> String {
    let Ok(obs) = obs else { return "fail unitmetrics:mqtt:run:panicked the run loop, the event-loop task or a metrics read panicked".into() };
    let unit = UNIT_NAMES[case.unit % UNIT_NAMES.len()];
    let mut known: Option<String> = None;
    let mut handed: BTreeMap<u32, String> = BTreeMap::new();
    let (mut errs, mut lost, mut perr, mut after_ack) = (0u64, 0u64, 0u64, 0u64);
    let mut up = false;
    let mut lost_known: Option<String> = None;
    let mut acks_ok: BTreeMap<usize, u64> = BTreeMap::new(); // connection -> successful ConnAcks
    let mut lib: BTreeMap<usize, u64> = BTreeMap::new(); // connection -> in-flight figure of the library
    let mut sample = 0u64; // the library's figure when `poll` last returned
    let mut pending: Option<(u32, usize, u8)> = None;
    let mut accepted: BTreeMap<String, u64> = BTreeMap::new(); // topic -> publishes a client accepted
    let mut attempted: BTreeSet<u32> = BTreeSet::new();
    let mut first_counted: Vec<String> = vec![]; // topics in the order in which a publish was first counted (accepted ones)
    let mut prev: Option<MqttFields> = None;
    for (k, o) in obs.iter().enumerate() {
        for (id, t) in &o.handed { handed.insert(*id, t.clone()); }
        for s in &o.seen {
            match s {
                Seen::Open { conn, .. } => { lib.insert(*conn, 0); acks_ok.insert(*conn, 0); }
                Seen::PollEnter { .. } => {}
                Seen::Polled { conn, ev } => {
                    let l = lib.entry(*conn).or_insert(0);
                    match ev {
                        BrokerEvent::Accept => { up = true; *acks_ok.entry(*conn).or_insert(0) += 1; }
                        BrokerEvent::Other => { *l = l.saturating_sub(1); }
                        BrokerEvent::Refuse | BrokerEvent::Drop => {
                            *l = 0; errs += 1;
                            if up { lost += 1; } // an established connection was lost
                            if acks_ok.get(conn).copied().unwrap_or(0) > 0 { after_ack += 1; } // what the code counts: any error of an event loop that was connected once
                            up = false;
                        }
                    }
                    sample = *l;
                }
                Seen::Publish { conn, topic, payload, qos, outcome, .. } => {
                    let Some(id) = msg_id(payload) else { return format!("fail unitmetrics:mqtt:harness step {k}: unknown payload") };
                    attempted.insert(id);
                    match outcome {
                        0 => { *accepted.entry(topic.clone()).or_insert(0) += 1; if !first_counted.contains(topic) { first_counted.push(topic.clone()); } if *qos > 0 { *lib.entry(*conn).or_insert(0) += 1; } }
                        1 => perr += 1,
                        _ => pending = Some((id, *conn, *qos)),
                    }
                }
                Seen::PublishDone { payload, .. } => {
                    let Some((id, conn, qos)) = pending.take() else { return format!("fail unitmetrics:mqtt:harness step {k}: completion without a pending publish") };
                    if msg_id(payload) != Some(id) { return format!("fail unitmetrics:mqtt:harness step {k}: completion of another message"); }
                    let topic = handed.get(&id).cloned().unwrap_or_default();
                    *accepted.entry(topic.clone()).or_insert(0) += 1;
                    if !first_counted.contains(&topic) { first_counted.push(topic); }
                    if qos > 0 { *lib.entry(conn).or_insert(0) += 1; }
                }
                Seen::PublishCancelled { .. } => { pending = None; perr += 1; }
                Seen::Disconnect { .. } => { up = false; }
            }
        }
        let (bad, kn) = judge_mqtt_snapshot(&o.snap, unit, k);
        if let Some(b) = bad { return b; }
        if known.is_none() { known = kn; }
        let ls = parse_text(&o.snap.text).unwrap();
        let f = mqtt_fields(&ls, unit).unwrap();
        if let Some(p) = &prev { if let Some(m) = monotone(p, &f, k) { return m; } }
        if o.finished { prev = Some(f); continue; } // after Terminate the run loop is gone; the disconnect it made is in the ledger, nothing else is judged
        if (f.up == 1) != up { return format!("fail unitmetrics:mqtt:connection_established:disagrees-with-broker step {k}: exported {}, the last of ConnAck / connection error / disconnect says {}", f.up, up as u8); }
        if f.err != errs { return format!("fail unitmetrics:mqtt:connection_error_count:miscount step {k}: exported {}, the event loops saw {errs} connection errors / refusals", f.err); }
        if f.lost != lost {
            if f.lost == after_ack && f.lost > lost { lost_known.get_or_insert(format!("fail {LOST_SIG} step {k}: mqtt_target_connection_lost_count is {}, an established connection was lost {lost} time(s); the other {} are failed attempts to re-connect while the connection was already down", f.lost, f.lost - lost)); }
            else { return format!("fail unitmetrics:mqtt:connection_lost_count:miscount step {k}: exported {}, {lost} established connections were lost", f.lost); }
        }
        if f.perr != perr { return format!("fail unitmetrics:mqtt:publish_error_count:miscount step {k}: exported {}, {perr} publishes failed or timed out", f.perr); }
        if f.infl != sample { return format!("fail unitmetrics:mqtt:in_flight_count:not-the-sampled-figure step {k}: exported {}, the library said {sample} when poll last returned", f.infl); }
        if f.infl > 1000 { return format!("fail unitmetrics:mqtt:in_flight_count:underflow step {k}: {}", f.infl); }
        // per topic: counted >= accepted; the surplus must be messages handed in for that topic that never reached a client
        let mut surplus = 0u64;
        for (t, n) in &f.topics {
            let a = accepted.get(t).copied().unwrap_or(0);
            if *n < a { return format!("fail unitmetrics:mqtt:publish_count:miscount step {k}: topic {t:?} counted {n}, a client accepted {a}"); }
            let never = handed.iter().filter(|(id, ht)| *ht == t && !attempted.contains(id)).count() as u64;
            if n - a > never { return format!("fail unitmetrics:mqtt:publish_count:miscount step {k}: topic {t:?} counted {n}, a client accepted {a}, only {never} more were handed in"); }
            surplus += n - a;
        }
        for (t, a) in &accepted { if *a > 0 && !f.topics.iter().any(|x| x.0 == *t) { return format!("fail unitmetrics:mqtt:publish_count:miscount step {k}: topic {t:?} has {a} accepted publishes and no sample"); } }
        if surplus > 0 && known.as_ref().map_or(true, |s| !s.contains(VOID_SIG)) {
            known = Some(format!("fail {VOID_SIG} step {k}: {surplus} message(s) counted in mqtt_target_publish_count were never handed to a client"));
        }
        if surplus == 0 {
            let order: Vec<&String> = f.topics.iter().map(|t| &t.0).collect();
            if order != first_counted.iter().collect::<Vec<_>>() { return format!("fail unitmetrics:mqtt:publish_count:topic-order step {k}: samples {order:?}, first accepted publishes {first_counted:?}"); }
        }
        prev = Some(f);
    }
    // the whole-process text of this one-source collection: the source's text, then the assemble duration
    if let (Some(last), false) = (obs.last(), obs.last().map_or(true, |o| o.finished)) {
        if let Some(a) = &last.assembled {
            let want = format!("{}# HELP rotonda_metric_assemble_duration_milliseconds the time taken in milliseconds to assemble the last metric snapshot\n# TYPE rotonda_metric_assemble_duration_milliseconds gauge\nrotonda_metric_assemble_duration_milliseconds 0\n", last.snap.text);
            if canonical_clock(a) != want { return format!("fail unitmetrics:assemble:mqtt:differs-from-source-text the collection's exposition is not the registered source's text followed by the assemble duration"); }
        }
    }
    lost_known.or(known).unwrap_or_else(|| "ok".into())
}

fn nontrivial_q(obs: &Result<Vec<QObs>, String>) -> bool {
    let Ok(obs) = obs else { return false };
    let all: Vec<&Seen> = obs.iter().flat_map(|o| o.seen.iter()).collect();
    let ok = all.iter().filter(|s| matches!(s, Seen::Publish { outcome: 0, .. } | Seen::PublishDone { .. })).count();
    let bad = all.iter().any(|s| matches!(s, Seen::Publish { outcome: 1, .. } | Seen::PublishCancelled { .. } | Seen::Polled { ev: BrokerEvent::Refuse | BrokerEvent::Drop, .. }));
    let acc = all.iter().any(|s| matches!(s, Seen::Polled { ev: BrokerEvent::Accept, .. }));
    ok >= 2 && acc && bad
}

fn gen_q(rng: &mut Rng, long: bool) -> QCase {
    let nasty = rng.chance(1, 3);
    let tmpl = |rng: &mut Rng| if nasty { rng.below(TEMPLATES.len() as u64) as u8 } else { rng.below(3) as u8 };
    let base = Cfg { cid: 0, dest: 0, qs: 0, tmpl: tmpl(rng), r: 1 + rng.below(3), p: 1 + rng.below(3), qos: rng.below(3) as u8, user: rng.below(3) as u8 };
    let mut cfgs = vec![base];
    for _ in 0..rng.below(4) {
        let mut c = *rng.pick(&cfgs);
        for _ in 0..1 + rng.below(2) {
            match rng.below(9) { 0 => c.cid = rng.below(2) as u8, 1 => c.dest = rng.below(2) as u8, 2 => c.qs = rng.below(2) as u8, 3 => c.tmpl = tmpl(rng),
                4 | 5 => c.r = 1 + rng.below(3), 6 => c.p = 1 + rng.below(3), 7 => c.qos = rng.below(3) as u8, _ => c.user = rng.below(3) as u8 }
        }
        cfgs.push(c);
    }
    let burst = |rng: &mut Rng, n: u64, term_ok: bool, cfgs: &Vec<Cfg>| -> Step {
        Step::In((0..n).map(|_| match rng.below(20) { 0..=13 => Inp::Msg(rng.below(3) as u8), 14..=18 => Inp::Reconf(rng.below(cfgs.len() as u64) as usize), _ => if term_ok { Inp::Term } else { Inp::Msg(0) } }).collect())
    };
    let n = if long { 10 + rng.below(30) } else { 3 + rng.below(16) };
    let mut steps = vec![if rng.chance(3, 5) { Step::In(vec![]) } else { let k = 1 + rng.below(3); burst(rng, k, false, &cfgs) }];
    for i in 0..n {
        steps.push(match rng.below(20) {
            0..=7 => { let k = 1 + rng.below(4); burst(rng, k, i + 4 >= n, &cfgs) }
            8..=12 => Step::Ev(*rng.pick(&[BrokerEvent::Accept, BrokerEvent::Accept, BrokerEvent::Refuse, BrokerEvent::Drop, BrokerEvent::Drop, BrokerEvent::Other, BrokerEvent::Other, BrokerEvent::Other])),
            13..=14 => Step::Mode(match rng.below(6) { 0 | 1 => PubMode::Accept, 2 => PubMode::Fail, _ => PubMode::Slow(1 + rng.below(4)) }),
            _ => Step::Tick,
        });
    }
    QCase { unit: if nasty { rng.below(5) as usize } else { 0 }, cfgs, steps }
}

// ------------------------------------------------------------------ r cases: reporter calls
fn topic_of_idx(i: u64) -> String { TEMPLATES[(i % 8) as usize % TEMPLATES.len()].replace("{id}", &format!("t{}", i / 8)) }

fn parse_call(s: &str) -> ReporterCall {
    match &s[0..1] {
        "c" => ReporterCall::Connected, "d" => ReporterCall::Disconnected, "e" => ReporterCall::ConnectionError, "l" => ReporterCall::Reconnecting,
        "p" => ReporterCall::PublishOk(topic_of_idx(s[1..].parse().unwrap())), "f" => ReporterCall::PublishError, _ => ReporterCall::InflightUpdate(s[1..].parse().unwrap()),
    }
}

fn mqtt_probe(unit: &str, coll: &Collection) -> MqttMetricsProbe {
    let (probe, fut) = MqttMetricsProbe::new(component(unit, "mqtt-out", coll), &probe_config(&Cfg { cid: 0, dest: 0, qs: 0, tmpl: 0, r: 1, p: 1, qos: 1, user: 0 }));
    drop(fut); // the run loop never starts: only the reporter and the metrics are used
    probe
}

fn run_r(unit: usize, calls: &[String]) -> Result<Vec<MqttSnap>, String> {
    let calls = calls.to_vec();
    std::panic::catch_unwind(move || {
        let unit = UNIT_NAMES[unit % UNIT_NAMES.len()];
        let coll = Collection::default();
        let probe = mqtt_probe(unit, &coll);
        calls.iter().map(|c| { probe.report(&parse_call(c)); snap(&probe, unit) }).collect()
    }).map_err(|_| "panic".to_string())
}

fn oracle_r(unit: usize, calls: &[String], obs: &Result<Vec<MqttSnap>, String>) -> String {
    let Ok(obs) = obs else { return "fail unitmetrics:mqtt:reporter:panicked".into() };
    let unit = UNIT_NAMES[unit % UNIT_NAMES.len()];
    let mut known = None;
    let (mut up, mut lost, mut err, mut infl, mut perr) = (false, 0u64, 0u64, 0u64, 0u64);
    let mut lost_while_up = 0u64; // `reconnecting` calls made while the gauge said up (the repaired reporter counts these only)
    let mut topics: Vec<(String, u64)> = vec![];
    let mut prev: Option<MqttFields> = None;
    for (k, (c, s)) in calls.iter().zip(obs).enumerate() {
        match parse_call(c) {
            ReporterCall::Connected => up = true, ReporterCall::Disconnected => up = false, ReporterCall::ConnectionError => err += 1,
            ReporterCall::Reconnecting => { if up { lost_while_up += 1 } up = false; lost += 1 } ReporterCall::PublishError => perr += 1, ReporterCall::InflightUpdate(n) => infl = n as u64,
            ReporterCall::PublishOk(t) => match topics.iter_mut().find(|x| x.0 == t) { Some(x) => x.1 += 1, None => topics.push((t, 1)) },
        }
        let (bad, kn) = judge_mqtt_snapshot(s, unit, k);
        if let Some(b) = bad { return b; }
        if known.is_none() { known = kn; }
        let ls = parse_text(&s.text).unwrap();
        let f = mqtt_fields(&ls, unit).unwrap();
        if let Some(p) = &prev { if let Some(m) = monotone(p, &f, k) { return m; } }
        if f.lost != lost && f.lost != lost_while_up { return format!("fail unitmetrics:mqtt:connection_lost_count:miscount call {k}: exported {}, {lost} reconnecting calls, {lost_while_up} of them while up", f.lost); }
        for (name, got, want) in [("connection_established", f.up, up as u64), ("connection_error_count", f.err, err), ("in_flight_count", f.infl, infl), ("publish_error_count", f.perr, perr)] {
            if got != want { return format!("fail unitmetrics:mqtt:{name}:miscount call {k}: exported {got}, the calls made imply {want}"); }
        }
        if f.topics != topics { return format!("fail unitmetrics:mqtt:publish_count:miscount call {k}: exported {:?}, the calls made imply {topics:?}", f.topics); }
        prev = Some(f);
    }
    known.unwrap_or_else(|| "ok".into())
}

// ------------------------------------------------------------------ f cases: filter unit
#[derive(Clone, Debug, Default)]
struct FSnap { text: String, status: String }

fn run_f(unit: usize, evs: &[String]) -> Result<Vec<FSnap>, String> {
    let evs = evs.to_vec();
    let rt = tokio::runtime::Builder::new_current_thread().enable_time().build().unwrap();
    std::panic::catch_unwind(std::panic::AssertUnwindSafe(|| rt.block_on(async move {
        let unit = UNIT_NAMES[unit % UNIT_NAMES.len()];
        let coll = Collection::default();
        let probe = FilterMetricsProbe::new(component(unit, "filter", &coll), "my-filter");
        let mut out = vec![];
        for e in &evs {
            if e == "e" { probe.direct_update(Update::UpstreamStatusChange(UpstreamStatus::EndOfStream { ingress_id: 1 })).await; }
            else { probe.message_filtered(e[1..].parse().unwrap()); }
            out.push(FSnap { text: canonical_clock(&render(&*probe.metrics_source(), unit)), status: probe.graph_status().0 });
        }
        out
    }))).map_err(|_| "panic".to_string())
}

struct FFields { routers: Vec<(String, u64)>, total: u64, updates: u64, dropped: u64, updated: bool }
fn filter_fields(ls: &[PLine], unit: &str) -> Option<FFields> {
    Some(FFields {
        routers: labelled_values(ls, "rotonda_roto_filter_num_filtered_messages_total", unit, "router"),
        total: simple_value(ls, "rotonda_roto_filter_num_filtered_messages_total", unit)?,
        updates: simple_value(ls, "rotonda_num_updates_total", unit)?,
        dropped: simple_value(ls, "rotonda_num_dropped_updates_total", unit)?,
        updated: simple_value(ls, "rotonda_update_set_size_total", unit).is_some(),
    })
}
fn show_f(obs: &Result<Vec<FSnap>, String>, unit: usize) -> String {
    let unit = UNIT_NAMES[unit % UNIT_NAMES.len()];
    match obs {
        Err(e) => e.clone(),
        Ok(v) => join(v.iter().map(|s| {
            let Some(ls) = parse_text(&s.text) else { return format!("unparsable {}", show_text(&s.text)) };
            let Some(f) = filter_fields(&ls, unit) else { return format!("fields-missing {}", show_text(&s.text)) };
            let rs = join(f.routers.iter().map(|(r, n)| format!("{r}:{n}")), ",");
            format!("R={} tot={} g={}.{}.{} {}", if rs.is_empty() { "-".into() } else { rs }, f.total, f.updates, f.dropped, f.updated as u8, show_text(&s.text))
        }), " ; "),
    }
}
fn oracle_f(unit: usize, evs: &[String], obs: &Result<Vec<FSnap>, String>) -> String {
    let Ok(obs) = obs else { return "fail unitmetrics:filter:run:panicked".into() };
    let unit = UNIT_NAMES[unit % UNIT_NAMES.len()];
    let mut known = None;
    let mut routers: Vec<(String, u64)> = vec![];
    let (mut total, mut eos) = (0u64, 0u64);
    for (k, (e, s)) in evs.iter().zip(obs).enumerate() {
        if e == "e" { eos += 1 } else {
            total += 1;
            let r = e[1..].to_string();
            match routers.iter_mut().find(|x| x.0 == r) { Some(x) => x.1 += 1, None => routers.push((r, 1)) }
        }
        let Some(ls) = parse_text(&s.text) else { return format!("fail {ESC_SIG} event {k}: the filter unit's exposition does not parse") };
        let Some(f) = filter_fields(&ls, unit) else { return format!("fail {ESC_SIG} event {k}: a sample of the filter unit does not read back with component={unit:?}") };
        if f.routers != routers { return format!("fail unitmetrics:filter:num_filtered_messages:per-ingress-miscount event {k}: exported {:?}, the calls imply {routers:?}", f.routers); }
        if f.total != total { return format!("fail unitmetrics:filter:num_filtered_messages:total-miscount event {k}: exported {}, {total} messages were reported filtered", f.total); }
        if f.routers.iter().map(|r| r.1).sum::<u64>() != f.total { return format!("fail unitmetrics:filter:num_filtered_messages:total-is-not-the-sum event {k}"); }
        if f.updates != eos || f.dropped != eos || f.updated != (eos > 0) { return format!("fail unitmetrics:filter:gate:miscount event {k}: updates {} dropped {} (no link), {eos} EndOfStream passed on", f.updates, f.dropped); }
        if s.status != format!("out: {eos}") { return format!("fail unitmetrics:filter:status_text:disagrees-with-metrics event {k}: {:?}", s.status); }
        if known.is_none() { known = duplicate_meta(&ls).map(|n| format!("fail {DUP_SIG} event {k}: the filter unit's exposition has more than one HELP / TYPE line for {n} (one append per ingress and one for the total)")); }
    }
    known.unwrap_or_else(|| "ok".into())
}

// ------------------------------------------------------------------ a cases: Collection::assemble over several real sources
#[derive(Clone, Debug)]
enum SrcSpec { Tokio { name: usize }, Mqtt { name: usize, up: bool, lost: u64, errs: u64, infl: u16, perr: u64, topics: Vec<(u64, u64)> }, Filter { name: usize, total: u64, routers: Vec<(u64, u64)> } }

fn parse_kv(s: &str) -> Vec<(u64, u64)> { if s == "-" { vec![] } else { s.split('&').map(|p| { let (a, b) = p.split_once('=').unwrap(); (a.parse().unwrap(), b.parse().unwrap()) }).collect() } }
fn show_kv(v: &[(u64, u64)]) -> String { if v.is_empty() { "-".into() } else { join(v.iter().map(|(a, b)| format!("{a}={b}")), "&") } }
fn parse_src(s: &str) -> SrcSpec {
    let p: Vec<&str> = s.split('.').collect();
    match p[1] {
        "t" => SrcSpec::Tokio { name: p[0].parse().unwrap() },
        "m" => SrcSpec::Mqtt { name: p[0].parse().unwrap(), up: p[2] == "1", lost: p[3].parse().unwrap(), errs: p[4].parse().unwrap(), infl: p[5].parse().unwrap(), perr: p[6].parse().unwrap(), topics: parse_kv(p[7]) },
        _ => SrcSpec::Filter { name: p[0].parse().unwrap(), total: p[2].parse().unwrap(), routers: parse_kv(p[3]) },
    }
}
fn show_src(s: &SrcSpec) -> String {
    match s {
        SrcSpec::Mqtt { name, up, lost, errs, infl, perr, topics } => format!("{name}.m.{}.{lost}.{errs}.{infl}.{perr}.{}", *up as u8, show_kv(topics)),
        SrcSpec::Filter { name, total, routers } => format!("{name}.f.{total}.{}", show_kv(routers)),
        SrcSpec::Tokio { name } => format!("{name}.t"),
    }
}
fn src_name(s: &SrcSpec) -> usize { match s { SrcSpec::Mqtt { name, .. } | SrcSpec::Filter { name, .. } | SrcSpec::Tokio { name } => *name } }

enum Built { M(MqttMetricsProbe), F(FilterMetricsProbe), T(std::sync::Arc<dyn Source>) }
impl Built { fn source(&self) -> std::sync::Arc<dyn Source> { match self { Built::M(p) => p.metrics_source(), Built::F(p) => p.metrics_source(), Built::T(a) => a.clone() } } }

struct AObs { assembled: String, own: Vec<(usize, String)> }

fn run_a(specs: &[SrcSpec]) -> Result<AObs, String> {
    let specs = specs.to_vec();
    std::panic::catch_unwind(move || {
        let coll = Collection::default();
        let mut built = vec![];
        for s in &specs {
            let unit = UNIT_NAMES[src_name(s) % UNIT_NAMES.len()];
            match s {
                SrcSpec::Mqtt { up, lost, errs, infl, perr, topics, .. } => {
                    let p = mqtt_probe(unit, &coll);
                    for _ in 0..*lost { p.report(&ReporterCall::Connected); p.report(&ReporterCall::Reconnecting); } // an established connection lost: counted by the reporter as written and as repaired
                    for _ in 0..*errs { p.report(&ReporterCall::ConnectionError); }
                    for _ in 0..*perr { p.report(&ReporterCall::PublishError); }
                    p.report(&ReporterCall::InflightUpdate(*infl));
                    for (t, n) in topics { for _ in 0..*n { p.report(&ReporterCall::PublishOk(topic_of_idx(*t))); } }
                    p.report(&if *up { ReporterCall::Connected } else { ReporterCall::Disconnected });
                    built.push(Built::M(p));
                }
                SrcSpec::Tokio { .. } => {
                    // as the BMP and RIB units do: a task monitor nobody instruments, registered under the unit's name
                    let src: std::sync::Arc<dyn Source> = std::sync::Arc::new(rotonda::tokio::TokioTaskMetrics::new());
                    coll.register(unit.into(), std::sync::Arc::downgrade(&src));
                    built.push(Built::T(src));
                }
                SrcSpec::Filter { routers, .. } => {
                    let p = FilterMetricsProbe::new(component(unit, "filter", &coll), "my-filter");
                    for (r, n) in routers { for _ in 0..*n { p.message_filtered(*r as u32); } }
                    built.push(Built::F(p));
                }
            }
        }
        let assembled = canonical_clock(&coll.assemble(OutputFormat::Prometheus));
        let own = specs.iter().zip(&built).map(|(s, b)| (src_name(s), canonical_clock(&render(&*b.source(), UNIT_NAMES[src_name(s) % UNIT_NAMES.len()])))).collect();
        AObs { assembled, own }
    }).map_err(|_| "panic".to_string())
}

fn show_a(obs: &Result<AObs, String>) -> String {
    match obs {
        Err(e) => e.clone(),
        Ok(o) => {
            // the order of the sources as the text shows it: the component label of the first sample of each source's block
            let mut order: Vec<usize> = vec![];
            let mut rest = o.assembled.as_str();
            let mut left: Vec<&(usize, String)> = o.own.iter().collect();
            while let Some(p) = left.iter().position(|(_, t)| rest.starts_with(t.as_str())) { let (n, t) = left.remove(p); order.push(*n); rest = &rest[t.len()..]; }
            let uniq = parse_text(&o.assembled).map_or(false, |ls| duplicate_meta(&ls).is_none());
            format!("order={} {} uniq={}", join(order.iter(), ","), show_text(&o.assembled), uniq as u8)
        }
    }
}

fn oracle_a(specs: &[SrcSpec], obs: &Result<AObs, String>) -> String {
    let Ok(o) = obs else { return "fail unitmetrics:assemble:run:panicked".into() };
    // registration keeps the sources sorted by component name, equal names in registration order
    let mut idx: Vec<usize> = (0..specs.len()).collect();
    idx.sort_by(|a, b| UNIT_NAMES[src_name(&specs[*a]) % UNIT_NAMES.len()].cmp(UNIT_NAMES[src_name(&specs[*b]) % UNIT_NAMES.len()]));
    let mut want = String::new();
    for i in &idx { want.push_str(&o.own[*i].1); }
    want.push_str("# HELP rotonda_metric_assemble_duration_milliseconds the time taken in milliseconds to assemble the last metric snapshot\n# TYPE rotonda_metric_assemble_duration_milliseconds gauge\nrotonda_metric_assemble_duration_milliseconds 0\n");
    if o.assembled != want { return "fail unitmetrics:assemble:collection:not-the-concatenation-in-name-order the assembled exposition is not the sources' own texts in component-name order followed by the assemble duration".into(); }
    let Some(ls) = parse_text(&o.assembled) else { return format!("fail {ESC_SIG} the assembled exposition does not parse") };
    for (_, t) in &o.own { if parse_text(t).is_none() { return format!("fail {ESC_SIG} a source's own exposition does not parse"); } }
    if let Some(c) = conflicting_meta(&ls) { return format!("fail unitmetrics:assemble:family:conflicting-type-or-help {c}"); }
    // every sample carries the component label of the source it came from
    let samples = ls.iter().filter(|l| matches!(l, PLine::Sample(_, Some(_), _))).count();
    let per: usize = o.own.iter().map(|(n, t)| parse_text(t).unwrap().iter().filter(|l| matches!(l, PLine::Sample(_, Some(lb), _) if lb.first().map_or(false, |x| x.0 == "component" && x.1 == UNIT_NAMES[*n % UNIT_NAMES.len()]))).count()).sum();
    if samples != per { return format!("fail {ESC_SIG} {samples} labelled samples in the assembled text, {per} carry their source's component name"); }
    if let Some(n) = duplicate_meta(&ls) { return format!("fail {DUP_SIG} the assembled exposition of {} sources has more than one HELP / TYPE line for {n}", specs.len()); }
    "ok".into()
}

fn gen_a(rng: &mut Rng) -> Vec<SrcSpec> {
    let nasty = rng.chance(1, 3);
    let n = 1 + rng.below(4);
    (0..n).map(|_| {
        let name = if nasty { rng.below(8) as usize } else { *rng.pick(&[0usize, 5, 6, 7]) };
        if rng.chance(1, 6) { SrcSpec::Tokio { name } } else if rng.chance(1, 2) {
            let k = rng.below(4);
            let mut topics: Vec<(u64, u64)> = vec![];
            for _ in 0..k { let t = if nasty { rng.below(24) } else { rng.below(3) * 8 + rng.below(3) }; if !topics.iter().any(|x| topic_of_idx(x.0) == topic_of_idx(t)) { topics.push((t, 1 + rng.below(3))); } }
            SrcSpec::Mqtt { name, up: rng.chance(1, 2), lost: rng.below(3), errs: rng.below(4), infl: rng.below(5) as u16, perr: rng.below(3), topics }
        } else {
            let k = rng.below(4);
            let mut routers: Vec<(u64, u64)> = vec![];
            for _ in 0..k { let r = rng.below(6); if !routers.iter().any(|x| x.0 == r) { routers.push((r, 1 + rng.below(3))); } }
            let total = routers.iter().map(|x| x.1).sum();
            SrcSpec::Filter { name, total, routers }
        }
    }).collect()
}

// ------------------------------------------------------------------ main
fn record(rec: &mut Recorder, line: &str) -> (String, bool) {
    let p: Vec<&str> = line.split('|').collect();
    let (imp, orc, nt) = match p[0] {
        "q" => {
            let case = parse_q(&p);
            let obs = run_q(&case);
            if let Ok(o) = &obs {
                for s in o.iter().flat_map(|o| o.seen.iter()) {
                    rec.bump(match s {
                        Seen::Open { .. } => "q.seen.open", Seen::PollEnter { .. } => "q.seen.poll-enter",
                        Seen::Polled { ev: BrokerEvent::Accept, .. } => "q.seen.connack-success", Seen::Polled { ev: BrokerEvent::Refuse, .. } => "q.seen.connack-refused",
                        Seen::Polled { ev: BrokerEvent::Drop, .. } => "q.seen.connection-error", Seen::Polled { .. } => "q.seen.puback",
                        Seen::Publish { outcome: 0, .. } => "q.seen.publish-accepted", Seen::Publish { outcome: 1, .. } => "q.seen.publish-client-error", Seen::Publish { .. } => "q.seen.publish-slow",
                        Seen::PublishDone { .. } => "q.seen.slow-publish-accepted", Seen::PublishCancelled { .. } => "q.seen.slow-publish-timed-out", Seen::Disconnect { .. } => "q.seen.disconnect",
                    });
                }
                if o.iter().any(|x| x.snap.counters.in_flight > 0) { rec.bump("q.case.in-flight-gauge-nonzero"); }
                if o.iter().any(|x| x.snap.counters.in_flight as u16 != x.snap.lib) { rec.bump("q.case.gauge-behind-library-at-a-quiescent-point"); }
                if case.unit != 0 { rec.bump("q.case.unit-name-needs-escaping"); }
                if case.cfgs.iter().any(|c| c.tmpl >= 3) { rec.bump("q.case.topic-needs-escaping"); }
            }
            (show_q_obs(&case, &obs), oracle_q(&case, &obs), nontrivial_q(&obs))
        }
        "r" => {
            let unit: usize = p[1].parse().unwrap();
            let calls: Vec<String> = p[2].split(' ').filter(|s| !s.is_empty()).map(String::from).collect();
            let obs = run_r(unit, &calls);
            for c in &calls { rec.bump(&format!("r.call.{}", &c[0..1])); }
            let imp = match &obs { Err(e) => e.clone(), Ok(v) => join(v.iter().map(|s| show_mqtt(s, UNIT_NAMES[unit % UNIT_NAMES.len()])), " ; ") };
            let kinds: BTreeSet<&str> = calls.iter().map(|c| &c[0..1]).collect();
            (imp, oracle_r(unit, &calls, &obs), kinds.len() >= 4 && calls.len() >= 6)
        }
        "f" => {
            let unit: usize = p[1].parse().unwrap();
            let evs: Vec<String> = p[2].split(' ').filter(|s| !s.is_empty()).map(String::from).collect();
            let obs = run_f(unit, &evs);
            for e in &evs { rec.bump(if e == "e" { "f.event.end-of-stream" } else { "f.event.message-filtered" }); }
            let ingresses: BTreeSet<&String> = evs.iter().filter(|e| *e != "e").collect();
            (show_f(&obs, unit), oracle_f(unit, &evs, &obs), ingresses.len() >= 2 && evs.len() >= 4)
        }
        _ => {
            let specs: Vec<SrcSpec> = p[1].split(';').map(parse_src).collect();
            let obs = run_a(&specs);
            for s in &specs { rec.bump(match s { SrcSpec::Mqtt { .. } => "a.source.mqtt", SrcSpec::Filter { .. } => "a.source.filter", SrcSpec::Tokio { .. } => "a.source.tokio" }); }
            let names: BTreeSet<usize> = specs.iter().map(src_name).collect();
            if names.len() < specs.len() { rec.bump("a.case.two-sources-under-one-name"); }
            (show_a(&obs), oracle_a(&specs, &obs), specs.len() >= 2)
        }
    };
    rec.bump(&format!("oracle.{}", orc.split(' ').take(2).collect::<Vec<_>>().join(" ")));
    rec.case(line.to_string(), imp, orc.clone(), nt);
    (orc, nt)
}

/// Witnesses replayed first. The first three select the MqttConn variants (what the scripted broker sees decides,
/// not an oracle verdict); the others are the label-escaping and header-repetition witnesses on these sources.
const W_VOID: &str = "q|0|0.0.0.0.1.1.1.0|Im0,m1;Ea;Im2";
const W_RETRY: &str = "q|0|0.0.0.0.1.1.1.0;0.0.0.0.3.1.1.0|I;Ea;Ir1;Ed;T;T;T;Ea";
const W_CRED: &str = "q|0|0.0.0.0.1.1.1.0;0.0.0.0.1.1.1.2|I;Ea;Ir1;Im0";
const W_LOST: &str = "q|0|0.0.0.0.1.1.1.0|I;Ea;Ed;T;Ed;T;Ed;T;Ea";
const WITNESSES: &[&str] = &[
    "q|4|0.0.0.5.1.1.1.0|I;Ea;Im0,m1,m0;Eo;Ed;T;Ea",
    "q|3|0.0.0.4.1.1.2.0;1.0.0.6.1.1.0.0|I;Ea;Im1;Ir1;Ea;Im1,m2;Eo",
    "q|0|0.0.0.0.1.2.1.0|I;Ea;Im0,m1,m2;Eo;Im0;Ps1;Im1;T;Eo;Eo;Eo;Eo",
    "r|1|c p3 p11 p3 i7 e l f d c p4",
    "r|0|c p0 p0 p1 e",
    "f|5|m3 m3 e m7 m3 e",
    "f|4|m1 m2",
    "a|0.m.1.0.0.2.0.0=3&9=1;5.f.4.3=4;6.m.0.1.2.0.1.1=2",
    "a|5.f.2.1=2;5.f.0.-",
    "a|4.m.1.0.0.0.0.5=1&20=2;2.f.1.0=1;3.m.0.0.0.0.0.-",
    "a|5.t;5.f.2.1=2;0.m.1.0.0.0.0.0=1;5.t",
];

fn main() {
    let args = parse_args();
    std::panic::set_hook(Box::new(|_| {}));
    if args.rest.iter().any(|a| a == "--explore") {
        for c in args.rest.iter().filter(|a| a.contains('|')) {
            let mut r = Recorder::new("");
            let (orc, _) = record(&mut r, c);
            println!("{c}\n  => {}\n  oracle: {orc}", r.impls[0].replace(" ; ", "\n     "));
            if c.starts_with("q|") { if let Ok(o) = run_q(&parse_q(&c.split('|').collect::<Vec<_>>())) { println!("{}", o.last().unwrap().snap.text); } }
        }
        return;
    }
    let t0 = Instant::now();
    let mut rec = Recorder::new("q: an mqtt-out target (1 of 5 unit names, 4 of them needing escaping) with a table of 1-5 configurations (7 topic templates, 4 needing escaping) and a script of 4-40 steps (bursts of messages / Reconfigure / Terminate, ConnAck success / refusal, connection error, PubAck, publish accept / client error / slow, seconds passing); r: 1-40 calls on the target's status reporter; f: 1-30 filter-unit events (message_filtered for 6 ingresses, EndOfStream); a: 1-4 mqtt / filter sources under 8 names (repeats allowed) in one Collection. non-trivial = q: two accepted publishes, a successful ConnAck and a failed publish or connection error; r: >= 6 calls of >= 4 kinds; f: >= 4 events for >= 2 ingresses; a: >= 2 sources. distinct = distinct case lines");
    if let Some(path) = &args.replay {
        for c in replay_cases(path) { record(&mut rec, &c); }
        rec.finish(&args, t0.elapsed().as_secs_f64());
        return;
    }
    // MqttConn variants of this tree
    let seen_of = |c: &str| run_q(&parse_q(&c.split('|').collect::<Vec<_>>())).unwrap_or_default();
    let v = seen_of(W_VOID);
    let counted: u64 = v.last().and_then(|o| parse_text(&o.snap.text)).and_then(|ls| mqtt_fields(&ls, UNIT_NAMES[0])).map_or(0, |f| f.topics.iter().map(|t| t.1).sum());
    let accepted = v.iter().flat_map(|o| o.seen.iter()).filter(|s| matches!(s, Seen::Publish { outcome: 0, .. })).count() as u64;
    rec.variant("void", if counted > accepted { "as-written" } else { "repaired" });
    let v = seen_of(W_RETRY);
    let early = v.get(4).map_or(false, |o| o.seen.iter().any(|s| matches!(s, Seen::PollEnter { .. })));
    rec.variant("retry", if early { "as-written" } else { "repaired" });
    let v = seen_of(W_CRED);
    let reconnected = v.get(2).map_or(false, |o| o.seen.iter().any(|s| matches!(s, Seen::Disconnect { .. })));
    rec.variant("cred", if reconnected { "repaired" } else { "as-written" });
    let v = seen_of(W_LOST);
    let lost_exported = v.last().and_then(|o| parse_text(&o.snap.text)).and_then(|ls| mqtt_fields(&ls, UNIT_NAMES[0])).map_or(0, |f| f.lost);
    rec.variant("lostcount", if lost_exported > 1 { "as-written" } else { "repaired" });
    for w in [W_VOID, W_RETRY, W_CRED, W_LOST] { record(&mut rec, w); }
    // exposition variants: a label value with a quote reads back / a metric appended twice repeats its header
    let mut esc_ok = true; let mut dup = false;
    for w in WITNESSES {
        let (orc, _) = record(&mut rec, w);
        if orc.starts_with(&format!("fail {ESC_SIG}")) { esc_ok = false; }
        if orc.starts_with(&format!("fail {DUP_SIG}")) { dup = true; }
    }
    rec.variant("promescape", if esc_ok { "repaired" } else { "as-written" });
    rec.variant("promgroup", if dup { "as-written" } else { "repaired" });
    // generated cases on a few threads (the scripted broker is per thread, the runtime per case)
    let threads = 4u64;
    let (nq, nr, nf, na) = if args.thorough { (24000, 6000, 4000, 6000) } else { (1500, 500, 400, 600) };
    let seed = args.seed;
    let handles: Vec<_> = (0..threads).map(|t| std::thread::spawn(move || {
        let mut rng = Rng::new(seed.wrapping_mul(1000003).wrapping_add(t));
        let mut r = Recorder::new("");
        let mut nts = vec![];
        for i in 0..nq { let c = gen_q(&mut rng, i % 5 == 0); nts.push(record(&mut r, &show_q(&c)).1); }
        for _ in 0..nr {
            let nasty = rng.chance(1, 3);
            let n = 1 + rng.below(40);
            let calls: Vec<String> = (0..n).map(|_| match rng.below(12) { 0 | 1 => "c".into(), 2 => "d".into(), 3 => "e".into(), 4 => "l".into(), 5 => "f".into(), 6 | 7 => format!("i{}", rng.below(6)), _ => format!("p{}", if nasty { rng.below(24) } else { rng.below(3) * 8 + rng.below(3) }) }).collect();
            nts.push(record(&mut r, &format!("r|{}|{}", if nasty { rng.below(5) } else { 0 }, calls.join(" "))).1);
        }
        for _ in 0..nf {
            let n = 1 + rng.below(30);
            let evs: Vec<String> = (0..n).map(|_| if rng.chance(1, 6) { "e".into() } else { format!("m{}", rng.below(6)) }).collect();
            nts.push(record(&mut r, &format!("f|{}|{}", if rng.chance(1, 3) { rng.below(6) } else { 5 }, evs.join(" "))).1);
        }
        for _ in 0..na { let s = gen_a(&mut rng); nts.push(record(&mut r, &format!("a|{}", join(s.iter().map(show_src), ";"))).1); }
        (r, nts)
    })).collect();
    for h in handles {
        let (r, nts) = h.join().unwrap();
        for (((c, i), o), nt) in r.cases.iter().zip(&r.impls).zip(&r.oracles).zip(&nts) { rec.case(c.clone(), i.clone(), o.clone(), *nt); }
        for (k, v) in &r.dist { rec.bump_by(k, *v); }
    }
    rec.finish(&args, t0.elapsed().as_secs_f64());
}
