//! C17 engine: the real file-out target and the real mqtt-out runner vs the
//! Lean model `Model/OutStream.lean`.
//!
//! * `file` cases: the real `File::run` is spawned on a tokio runtime, connected
//!   through a real `Gate`/`Link`, fed a sequence of `Update`s with
//!   `Gate::update_data`, and stopped by dropping the gate; the observation is
//!   the content of the scratch output file, split into lines (a route line is
//!   recognised as "the serde serialisation of that route" and replaced by a
//!   token, everything else is byte-exact), or `panic` if the target task died.
//! * `mqtt` cases: a real `MqttRunner` (no broker) whose publish queue is
//!   drained after each real `direct_update`; observation = (topic, payload) list.
//! Oracle (independent of the Lean model): one line per emitted message, in
//! order, each parsing back (serde_json / csv reader / custom text) to the
//! emitted record; nothing for other updates; mqtt publishes exactly the
//! messages whose name is the component name, topic = template with `{id}`
//! filled, payload = `[ingress info, record]` as JSON values.
use std::collections::HashMap;
use std::net::IpAddr;
use std::str::FromStr;
use std::time::Instant;

use inetnum::asn::Asn;
use rotonda::comms::Gate;
use rotonda::ingress::IngressInfo;
use rotonda::manager::{Coordinator, TargetCommand};
use rotonda::payload::{Payload, RotondaPaMap, RotondaRoute, Update, UpstreamStatus};
use rotonda::roto_runtime::types::{LogEntry, OutputStreamMessage, RouteContext};
use routecore::bgp::message::PduParseInfo;
use routecore::bgp::nlri::afisafi::{Ipv4MulticastNlri, Ipv4UnicastNlri, Ipv6MulticastNlri, Ipv6UnicastNlri};
use routecore::bgp::path_attributes::OwnedPathAttributes;
use routecore::bgp::types::AfiSafiType;
use serde_json::{json, Value};
use smallvec::SmallVec;
use verif_harness::{join, parse_args, rng::Rng, Recorder};

// ------------------------------------------------------------ abstract cases

#[derive(Clone, Debug, PartialEq)]
struct GRoute { pfx: String, fam: u8, attrs: usize }

#[derive(Clone, Debug, PartialEq, Default)]
struct GEntry {
    ts: u64, origin_as: Option<u32>, peer_as: Option<u32>, hops: Option<u64>, cr: u64, cu: u64,
    mpr: Option<u64>, mpra: Option<usize>, mpu: Option<u64>, mpua: Option<usize>, custom: Option<String>,
}

#[derive(Clone, Debug, PartialEq)]
enum GRec { Route(Option<GRoute>), Peerdown(String, u32), Custom(u32, u32), Entry(GEntry) }

#[derive(Clone, Debug, PartialEq)]
struct GMsg { name: String, topic: String, ingress: Option<u32>, rec: GRec }

#[derive(Clone, Debug, PartialEq)]
enum GUpd { Single, Bulk(u64), Withdraw, WithdrawBulk, Query, Eos, Out(Vec<GMsg>),
    /// not an update: the register entry of a source is updated (`Register::update_info`) between two updates (mqtt cases only)
    Info(u32, GInfo) }

#[derive(Clone, Debug, PartialEq, Default)]
struct GInfo { unit: Option<String>, parent: Option<u32>, addr: Option<String>, asn: Option<u32>, filename: Option<String>, name: Option<String>, desc: Option<String> }

/// Attribute blobs by class: 'p' = csv-serialisable, 'x' = contains an extended
/// community (serde map inside), 'i' = contains an attribute routecore keeps as `Invalid`.
const ATTRS: &[(char, &[u8])] = &[
    ('p', &[]),
    ('p', &[0x40, 1, 1, 0, 0x40, 2, 6, 2, 1, 0, 0, 0xfd, 0xe8, 0x40, 3, 4, 10, 0, 0, 1]),
    ('p', &[0x40, 1, 1, 2, 0x40, 2, 10, 2, 2, 0, 0, 0xfd, 0xe8, 0, 3, 0x0d, 0x40, 0x80, 4, 4, 0, 0, 0, 7, 0x40, 5, 4, 0, 0, 0, 100, 0xc0, 8, 8, 0xfd, 0xe8, 0, 100, 0xff, 0xff, 0xff, 0x01]),
    ('p', &[0xc0, 32, 12, 0, 0, 0xfd, 0xe8, 0, 0, 0, 1, 0, 0, 0, 2, 0x40, 6, 0, 0xc0, 7, 8, 0, 0, 0xfd, 0xe8, 10, 0, 0, 1]),
    ('p', &[0x80, 14, 13, 0, 2, 1, 4, 10, 0, 0, 1, 0, 24, 1, 2, 3, 0xc0, 99, 2, 1, 2]),
    ('x', &[0x40, 1, 1, 0, 0xc0, 16, 8, 0, 2, 0xfd, 0xe8, 0, 0, 0, 1]),
    ('x', &[0xc0, 16, 16, 0, 2, 0xfd, 0xe8, 0, 0, 0, 1, 1, 2, 10, 0, 0, 1, 0, 5, 0x40, 3, 4, 10, 0, 0, 1]),
    ('i', &[0x40, 1, 2, 0, 0]),
    ('i', &[0x40, 1, 1, 0, 0x80, 4, 1, 7]),
];
const AFISAFIS: &[AfiSafiType] = &[AfiSafiType::Ipv4Unicast, AfiSafiType::Ipv6Unicast, AfiSafiType::Ipv4Multicast, AfiSafiType::Ipv6Multicast, AfiSafiType::L2VpnEvpn, AfiSafiType::Ipv4FlowSpec];

fn afisafi_name(i: usize) -> String { serde_json::to_string(&AFISAFIS[i]).unwrap().trim_matches('"').to_string() }

// --------------------------------------------------------------- encodings

fn enc(s: &str) -> String { if s.is_empty() { "e".into() } else { join(s.chars().map(|c| c as u32), ".") } }
fn dec(s: &str) -> String { if s == "e" { String::new() } else { s.split('.').map(|x| char::from_u32(x.parse().unwrap()).unwrap()).collect() } }
fn enc_o(s: &Option<String>) -> String { s.as_ref().map(|s| enc(s)).unwrap_or("_".into()) }
fn dec_o(s: &str) -> Option<String> { if s == "_" { None } else { Some(dec(s)) } }
fn num_o<T: std::fmt::Display>(n: &Option<T>) -> String { n.as_ref().map(|n| n.to_string()).unwrap_or("_".into()) }
fn pnum_o<T: FromStr>(s: &str) -> Option<T> where T::Err: std::fmt::Debug { if s == "_" { None } else { Some(s.parse().unwrap()) } }

/// Readable escaping of observed text (same function in the Lean driver).
fn esc(s: &str) -> String {
    let mut o = String::new();
    for c in s.chars() {
        let u = c as u32;
        if (0x21..=0x7e).contains(&u) && !"\\|#@".contains(c) { o.push(c) } else { o.push_str(&format!("\\u{{{:x}}}", u)) }
    }
    o
}

fn show_rec(r: &GRec) -> String {
    match r {
        GRec::Route(None) => "R _".into(),
        GRec::Route(Some(g)) => format!("R {} {}{}", g.pfx, g.fam, ATTRS[g.attrs].0) + &format!("{}", g.attrs),
        GRec::Peerdown(ip, asn) => format!("P {ip} {asn}"),
        GRec::Custom(i, v) => format!("C {i} {v}"),
        GRec::Entry(e) => format!("L {} {} {} {} {} {} {} {} {} {} {}", e.ts, num_o(&e.origin_as), num_o(&e.peer_as), num_o(&e.hops), e.cr, e.cu,
            num_o(&e.mpr), enc_o(&e.mpra.map(afisafi_name)), num_o(&e.mpu), enc_o(&e.mpua.map(afisafi_name)), enc_o(&e.custom)),
    }
}
fn show_msg(m: &GMsg) -> String { format!("{} {} {} {}", enc(&m.name), enc(&m.topic), num_o(&m.ingress), show_rec(&m.rec)) }
fn show_upd(u: &GUpd) -> String {
    match u { GUpd::Single => "S".into(), GUpd::Bulk(n) => format!("B{n}"), GUpd::Withdraw => "W".into(), GUpd::WithdrawBulk => "WB".into(), GUpd::Query => "Q".into(), GUpd::Eos => "E".into(),
        GUpd::Out(ms) => format!("O{}", join(ms.iter().map(show_msg), ",")),
        GUpd::Info(id, i) => format!("I{}", show_info(*id, i)) }
}
fn show_upds(us: &[GUpd]) -> String { if us.is_empty() { "-".into() } else { join(us.iter().map(show_upd), ";") } }

fn parse_msg(s: &str) -> GMsg {
    let f: Vec<&str> = s.split(' ').collect();
    let rec = match f[3] {
        "R" => if f[4] == "_" { GRec::Route(None) } else {
            let fam = f[5][0..1].parse().unwrap(); let attrs = f[5][2..].parse().unwrap();
            GRec::Route(Some(GRoute { pfx: f[4].into(), fam, attrs })) },
        "P" => GRec::Peerdown(f[4].into(), f[5].parse().unwrap()),
        "C" => GRec::Custom(f[4].parse().unwrap(), f[5].parse().unwrap()),
        _ => {
            let idx = |s: &str| dec_o(s).map(|n| (0..AFISAFIS.len()).find(|i| afisafi_name(*i) == n).unwrap());
            GRec::Entry(GEntry { ts: f[4].parse().unwrap(), origin_as: pnum_o(f[5]), peer_as: pnum_o(f[6]), hops: pnum_o(f[7]), cr: f[8].parse().unwrap(), cu: f[9].parse().unwrap(),
                mpr: pnum_o(f[10]), mpra: idx(f[11]), mpu: pnum_o(f[12]), mpua: idx(f[13]), custom: dec_o(f[14]) })
        }
    };
    GMsg { name: dec(f[0]), topic: dec(f[1]), ingress: pnum_o(f[2]), rec }
}
fn parse_upds(s: &str) -> Vec<GUpd> {
    if s == "-" { return vec![]; }
    s.split(';').map(|u| match u {
        "S" => GUpd::Single, "W" => GUpd::Withdraw, "WB" => GUpd::WithdrawBulk, "Q" => GUpd::Query, "E" => GUpd::Eos,
        _ if u.starts_with('B') => GUpd::Bulk(u[1..].parse().unwrap()),
        _ if u.starts_with('I') => { let (id, i) = parse_info(&u[1..]); GUpd::Info(id, i) }
        _ => GUpd::Out(if u.len() == 1 { vec![] } else { u[1..].split(',').map(parse_msg).collect() }),
    }).collect()
}
fn show_info(id: u32, i: &GInfo) -> String { format!("{} {} {} {} {} {} {} {}", id, enc_o(&i.unit), num_o(&i.parent), i.addr.clone().unwrap_or("_".into()), num_o(&i.asn), enc_o(&i.filename), enc_o(&i.name), enc_o(&i.desc)) }
fn parse_info(s: &str) -> (u32, GInfo) {
    let f: Vec<&str> = s.split(' ').collect();
    (f[0].parse().unwrap(), GInfo { unit: dec_o(f[1]), parent: pnum_o(f[2]), addr: if f[3] == "_" { None } else { Some(f[3].into()) }, asn: pnum_o(f[4]), filename: dec_o(f[5]), name: dec_o(f[6]), desc: dec_o(f[7]) })
}

// ------------------------------------------------------- to the real types

fn real_route(g: &GRoute) -> RotondaRoute {
    let pa = RotondaPaMap(OwnedPathAttributes::new(PduParseInfo::modern(), ATTRS[g.attrs].1.to_vec()));
    match g.fam {
        0 => RotondaRoute::Ipv4Unicast(Ipv4UnicastNlri::from_str(&g.pfx).unwrap(), pa),
        1 => RotondaRoute::Ipv6Unicast(Ipv6UnicastNlri::from_str(&g.pfx).unwrap(), pa),
        2 => RotondaRoute::Ipv4Multicast(Ipv4MulticastNlri::from_str(&g.pfx).unwrap(), pa),
        _ => RotondaRoute::Ipv6Multicast(Ipv6MulticastNlri::from_str(&g.pfx).unwrap(), pa),
    }
}
fn real_entry(e: &GEntry) -> LogEntry {
    LogEntry {
        timestamp: chrono::DateTime::from_timestamp_micros(e.ts as i64).unwrap(),
        origin_as: e.origin_as.map(Asn::from_u32), peer_as: e.peer_as.map(Asn::from_u32), as_path_hops: e.hops.map(|x| x as usize),
        conventional_reach: e.cr as usize, conventional_unreach: e.cu as usize, mp_reach: e.mpr.map(|x| x as usize), mp_reach_afisafi: e.mpra.map(|i| AFISAFIS[i]),
        mp_unreach: e.mpu.map(|x| x as usize), mp_unreach_afisafi: e.mpua.map(|i| AFISAFIS[i]), custom: e.custom.clone(),
    }
}
/// The public constructors fix name/topic for every record kind except peer-down; the
/// generator respects that (name `mqtt`, the constructor's topic), so this is total.
fn real_msg(m: &GMsg) -> OutputStreamMessage {
    match &m.rec {
        GRec::Route(r) => { let r = r.as_ref().map(real_route); match m.topic.as_str() {
            "prefix" => OutputStreamMessage::prefix(r, m.ingress), "community" => OutputStreamMessage::community(r, m.ingress),
            "asn" => OutputStreamMessage::asn(r, m.ingress), _ => OutputStreamMessage::origin(r, m.ingress) } }
        GRec::Peerdown(ip, asn) => OutputStreamMessage::peer_down(m.name.clone(), m.topic.clone(), IpAddr::from_str(ip).unwrap(), Asn::from_u32(*asn), m.ingress),
        GRec::Custom(i, v) => OutputStreamMessage::custom(*i, *v, m.ingress),
        GRec::Entry(e) => OutputStreamMessage::entry(real_entry(e), m.ingress),
    }
}
fn real_upd(u: &GUpd) -> Update {
    let p = || Payload::new(real_route(&GRoute { pfx: "192.0.2.0/24".into(), fam: 0, attrs: 1 }), RouteContext::for_reprocessing(), None);
    match u {
        GUpd::Single => Update::Single(p()),
        GUpd::Bulk(n) => Update::Bulk((0..*n).map(|_| p()).collect()),
        GUpd::Withdraw => Update::Withdraw(3, Some(AfiSafiType::Ipv4Unicast)),
        GUpd::WithdrawBulk => Update::WithdrawBulk(SmallVec::from_vec(vec![1, 2, 3])),
        GUpd::Query => Update::QueryResult(uuid::Uuid::nil(), Err("no such prefix".into())),
        GUpd::Eos => Update::UpstreamStatusChange(UpstreamStatus::EndOfStream { ingress_id: 1 }),
        GUpd::Out(ms) => Update::OutputStream(ms.iter().map(real_msg).collect()),
        GUpd::Info(..) => unreachable!("register edits are applied by run_mqtt, not sent as updates"),
    }
}

// ------------------------------------------------------------- file target

struct FileObs { panicked: bool, bytes: Vec<u8> }

async fn run_file(path: &std::path::Path, fmt: &str, updates: Vec<Update>) -> FileObs {
    let _ = std::fs::remove_file(path);
    let (gate, mut agent) = Gate::new(8);
    let link = agent.create_link();
    let comp = rotonda::manager::verif_hooks_c17::component("file", "file-out", rotonda::verif::c17::new_register());
    let file = rotonda::targets::verif_hooks_c17::file::file_target(fmt, path.to_path_buf(), link).unwrap();
    let coord = Coordinator::new(1);
    let wp = coord.clone().track("file".into());
    let (cmd_tx, cmd_rx) = tokio::sync::mpsc::channel::<TargetCommand>(4);
    let h = tokio::spawn(async move { file.run(comp, cmd_rx, wp).await });
    gate.process_until(coord.wait(|_, _| {})).await.unwrap();
    for u in updates { gate.update_data(u).await; }
    // the gate goes away: the link reports `Gone` once its queue is drained, the target flushes and returns
    drop(gate); drop(agent);
    let panicked = match h.await { Ok(_) => false, Err(e) => e.is_panic() };
    drop(cmd_tx);
    FileObs { panicked, bytes: std::fs::read(path).unwrap_or_default() }
}

fn routes_of(us: &[GUpd]) -> Vec<GRoute> {
    let mut v = vec![];
    for u in us { if let GUpd::Out(ms) = u { for m in ms { if let GRec::Route(Some(r)) = &m.rec { v.push(r.clone()); } } } }
    v
}
fn route_csv(r: &GRoute) -> Option<String> {
    let mut w = csv::WriterBuilder::new().has_headers(false).from_writer(vec![]);
    w.serialize(Some(real_route(r))).ok()?;
    Some(String::from_utf8(w.into_inner().ok()?).ok()?.trim_end_matches('\n').to_string())
}
fn route_json(r: &GRoute) -> String { serde_json::to_string(&real_route(r)).unwrap() }

fn canon_file_line(line: &str, fmt: &str, routes: &[GRoute]) -> String {
    for r in routes {
        let ser = if fmt == "csv" { route_csv(r) } else { Some(route_json(r)) };
        if ser.as_deref() == Some(line) { return format!("R{}", r.pfx); }
    }
    format!("T{}", esc(line))
}

fn msgs_of(us: &[GUpd]) -> Vec<GMsg> { us.iter().flat_map(|u| if let GUpd::Out(ms) = u { ms.clone() } else { vec![] }).collect() }

// oracle helpers: independent JSON values of the records
fn entry_value(e: &GEntry, minimal: bool) -> Value {
    let mut m = serde_json::Map::new();
    let mut put = |k: &str, v: Value| { if !(minimal && v.is_null()) { m.insert(k.into(), v); } };
    put("timestamp", json!(e.ts)); put("origin_as", json!(e.origin_as)); put("peer_as", json!(e.peer_as)); put("as_path_hops", json!(e.hops));
    put("conventional_reach", json!(e.cr)); put("conventional_unreach", json!(e.cu)); put("mp_reach", json!(e.mpr)); put("mp_reach_afisafi", json!(e.mpra.map(afisafi_name)));
    put("mp_unreach", json!(e.mpu)); put("mp_unreach_afisafi", json!(e.mpua.map(afisafi_name)));
    if !minimal { m.insert("custom".into(), json!(e.custom)); }
    Value::Object(m)
}
fn is_route_value(v: &Value, r: &GRoute) -> bool { v.get("prefix") == Some(&json!(r.pfx)) && v.get("attributes").map(|a| a.is_array()).unwrap_or(false) && v.as_object().map(|o| o.len() == 2).unwrap_or(false) }
fn json_matches(v: &Value, rec: &GRec, minimal_entry: bool) -> bool {
    match rec {
        GRec::Route(None) => v.is_null(),
        GRec::Route(Some(r)) => is_route_value(v, r),
        GRec::Peerdown(ip, asn) => *v == json!([ip, asn]),
        GRec::Custom(i, val) => *v == json!({"id": i, "value": val}),
        GRec::Entry(e) => *v == entry_value(e, minimal_entry),
    }
}
fn csv_fields(line: &str) -> Option<Vec<String>> {
    let mut rd = csv::ReaderBuilder::new().has_headers(false).flexible(true).from_reader(line.as_bytes());
    let mut it = rd.records();
    let r = it.next()?.ok()?;
    if it.next().is_some() { return None; }
    Some(r.iter().map(|s| s.to_string()).collect())
}
fn csv_matches(line: &str, rec: &GRec) -> bool {
    let Some(f) = csv_fields(line) else { return false };
    let o = |x: Option<String>| x.unwrap_or_default();
    match rec {
        GRec::Route(None) => f == vec![String::new()],
        GRec::Route(Some(r)) => f.first() == Some(&r.pfx),
        GRec::Peerdown(ip, asn) => f == vec![ip.clone(), asn.to_string()],
        GRec::Custom(i, v) => f == vec![i.to_string(), v.to_string()],
        GRec::Entry(e) => f == vec![e.ts.to_string(), o(e.origin_as.map(|x| x.to_string())), o(e.peer_as.map(|x| x.to_string())), o(e.hops.map(|x| x.to_string())), e.cr.to_string(), e.cu.to_string(),
            o(e.mpr.map(|x| x.to_string())), o(e.mpra.map(afisafi_name)), o(e.mpu.map(|x| x.to_string())), o(e.mpua.map(afisafi_name)), o(e.custom.clone())],
    }
}
fn line_matches(line: &str, fmt: &str, rec: &GRec) -> bool {
    if line.contains('\r') && fmt != "csv" { /* still one line for `lines()`-style readers? no: be strict */ }
    match fmt {
        "csv" => csv_matches(line, rec),
        _ => serde_json::from_str::<Value>(line).map(|v| json_matches(&v, rec, fmt == "json-min")).unwrap_or(false),
    }
}
fn unesc_nl(s: &str) -> Option<String> {
    let mut o = String::new(); let mut it = s.chars();
    while let Some(c) = it.next() { if c == '\\' { match it.next()? { 'n' => o.push('\n'), 'r' => o.push('\r'), '\\' => o.push('\\'), _ => return None } } else { o.push(c) } }
    Some(o)
}

/// The reader of custom-text lines: 0 = not decided yet (either reading is accepted: only the two witness cases
/// that decide it are judged this way), 1 = verbatim (the tree writes custom text as it is), 2 = escaped (the tree
/// writes `\\`, `\n`, `\r` for backslash, LF, CR: a line parses back through `unesc_nl`, and a line that does not
/// unescape to the emitted text does not parse back to the emitted record).
static CUSTOM_READER: std::sync::atomic::AtomicU8 = std::sync::atomic::AtomicU8::new(0);

/// The property on the observed file. Returns (oracle line, defect classes seen).
fn file_oracle(fmt: &str, us: &[GUpd], obs: &FileObs) -> String {
    let msgs = msgs_of(us);
    if obs.panicked {
        let culprit = msgs.iter().any(|m| matches!(&m.rec, GRec::Route(Some(r)) if ATTRS[r.attrs].0 != 'p'));
        return if fmt == "csv" && culprit { "fail file-out:csv-serialize-unwrap-panics-target a route whose attributes the csv writer cannot serialise (extended community / invalid attribute) killed the target task; buffered lines lost".into() }
               else { "fail file-out:target-panicked the file-out target task panicked".into() };
    }
    let Ok(text) = String::from_utf8(obs.bytes.clone()) else { return "fail file-out:not-utf8 output is not valid UTF-8".into() };
    if !text.is_empty() && !text.ends_with('\n') { return "fail file-out:unterminated-last-line output does not end with a newline".into(); }
    let lines: Vec<&str> = if text.is_empty() { vec![] } else { text[..text.len() - 1].split('\n').collect() };
    let (mut idx, mut dropped, mut split, mut skipped) = (0usize, 0usize, 0usize, 0usize);
    for (k, m) in msgs.iter().enumerate() {
        match &m.rec {
            GRec::Entry(e) if e.custom.is_some() => {
                let s = e.custom.as_ref().unwrap();
                let cur = lines.get(idx).copied();
                let reader = CUSTOM_READER.load(std::sync::atomic::Ordering::SeqCst);
                let verbatim = cur == Some(s.as_str());
                let escaped = cur.is_some() && !cur.unwrap().contains('\n') && unesc_nl(cur.unwrap()).as_deref() == Some(s.as_str());
                if match reader { 1 => verbatim, 2 => escaped, _ => verbatim || (escaped && s.contains(|c| c == '\n' || c == '\r' || c == '\\')) } { idx += 1; }
                else if reader == 2 && cur.is_some() && (verbatim || unesc_nl(cur.unwrap()).is_none() || unesc_nl(cur.unwrap()).as_deref() != Some(s.as_str())) && !s.contains('\n') {
                    return format!("fail file-out:custom-text-does-not-parse-back message {k}: line {idx} does not unescape to the emitted custom text");
                }
                else if s.contains('\n') {
                    let segs: Vec<&str> = s.split('\n').collect();
                    if lines.len() >= idx + segs.len() && lines[idx..idx + segs.len()] == segs[..] { idx += segs.len(); split += 1; }
                    else { return format!("fail file-out:lines-mismatch message {k} (custom text) not found at line {idx}"); }
                } else { return format!("fail file-out:lines-mismatch message {k} (custom text) not found at line {idx}"); }
            }
            GRec::Entry(_) => {
                if idx < lines.len() && line_matches(lines[idx], fmt, &m.rec) { idx += 1; } else { dropped += 1; }
            }
            // a record the csv writer cannot represent at all (judged with the csv crate itself, not with the
            // generator's label): no line can be its serialisation, so none is consumed
            GRec::Route(Some(r)) if fmt == "csv" && route_csv(r).is_none() => { skipped += 1; }
            rec => {
                if idx < lines.len() && line_matches(lines[idx], fmt, rec) { idx += 1; }
                else { return format!("fail file-out:lines-mismatch message {k} does not parse back from line {idx}"); }
            }
        }
    }
    if idx != lines.len() { return format!("fail file-out:lines-mismatch {} extra line(s) after the last message", lines.len() - idx); }
    if dropped > 0 { return format!("fail file-out:entry-without-custom-not-written {dropped} log entr(y/ies) without custom text produced no line"); }
    if split > 0 { return format!("fail file-out:custom-text-newline-splits-line {split} custom text(s) containing LF occupy more than one line"); }
    if skipped > 0 { return format!("fail file-out:csv-unserialisable-route-not-written {skipped} route(s) the csv writer cannot serialise produced no line"); }
    "ok".into()
}

// ------------------------------------------------------------------- mqtt

fn real_info(i: &GInfo) -> IngressInfo {
    let mut r = IngressInfo::new();
    r.unit_name = i.unit.clone(); r.parent_ingress = i.parent; r.remote_addr = i.addr.as_ref().map(|a| IpAddr::from_str(a).unwrap());
    r.remote_asn = i.asn.map(Asn::from_u32); r.filename = i.filename.as_ref().map(|f| f.into()); r.name = i.name.clone(); r.desc = i.desc.clone();
    r
}
fn info_value(i: &GInfo) -> Value {
    let mut m = serde_json::Map::new();
    let mut put = |k: &str, v: Value| { if !v.is_null() { m.insert(k.into(), v); } };
    put("unit_name", json!(i.unit)); put("parent_ingress", json!(i.parent)); put("remote_addr", json!(i.addr)); put("remote_asn", json!(i.asn));
    put("filename", json!(i.filename)); put("name", json!(i.name)); put("desc", json!(i.desc));
    Value::Object(m)
}

fn run_mqtt(rt: &tokio::runtime::Runtime, comp: &str, tmpl: &str, reg: &[(u32, GInfo)], us: &[GUpd]) -> Result<Vec<Vec<(String, String)>>, ()> {
    let register = rotonda::verif::c17::new_register();
    for (id, info) in reg {
        // ids are handed out serially from 1; the case lists them in that order
        let got = rotonda::verif::c17::register(&register);
        assert_eq!(got, *id);
        rotonda::verif::c17::update_info(&register, got, real_info(info));
    }
    let component = rotonda::manager::verif_hooks_c17::component(comp, "mqtt-out", register.clone());
    enum Step { U(Update), I(u32, IngressInfo) }
    let steps: Vec<Step> = us.iter().map(|u| match u { GUpd::Info(id, i) => Step::I(*id, real_info(i)), u => Step::U(real_upd(u)) }).collect();
    let tmpl = tmpl.to_string();
    std::panic::catch_unwind(std::panic::AssertUnwindSafe(|| {
        let mut probe = rotonda::targets::verif_hooks_c17::mqtt::MqttProbe::new(component, Some(tmpl));
        steps.into_iter().map(|s| match s {
            Step::U(u) => rt.block_on(probe.feed(u)),
            // the source's metadata changes while the target is running (a session learns its peer's AS, a file name, ...)
            Step::I(id, info) => { rotonda::verif::c17::update_info(&register, id, info); vec![] }
        }).collect()
    })).map_err(|_| ())
}

fn canon_payload(content: &str, routes: &[GRoute]) -> String {
    for r in routes {
        let rj = route_json(r);
        let tail = format!("{rj}]");
        if content.ends_with(&tail) { return format!("W{} {} {}", esc(&content[..content.len() - tail.len()]), r.pfx, esc("]")); }
    }
    format!("T{}", esc(content))
}

fn mqtt_oracle(comp: &str, tmpl: &str, reg: &[(u32, GInfo)], us: &[GUpd], got: &Result<Vec<Vec<(String, String)>>, ()>) -> String {
    let Ok(got) = got else { return "fail mqtt-out:panicked direct_update panicked".into() };
    // the register as the property reads it: the metadata of a source is what the last update_info calls left
    // (a field that a call does not supply keeps its value), at the moment the message is published
    let mut reg: HashMap<u32, GInfo> = reg.iter().map(|(i, g)| (*i, g.clone())).collect();
    for (k, (u, g)) in us.iter().zip(got).enumerate() {
        if let GUpd::Info(id, n) = u {
            let e = reg.entry(*id).or_default();
            macro_rules! upd { ($f:ident) => { if n.$f.is_some() { e.$f = n.$f.clone(); } } }
            upd!(unit); upd!(parent); upd!(addr); upd!(asn); upd!(filename); upd!(name); upd!(desc);
        }
        let want: Vec<&GMsg> = if let GUpd::Out(ms) = u { ms.iter().filter(|m| m.name == comp).collect() } else { vec![] };
        if want.len() != g.len() { return format!("fail mqtt-out:selection update {k}: {} message(s) addressed to the component, {} published", want.len(), g.len()); }
        for (m, (topic, content)) in want.iter().zip(g) {
            // independent `{id}` substitution: split on the placeholder and join with the topic
            let exp_topic = tmpl.split("{id}").collect::<Vec<_>>().join(&m.topic);
            if *topic != exp_topic { return format!("fail mqtt-out:topic update {k}: topic differs from the filled template"); }
            let Ok(v) = serde_json::from_str::<Value>(content) else { return format!("fail mqtt-out:payload-not-json update {k}") };
            let info = m.ingress.and_then(|id| reg.get(&id)).map(|i| info_value(i)).unwrap_or(Value::Null);
            let ok = v.as_array().map(|a| a.len() == 2 && a[0] == info && json_matches(&a[1], &m.rec, false)).unwrap_or(false);
            if !ok {
                let stale = v.as_array().map(|a| a.len() == 2 && a[0] != info && json_matches(&a[1], &m.rec, false)).unwrap_or(false);
                if stale { return format!("fail mqtt-out:ingress-metadata update {k}: the attached ingress info is not what the register holds for the source when the message is published"); }
                return format!("fail mqtt-out:payload update {k}: payload is not [ingress info, record]");
            }
            if content.contains('\n') { return format!("fail mqtt-out:payload-newline update {k}"); }
        }
    }
    "ok".into()
}

// -------------------------------------------------------------- generator

struct Gen { rng: Rng }
impl Gen {
    fn string(&mut self, nasty: bool) -> String {
        const NICE: &[&str] = &["a", "b", "Z", "0", "7", " ", "-", "_", "/", ".", ":", "é", "€", "😀", "{", "}", "{id}", ",", "|", "#", "@", "'", "=", ";"];
        const NASTY: &[&str] = &["\"", "\\", "\n", "\r", "\t", "\u{0}", "\u{1}", "\u{8}", "\u{c}", "\u{1f}", "\u{7f}", "\\n", "\\u0041", "\u{2028}", "\r\n"];
        let n = self.rng.below(7);
        let mut s = String::new();
        for _ in 0..n { if nasty && self.rng.chance(2, 5) { s.push_str(*self.rng.pick::<&str>(NASTY)) } else { s.push_str(*self.rng.pick::<&str>(NICE)) } }
        s
    }
    /// custom text: `lf` allows LF inside
    fn custom(&mut self, lf: bool) -> String {
        // one text in sixteen is long: lengths around the sizes at which a writer may buffer, chunk or take
        // another path (4 KiB pages, the 8 KiB BufWriter capacity, 16 KiB, 64 KiB)
        if self.rng.chance(1, 24) {
            let n = *self.rng.pick(&[4095usize, 4096, 4097, 8191, 8192, 8193, 16384, 20000]);
            let mut s = loop { let s = self.string(true); if lf || !s.contains('\n') { break s; } };
            let pad = *self.rng.pick(&["x", "y", "é", "\\"]);
            while s.len() < n { s.push_str(pad); }
            return s;
        }
        loop { let s = self.string(true); if lf || !s.contains('\n') { return s; } }
    }
    fn num32(&mut self) -> u32 { match self.rng.below(5) { 0 => 0, 1 => u32::MAX, 2 => 65000 + self.rng.below(100) as u32, 3 => self.rng.below(10) as u32, _ => self.rng.next() as u32 } }
    fn num64(&mut self) -> u64 { match self.rng.below(5) { 0 => 0, 1 => u64::MAX, 2 => self.rng.below(1000), 3 => 10u64.pow(self.rng.below(19) as u32), _ => self.rng.next() } }
    fn opt<T>(&mut self, f: impl FnOnce(&mut Self) -> T) -> Option<T> { if self.rng.chance(1, 2) { Some(f(self)) } else { None } }
    fn ip(&mut self) -> String { self.rng.pick(&["10.0.0.1", "192.0.2.255", "0.0.0.0", "2001:db8::1", "::", "fe80::1:2:3:4", "::ffff:10.0.0.1"]).to_string() }
    fn route(&mut self, classes: &str) -> GRoute {
        let fam = self.rng.below(4) as u8;
        let pfx = if fam % 2 == 0 { *self.rng.pick(&["1.2.3.0/24", "0.0.0.0/0", "10.0.0.0/8", "203.0.113.7/32"]) } else { *self.rng.pick(&["2001:db8::/32", "::/0", "2001:db8:1::1/128"]) };
        let cand: Vec<usize> = (0..ATTRS.len()).filter(|i| classes.contains(ATTRS[*i].0)).collect();
        GRoute { pfx: pfx.into(), fam, attrs: *self.rng.pick(&cand) }
    }
    fn entry(&mut self, custom: Option<String>) -> GEntry {
        GEntry { ts: match self.rng.below(3) { 0 => 0, 1 => 1_700_000_000_000_000 + self.rng.below(1_000_000_000), _ => self.rng.below(4_000_000_000_000_000) },
            origin_as: self.opt(|g| g.num32()), peer_as: self.opt(|g| g.num32()), hops: self.opt(|g| g.num64()), cr: self.num64(), cu: self.num64(),
            mpr: self.opt(|g| g.num64()), mpra: self.opt(|g| g.rng.below(AFISAFIS.len() as u64) as usize), mpu: self.opt(|g| g.num64()), mpua: self.opt(|g| g.rng.below(AFISAFIS.len() as u64) as usize), custom }
    }
    /// `flavour`: which defect classes may appear: d = entries without custom text, n = LF in custom text, x/i = csv-unserialisable routes
    fn msg(&mut self, flavour: &str, nreg: u32) -> GMsg {
        let ingress = match self.rng.below(4) { 0 => None, 1 => Some(nreg + 1 + self.rng.below(3) as u32), _ => if nreg > 0 { Some(1 + self.rng.below(nreg as u64) as u32) } else { None } };
        let mut classes = String::from("p"); if flavour.contains('x') { classes.push('x'); } if flavour.contains('i') { classes.push('i'); }
        let (name, topic, rec) = match self.rng.below(10) {
            0..=2 => ("mqtt".to_string(), self.rng.pick(&["prefix", "community", "asn", "origin"]).to_string(), GRec::Route(if self.rng.chance(1, 6) { None } else { Some(self.route(&classes)) })),
            3..=4 => (self.rng.pick(&["mqtt", "mqtt", "mqtt2", "MQTT", "", "other"]).to_string(), if self.rng.chance(1, 2) { self.string(true) } else { "peer/down".into() }, GRec::Peerdown(self.ip(), self.num32())),
            5..=6 => ("mqtt".into(), "custom".into(), GRec::Custom(self.num32(), self.num32())),
            _ => { let custom = if flavour.contains('d') && self.rng.chance(1, 2) { None } else { Some(self.custom(flavour.contains('n'))) };
                   ("mqtt".into(), "log_entry".into(), GRec::Entry(self.entry(custom))) }
        };
        GMsg { name, topic, ingress, rec }
    }
    fn upds(&mut self, flavour: &str, nreg: u32) -> Vec<GUpd> {
        let n = self.rng.range(1, 8);
        (0..n).map(|_| match self.rng.below(12) {
            0 => GUpd::Single, 1 => GUpd::Bulk(self.rng.range(0, 3)), 2 => GUpd::Withdraw, 3 => GUpd::WithdrawBulk, 4 => GUpd::Query, 5 => GUpd::Eos,
            _ => { let k = self.rng.below(4); GUpd::Out((0..k).map(|_| self.msg(flavour, nreg)).collect()) }
        }).collect()
    }
    fn info(&mut self) -> GInfo {
        GInfo { unit: self.opt(|g| g.rng.pick(&["bmp-in", "bgp-in", "mrt-in"]).to_string()), parent: self.opt(|g| g.rng.below(5) as u32), addr: self.opt(|g| g.ip()), asn: self.opt(|g| g.num32()),
            filename: self.opt(|g| format!("/tmp/{}", g.string(false).replace('\u{0}', ""))), name: self.opt(|g| g.string(true)), desc: self.opt(|g| g.string(true)) }
    }
}

// ------------------------------------------------------------------ cases

struct Ctx { rt: tokio::runtime::Runtime, path: std::path::PathBuf }

fn file_case(ctx: &Ctx, rec: &mut Recorder, fmt: &str, us: &[GUpd]) -> FileObs {
    let obs = ctx.rt.block_on(run_file(&ctx.path, fmt, us.iter().map(real_upd).collect()));
    let routes = routes_of(us);
    let imp = if obs.panicked { "panic".to_string() } else {
        match String::from_utf8(obs.bytes.clone()) {
            Err(_) => "not-utf8".into(),
            Ok(t) if t.is_empty() => "ok -".into(),
            Ok(t) => { let (body, term) = if t.ends_with('\n') { (&t[..t.len() - 1], "") } else { (&t[..], "|!unterminated") };
                format!("ok {}{}", join(body.split('\n').map(|l| canon_file_line(l, fmt, &routes)), "|"), term) }
        }
    };
    let oracle = file_oracle(fmt, us, &obs);
    let msgs = msgs_of(us);
    rec.bump(&format!("file.{fmt}"));
    for m in &msgs { rec.bump(match &m.rec { GRec::Route(None) => "rec.route-none", GRec::Route(_) => "rec.route", GRec::Peerdown(..) => "rec.peerdown", GRec::Custom(..) => "rec.custom",
        GRec::Entry(e) if e.custom.is_none() => "rec.entry-plain", GRec::Entry(e) if e.custom.as_ref().unwrap().contains('\n') => "rec.entry-custom-lf", GRec::Entry(_) => "rec.entry-custom" }); }
    for u in us { if !matches!(u, GUpd::Out(_)) { rec.bump("upd.route-traffic"); } }
    if oracle != "ok" { rec.bump(&format!("oracle.{}", oracle.split(' ').nth(1).unwrap())); }
    let kinds: std::collections::HashSet<_> = msgs.iter().map(|m| std::mem::discriminant(&m.rec)).collect();
    rec.case(format!("file|{fmt}|{}", show_upds(us)), imp, oracle, msgs.len() >= 2 && kinds.len() >= 2);
    obs
}

fn mqtt_case(ctx: &Ctx, rec: &mut Recorder, comp: &str, tmpl: &str, reg: &[(u32, GInfo)], us: &[GUpd]) {
    let got = run_mqtt(&ctx.rt, comp, tmpl, reg, us);
    let routes = routes_of(us);
    let imp = match &got {
        Err(()) => "panic".to_string(),
        Ok(g) => { let all: Vec<&(String, String)> = g.iter().flatten().collect();
            if all.is_empty() { "ok -".into() } else { format!("ok {}", join(all.iter().map(|(t, c)| format!("{} {}", esc(t), canon_payload(c, &routes))), "|")) } }
    };
    let oracle = mqtt_oracle(comp, tmpl, reg, us, &got);
    let msgs = msgs_of(us);
    let sel = msgs.iter().filter(|m| m.name == comp).count();
    rec.bump("mqtt.cases"); rec.bump_by("mqtt.msgs", msgs.len() as u64); rec.bump_by("mqtt.selected", sel as u64);
    if oracle != "ok" { rec.bump(&format!("oracle.{}", oracle.split(' ').nth(1).unwrap())); }
    let regs = if reg.is_empty() { "-".to_string() } else { join(reg.iter().map(|(i, g)| show_info(*i, g)), ";") };
    rec.case(format!("mqtt|{}|{}|{}|{}", enc(comp), enc(tmpl), regs, show_upds(us)), imp, oracle, sel >= 1 && sel < msgs.len());
}

fn replay_line(ctx: &Ctx, rec: &mut Recorder, line: &str) {
    let p: Vec<&str> = line.split('|').collect();
    match p[0] {
        "file" => { file_case(ctx, rec, p[1], &parse_upds(p[2])); }
        "mqtt" => { let reg: Vec<(u32, GInfo)> = if p[3] == "-" { vec![] } else { p[3].split(';').map(parse_info).collect() };
            mqtt_case(ctx, rec, &dec(p[1]), &dec(p[2]), &reg, &parse_upds(p[4])); }
        _ => {}
    }
}

fn main() {
    let args = parse_args();
    let t0 = Instant::now();
    std::panic::set_hook(Box::new(|_| {}));
    let dir = std::env::temp_dir().join(format!("verif-{}", std::process::id()));
    std::fs::create_dir_all(&dir).unwrap();
    let ctx = Ctx { rt: tokio::runtime::Builder::new_multi_thread().worker_threads(2).enable_all().build().unwrap(), path: dir.join("c17-out.txt") };
    let mut rec = Recorder::new("file: 1-8 Updates (route traffic interleaved with OutputStream batches of 0-3 messages: routes with 9 attribute blobs, peer-down, custom pairs, log entries with every optional field set/unset, custom text over an alphabet with quotes, backslashes, control characters, LF/CR, non-ASCII) through the real File::run via a real Gate/Link, per format; mqtt: the same sequences through the real MqttRunner::direct_update with 4 component names x 8 topic templates x 0-3 registered ingresses; non-trivial = file case with >= 2 messages of >= 2 record kinds / mqtt case where some but not all messages are addressed to the component; distinct = distinct case lines");

    if let Some(path) = &args.replay {
        // the reader of custom-text lines is decided by the witness, also when only replaying
        let mut tmp = Recorder::new("");
        let lf = GMsg { name: "mqtt".into(), topic: "log_entry".into(), ingress: None, rec: GRec::Entry(GEntry { custom: Some("a\nb".into()), ..Default::default() }) };
        let w = file_case(&ctx, &mut tmp, "json", &[GUpd::Out(vec![lf])]);
        CUSTOM_READER.store(if w.bytes == b"a\nb\n" { 1 } else { 2 }, std::sync::atomic::Ordering::SeqCst);
        for line in verif_harness::replay_cases(path) { replay_line(&ctx, &mut rec, &line); }
        rec.finish(&args, t0.elapsed().as_secs_f64());
        let _ = std::fs::remove_dir_all(&dir);
        return;
    }

    // 0. witnesses of the counterexample theorems: they decide which variant this tree is.
    let plain = GMsg { name: "mqtt".into(), topic: "log_entry".into(), ingress: None, rec: GRec::Entry(GEntry { cr: 1, ..Default::default() }) };
    let w = file_case(&ctx, &mut rec, "json", &[GUpd::Out(vec![plain.clone()])]);
    rec.variant("entry", if !w.panicked && w.bytes.is_empty() { "as-written" } else { "repaired" });
    let lf = GMsg { name: "mqtt".into(), topic: "log_entry".into(), ingress: None, rec: GRec::Entry(GEntry { custom: Some("a\nb".into()), ..Default::default() }) };
    let w = file_case(&ctx, &mut rec, "json", &[GUpd::Out(vec![lf.clone()])]);
    rec.variant("nl", if w.bytes == b"a\nb\n" { "as-written" } else { "repaired" });
    CUSTOM_READER.store(if w.bytes == b"a\nb\n" { 1 } else { 2 }, std::sync::atomic::Ordering::SeqCst);
    let xr = GMsg { name: "mqtt".into(), topic: "prefix".into(), ingress: None, rec: GRec::Route(Some(GRoute { pfx: "1.2.3.0/24".into(), fam: 0, attrs: 5 })) };
    let w = file_case(&ctx, &mut rec, "csv", &[GUpd::Out(vec![xr.clone()])]);
    rec.variant("csv", if w.panicked { "as-written" } else { "repaired" });
    for fmt in ["csv", "json-min"] { file_case(&ctx, &mut rec, fmt, &[GUpd::Out(vec![plain.clone(), lf.clone()])]); }

    let mut g = Gen { rng: Rng::new(args.seed) };
    let nfile = if args.thorough { 150000 } else { 12000 };
    for k in 0..nfile {
        let fmt = ["csv", "json", "json-min"][k % 3];
        // half of the cases are free of every known defect class, so exactly-once/in-order is judged strictly there
        let flavour = match (k / 3) % 8 { 0..=3 => "", 4 => "d", 5 => "n", 6 => if fmt == "csv" { "x" } else { "xi" }, _ => "dnxi" };
        let us = g.upds(flavour, 0);
        file_case(&ctx, &mut rec, fmt, &us);
    }
    let nmqtt = if args.thorough { 150000 } else { 15000 };
    for _ in 0..nmqtt {
        let comp = g.rng.pick(&["mqtt", "mqtt", "mqtt", "mqtt2", "other", ""]).to_string();
        let tmpl = match g.rng.below(9) { 0 => "rotonda/{id}".to_string(), 1 => "{id}".into(), 2 => "a/{id}/b/{id}".into(), 3 => "no-placeholder".into(), 4 => "{id".into(), 5 => "{{id}}".into(), 6 => "{id}{id}".into(), 7 => "{i{id}d}".into(), _ => g.string(true) };
        let nreg = g.rng.below(4) as u32;
        let reg: Vec<(u32, GInfo)> = (1..=nreg).map(|i| (i, g.info())).collect();
        let mut us = g.upds("dnxi", nreg);
        // metadata of a source changing while the target runs: 0-2 register edits between the updates
        if g.rng.chance(1, 2) { for _ in 0..g.rng.range(1, 2) {
            let id = 1 + g.rng.below(nreg as u64 + 1) as u32;
            let at = g.rng.below(us.len() as u64 + 1) as usize;
            let i = g.info();
            us.insert(at, GUpd::Info(id, i));
            rec.bump("mqtt.register-edit");
        } }
        mqtt_case(&ctx, &mut rec, &comp, &tmpl, &reg, &us);
    }
    rec.finish(&args, t0.elapsed().as_secs_f64());
    let _ = std::fs::remove_dir_all(&dir);
}
