//! C13, executed part: a really spawned pipeline (`Manager::load` -> `prepare` -> `spawn`, i.e.
//! the real `Unit::run` tasks on a multi-threaded tokio runtime), real BMP-over-TCP sessions into
//! the `bmp-tcp-in` units, (re)loads of edited configurations, and the RIB content / the answering
//! HTTP endpoints / the router sessions / the listening sockets observed from outside through the
//! real `Server::handle_request`, plain TCP and /proc/net/tcp.
//!
//! One case = one pipeline + a list of events (router connects, announcements, withdrawals,
//! (re)loads), observed after every event:
//!   `<res> U=<running units> rib=<path>:<limit>:<records> b0=<sessions> b1=<sessions> P=<listening ports> S=<open sessions>`
//! Three streams: *sequential* (every event settles before the next), *racing* (announcements are
//! written by another thread while the reload runs; which of them were dropped is observed and
//! becomes part of the case line, like the HashMap-order-dependent leftovers of the loader),
//! *forced window* (a pause point holds the upstream gate right after it installed the empty
//! subscriber set of the new gate, one announcement is sent, the gate is released).
//!
//! Included by `src/bin/c13.rs` via `#[path]` (it is not part of the library).
use std::collections::{BTreeMap, BTreeSet};
use std::io::{Read, Write};
use std::net::{SocketAddr, TcpListener, TcpStream};
use std::panic::{catch_unwind, AssertUnwindSafe};
use std::sync::atomic::{AtomicBool, AtomicUsize, Ordering};
use std::sync::Arc;
use std::time::{Duration, Instant};

use bytes::Bytes;
use hyper::{Body, Request};
use rotonda::bgp::encode::{mk_initiation_msg, mk_raw_route_monitoring_msg};
use rotonda::verif::http as vh;
use rotonda::verif::manager as vm;
use verif_harness::rib::{encode_update, BmpPeer, BmpRouter, Nlri, Pfx, Safi, Upd};
use verif_harness::{join, rng::Rng, Recorder};

// ------------------------------------------------------------------ abstract documents

#[derive(Clone, Debug, PartialEq)]
pub struct BmpCfg { pub port: u8 }
/// The settings of the `rib` unit that can be observed from outside.
#[derive(Clone, Debug, PartialEq)]
pub struct RibCfg { pub sources: Vec<u8>, pub v4: u8, pub path: u8,
    /// length of the `filter_names` array (0 = key absent); >= 2 is the shorthand that generates `rib-vRIB-<k>` units
    pub filters: u8,
    /// a hand-written virtual RIB `vr` (`rib_type = "Virtual"`, `sources = ["rib"]`, `vrib_upstream = "rib"`,
    /// `http_api_path = "/vr/"`) consumed by a null-out target `t8`
    pub vr: bool }
impl RibCfg { pub fn plain(sources: Vec<u8>, v4: u8, path: u8) -> RibCfg { RibCfg { sources, v4, path, filters: 0, vr: false } } }
#[derive(Clone, Debug, PartialEq)]
pub struct LDoc {
    /// `b0`, `b1`
    pub bmp: [Option<BmpCfg>; 2],
    pub rib: Option<RibCfg>,
    /// null-out targets: name id -> sources (0/1 = b0/b1, 2 = rib, 7 = a unit that does not exist)
    pub nulls: Vec<(u8, Vec<u8>)>,
    /// 0 = fine, 1 = not TOML, 2 = an extra target with an unknown type
    pub broken: u8,
}

pub const PATHS: [&str; 2] = ["/prefixes/", "/rib2/"];

pub const VR: u32 = 3;
pub const VR_PATH: &str = "/vr/";
/// id of the generated virtual RIB `rib-vRIB-<k>` (as in `Model/Mgr.lean`: 100 + 10 * name + k)
pub fn vrib_id(k: u8) -> u32 { 120 + k as u32 }
fn unit_name(i: u8) -> String { match i { 0 => "b0".into(), 1 => "b1".into(), 2 => "rib".into(), 3 => "vr".into(), n => format!("u{n}") } }
fn unit_id(s: &str) -> u32 { match s { "b0" => 0, "b1" => 1, "rib" => 2, "vr" => VR, x => if let Some(k) = x.strip_prefix("rib-vRIB-") { k.parse::<u32>().map(|k| 120 + k).unwrap_or(99) } else { x.get(1..).and_then(|y| y.parse().ok()).unwrap_or(99) } } }

impl LDoc {
    pub fn show(&self) -> String {
        let b = |x: &Option<BmpCfg>| x.as_ref().map(|c| c.port.to_string()).unwrap_or("-".into());
        let r = self.rib.as_ref().map(|r| format!("{}.{}.{}.{}.{}", join(r.sources.iter(), "+"), r.v4, r.path, r.filters, r.vr as u8)).unwrap_or("-".into());
        format!("{},{},{},{},{}", b(&self.bmp[0]), b(&self.bmp[1]), r, join(self.nulls.iter().map(|(n, s)| format!("{}:{}", n, join(s.iter(), "+"))), ";"), self.broken)
    }
    pub fn parse(s: &str) -> Option<LDoc> {
        let f: Vec<&str> = s.split(',').collect();
        if f.len() != 5 { return None; }
        let b = |x: &str| if x == "-" { Some(None) } else { x.parse().ok().map(|p| Some(BmpCfg { port: p })) };
        let nums = |x: &str| -> Option<Vec<u8>> { if x.is_empty() { Some(vec![]) } else { x.split('+').map(|y| y.parse().ok()).collect() } };
        let rib = if f[2] == "-" { None } else {
            let g: Vec<&str> = f[2].split('.').collect();
            if g.len() != 3 && g.len() != 5 { return None; }
            let (filters, vr) = if g.len() == 5 { (g[3].parse().ok()?, g[4] == "1") } else { (0, false) };
            Some(RibCfg { sources: nums(g[0])?, v4: g[1].parse().ok()?, path: g[2].parse().ok()?, filters, vr })
        };
        let mut nulls = vec![];
        if !f[3].is_empty() { for t in f[3].split(';') { let (n, s) = t.split_once(':')?; nulls.push((n.parse().ok()?, nums(s)?)); } }
        Some(LDoc { bmp: [b(f[0])?, b(f[1])?], rib, nulls, broken: f[4].parse().ok()? })
    }
    pub fn render(&self, ports: &[u16]) -> String {
        let mut s = String::from("http_listen = [\"127.0.0.1:0\"]\n");
        for (i, b) in self.bmp.iter().enumerate() {
            if let Some(c) = b { s.push_str(&format!("\n[units.b{}]\ntype = \"bmp-tcp-in\"\nlisten = \"127.0.0.1:{}\"\nhttp_api_path = \"/routers{}/\"\n", i, ports[c.port as usize], i)); }
        }
        if let Some(r) = &self.rib {
            s.push_str(&format!("\n[units.rib]\ntype = \"rib\"\nsources = [{}]\nhttp_api_path = \"{}\"\n", join(r.sources.iter().map(|x| format!("\"{}\"", unit_name(*x))), ", "), PATHS[r.path as usize]));
            if r.filters > 0 { s.push_str(&format!("filter_names = [{}]\n", join((0..r.filters).map(|k| format!("\"f{k}\"")), ", "))); }
            s.push_str(&format!("\n[units.rib.query_limits.more_specifics]\nshortest_prefix_ipv4 = {}\nshortest_prefix_ipv6 = 19\n", r.v4));
            if r.vr { s.push_str(&format!("\n[units.vr]\ntype = \"rib\"\nrib_type = \"Virtual\"\nsources = [\"rib\"]\nvrib_upstream = \"rib\"\nhttp_api_path = \"{VR_PATH}\"\n")); }
        }
        if self.bmp.iter().all(|b| b.is_none()) && self.rib.is_none() { s.push_str("\n[units]\n"); }
        for (n, srcs) in &self.nulls {
            s.push_str(&format!("\n[targets.t{}]\ntype = \"null-out\"\nsources = [{}]\n", n, join(srcs.iter().map(|x| format!("\"{}\"", unit_name(*x))), ", ")));
        }
        if self.rib.as_ref().map(|r| r.vr).unwrap_or(false) { s.push_str("\n[targets.t8]\ntype = \"null-out\"\nsources = [\"vr\"]\n"); }
        else if self.nulls.is_empty() && self.broken != 2 { s.push_str("\n[targets]\n"); }
        match self.broken { 1 => s.push_str("\n[[[ not toml\n"), 2 => s.push_str("\n[targets.t9]\ntype = \"no-such-type\"\nsources = [\"b0\"]\n"), _ => {} }
        s
    }
    /// the generated virtual RIBs `rib-vRIB-<k>` of the file
    pub fn vribs(&self) -> Vec<u8> { match &self.rib { Some(r) if r.filters >= 2 => (0..r.filters - 1).collect(), _ => vec![] } }
    /// what a consumer that names `rib` is wired to: the rib itself, or its last generated virtual RIB
    pub fn rib_out(&self) -> u32 { self.vribs().last().map(|k| vrib_id(*k)).unwrap_or(2) }
    /// the units of the file after the shorthand expansion, each with the units its links name
    pub fn units(&self) -> Vec<(u32, Vec<u32>)> {
        let mut us = vec![];
        for i in 0..2 { if self.bmp[i].is_some() { us.push((i as u32, vec![])); } }
        if let Some(r) = &self.rib {
            us.push((2, r.sources.iter().map(|x| *x as u32).collect()));
            for k in self.vribs() { us.push((vrib_id(k), vec![if k == 0 { 2 } else { vrib_id(k - 1) }, 2])); }
            if r.vr { us.push((VR, vec![self.rib_out(), 2])); }
        }
        us
    }
    /// referenced units (what must run after a successful load), `None` if a link is unresolved
    pub fn referenced(&self) -> Option<BTreeSet<u32>> {
        let us = self.units();
        let mut refs: BTreeSet<u32> = BTreeSet::new();
        for (_, s) in &self.nulls { refs.extend(s.iter().map(|x| if *x == 2 { self.rib_out() } else { *x as u32 })); }
        if self.rib.as_ref().map(|r| r.vr).unwrap_or(false) { refs.insert(VR); }
        for (_, l) in &us { refs.extend(l.iter().cloned()); }
        if refs.iter().all(|r| us.iter().any(|(u, _)| u == r)) { Some(refs) } else { None }
    }
    /// the property's reading: is this a configuration that must load?
    pub fn valid(&self) -> bool {
        self.broken == 0 && self.referenced().is_some() && self.rib.as_ref().map(|r| !r.sources.is_empty()).unwrap_or(true)
            && self.nulls.iter().all(|(_, s)| !s.is_empty())
    }
}

// ------------------------------------------------------------------ events

#[derive(Clone, Debug, PartialEq)]
pub struct Race { pub r: u8, pub active: bool, pub pfx: Vec<u16>, pub lost: Vec<u16> }

#[derive(Clone, Debug, PartialEq)]
pub enum LEv {
    /// router `r` opens a TCP session to port index `port` and sends Initiation + Peer Up
    Connect { r: u8, port: u8 },
    /// router `r` announces (`active`) / withdraws prefixes in one Route Monitoring message
    Route { r: u8, active: bool, pfx: Vec<u16> },
    /// (re)load. `racing`: announcements written by another thread while the load runs (or, `forced`,
    /// while the upstream gate is held inside its reconfigure window); which of them were dropped
    /// (`lost`) is observed. `residue` / `moved`: loader leftovers of a failing load (see c13.rs), observed.
    Load { doc: LDoc, forced: bool, residue: BTreeSet<u32>, moved: BTreeSet<u32>, racing: Vec<Race> },
}

impl LEv {
    pub fn show(&self) -> String {
        match self {
            LEv::Connect { r, port } => format!("c{}@{}", r, port),
            LEv::Route { r, active, pfx } => format!("{}{}:{}~", if *active { 'a' } else { 'w' }, r, join(pfx.iter(), "+")),
            LEv::Load { doc, forced, residue, moved, racing } => format!("{}{}~{}~{}!{}", if *forced { 'F' } else { 'L' }, doc.show(), join(residue.iter(), "+"), join(moved.iter(), "+"),
                join(racing.iter().map(|x| format!("{}{}:{}~{}", if x.active { 'A' } else { 'W' }, x.r, join(x.pfx.iter(), "+"), join(x.lost.iter(), "+"))), ";")),
        }
    }
    pub fn parse(s: &str) -> Option<LEv> {
        let nums = |x: &str| -> Option<Vec<u16>> { if x.is_empty() { Some(vec![]) } else { x.split('+').map(|y| y.parse().ok()).collect() } };
        if s.is_empty() { return None; }
        let (k, rest) = s.split_at(1);
        match k {
            "c" => { let (r, p) = rest.split_once('@')?; Some(LEv::Connect { r: r.parse().ok()?, port: p.parse().ok()? }) }
            "a" | "w" => {
                let (r, p) = rest.split_once(':')?;
                let p = p.split('~').next()?;
                Some(LEv::Route { r: r.parse().ok()?, active: k == "a", pfx: nums(p)? })
            }
            "L" | "F" => {
                let (head, race) = rest.split_once('!').unwrap_or((rest, ""));
                let d = head.split('~').next()?;
                let mut racing = vec![];
                if !race.is_empty() { for t in race.split(';') {
                    let (k2, rest2) = t.split_at(1);
                    let (r, p) = rest2.split_once(':')?;
                    let p = p.split('~').next()?;
                    racing.push(Race { r: r.parse().ok()?, active: k2 == "A", pfx: nums(p)?, lost: vec![] });
                } }
                Some(LEv::Load { doc: LDoc::parse(d)?, forced: k == "F", residue: BTreeSet::new(), moved: BTreeSet::new(), racing })
            }
            _ => None,
        }
    }
}

/// prefix id -> 10.(id / 64).(id % 64).0/24
pub fn pfx_of(id: u16) -> Pfx { Pfx::v4([10, (id / 64) as u8, (id % 64) as u8, 0], 24) }
fn pfx_str(id: u16) -> String { format!("10.{}.{}.0/24", id / 64, id % 64) }

// ------------------------------------------------------------------ reference semantics (Rust)

/// The two sites where the code as written deviates deterministically from the property.
#[derive(Clone, Copy, Debug, PartialEq, Default)]
pub struct Flags { pub path_ignored: bool, pub clone_stale: bool, pub queue_wedge: bool }

/// What the pipeline looks like after an event. With `Flags::default()` this is the property's
/// reading (the oracle); the engine's settle loop uses the flags detected on the real code.
#[derive(Clone, Debug, PartialEq)]
pub struct RefRib { pub store: BTreeMap<(u16, u8), bool>, pub cfg: RibCfg }
#[derive(Clone, Debug, PartialEq)]
pub struct RefBmp { pub port: u8, pub sessions: Vec<u8>, pub reloaded: bool, pub reloads: u32 }
#[derive(Clone, Debug, PartialEq, Default)]
pub struct RefState { pub bmp: [Option<RefBmp>; 2], pub rib: Option<RefRib>, pub last: String,
    /// running virtual RIBs (`vrib_id(k)` / `VR`) -> index of the HTTP path they answer below (`VR`: its own)
    pub virt: BTreeMap<u32, u8> }

impl RefState {
    pub fn load(&mut self, doc: &LDoc, f: Flags) {
        if !doc.valid() { self.last = "err".into(); return; }
        self.last = "ok".into();
        let refs = doc.referenced().unwrap();
        for i in 0..2u8 {
            let new = doc.bmp[i as usize].as_ref().filter(|_| refs.contains(&(i as u32)));
            self.bmp[i as usize] = match (self.bmp[i as usize].take(), new) {
                // kept: sessions stay, listens where the file says (as written: not once its gate is wedged)
                (Some(old), Some(c)) => { let wedged = f.queue_wedge && old.reloads >= 6; let n = if old.sessions.is_empty() { old.reloads } else { old.reloads + 1 };
                    Some(RefBmp { port: if wedged { old.port } else { c.port }, sessions: old.sessions, reloaded: true, reloads: n }) }
                (None, Some(c)) => Some(RefBmp { port: c.port, sessions: vec![], reloaded: false, reloads: 0 }),
                (_, None) => None,
            };
        }
        let new = doc.rib.as_ref().filter(|_| refs.contains(&2));
        self.rib = match (self.rib.take(), new) {
            (Some(old), Some(c)) => { let mut cfg = c.clone(); if f.path_ignored { cfg.path = old.cfg.path; } Some(RefRib { store: old.store, cfg }) }
            (None, Some(c)) => Some(RefRib { store: BTreeMap::new(), cfg: c.clone() }),
            (_, None) => None,
        };
        // virtual RIBs: kept ones stay (as written they keep the path they were started with), new ones start
        let mut virt = BTreeMap::new();
        if let Some(r) = &doc.rib {
            let mut ids: Vec<u32> = doc.vribs().into_iter().map(vrib_id).collect();
            if r.vr { ids.push(VR); }
            for id in ids { if refs.contains(&id) {
                let p = match self.virt.get(&id) { Some(old) if f.path_ignored => *old, _ => r.path };
                virt.insert(id, p);
            } }
        }
        self.virt = virt;
    }
    pub fn session_unit(&self, r: u8) -> Option<u8> { (0..2u8).find(|i| self.bmp[*i as usize].as_ref().map(|b| b.sessions.contains(&r)).unwrap_or(false)) }
    pub fn wired(&self, r: u8) -> bool { match (self.session_unit(r), &self.rib) { (Some(b), Some(rib)) => rib.cfg.sources.contains(&b), _ => false } }
    pub fn connect(&mut self, r: u8, port: u8, f: Flags) {
        self.last = "-".into();
        for b in self.bmp.iter_mut().flatten() { if b.port == port { if !(b.reloaded && f.clone_stale) { b.sessions.push(r); } return; } }
    }
    pub fn route(&mut self, r: u8, active: bool, pfx: &[u16], lost: &[u16]) {
        self.last = "-".into();
        if !self.wired(r) { return; }
        let rib = self.rib.as_mut().unwrap();
        for p in pfx { if !lost.contains(p) { if active { rib.store.insert((*p, r), true); } else if let Some(x) = rib.store.get_mut(&(*p, r)) { *x = false; } } }
    }
    pub fn apply(&mut self, e: &LEv, f: Flags) {
        match e {
            LEv::Connect { r, port } => self.connect(*r, *port, f),
            LEv::Route { r, active, pfx } => self.route(*r, *active, pfx, &[]),
            LEv::Load { doc, racing, .. } => { self.load(doc, f); let last = self.last.clone(); for x in racing { self.route(x.r, x.active, &x.pfx, &x.lost); } self.last = last; }
        }
    }
    pub fn obs(&self, routers: &[u8]) -> Obs {
        let mut units = vec![];
        for i in 0..2 { if self.bmp[i].is_some() { units.push(i as u32); } }
        if self.rib.is_some() { units.push(2); }
        units.extend(self.virt.keys().cloned());
        units.sort();
        let mut virt: Vec<(String, String)> = self.virt.iter().map(|(id, p)| (if *id == VR { "v".to_string() } else { format!("{}.{}", p, id - 120) }, "=".to_string())).collect();
        virt.sort_by_key(|(l, _)| vlabel_key(l));
        Obs { virt,
            res: self.last.clone(), units,
            rib: self.rib.as_ref().map(|r| (format!("{}", r.cfg.path), if r.cfg.v4 <= 8 { "8".to_string() } else { "16".to_string() }, r.store.iter().map(|((p, s), a)| format!("{}.{}{}", p, s, if *a { 'A' } else { 'W' })).collect())),
            bmp: [self.bmp[0].as_ref().map(|b| sorted(&b.sessions)), self.bmp[1].as_ref().map(|b| sorted(&b.sessions))],
            ports: { let mut p: Vec<u8> = self.bmp.iter().flatten().map(|b| b.port).collect(); p.sort(); p },
            open: { let mut o: Vec<u8> = routers.iter().filter(|r| self.session_unit(**r).is_some()).cloned().collect(); o.sort(); o },
        }
    }
}
fn sorted(v: &[u8]) -> Vec<u8> { let mut v = v.to_vec(); v.sort(); v }

/// One observation of the pipeline (real or reference), in the order it is printed.
#[derive(Clone, Debug, PartialEq)]
pub struct Obs {
    pub res: String,
    pub units: Vec<u32>,
    /// (path that answers — "0", "1", "01" …, limit probe, sorted records `pfx.routerA|W`)
    pub rib: Option<(String, String, Vec<String>)>,
    pub bmp: [Option<Vec<u8>>; 2],
    pub ports: Vec<u8>,
    pub open: Vec<u8>,
    /// the virtual RIB endpoints that exist (`v` = the hand-written one, `<path>.<k>` = `rib-vRIB-<k>` below path
    /// index `<path>`) and what a prefix query to each shows: `=` the records the physical RIB shows, `T` no answer
    /// within the bounded wait, `E<status>` an error status, `!<records>` other records
    pub virt: Vec<(String, String)>,
}
/// order of the `Q=` field: the hand-written virtual RIB first, then by index, then by path
fn vlabel_key(l: &str) -> (u32, u32) { match l.split_once('.') { Some((p, k)) => (1 + k.parse::<u32>().unwrap_or(0), p.parse().unwrap_or(0)), None => (0, 0) } }
impl Obs {
    pub fn show(&self) -> String {
        let rib = match &self.rib { None => "-".to_string(), Some((p, l, recs)) => format!("{}:{}:{}", p, l, recs.join(",")) };
        let b = |x: &Option<Vec<u8>>| x.as_ref().map(|s| format!("[{}]", join(s.iter(), ","))).unwrap_or("-".into());
        format!("{} U={} rib={} b0={} b1={} P={} S={} Q={}", self.res, join(self.units.iter(), ","), rib, b(&self.bmp[0]), b(&self.bmp[1]), join(self.ports.iter(), ","), join(self.open.iter(), ","), join(self.virt.iter().map(|(l, v)| format!("{l}:{v}")), ","))
    }
}

// ------------------------------------------------------------------ the real pipeline

pub struct Router { pub sock: TcpStream, pub peer: BmpPeer, pub sent: usize }

/// Pause-point control shared with the runtime's worker threads (see `Live::new`).
#[derive(Default)]
pub struct Window { pub armed: AtomicBool, pub parked: AtomicUsize, pub release: AtomicBool }

pub struct Live {
    pub rt: tokio::runtime::Runtime,
    pub manager: vm::Manager,
    pub dir: std::path::PathBuf,
    pub ports: Vec<u16>,
    pub routers: BTreeMap<u8, Router>,
    pub window: Arc<Window>,
    next_marker: u16,
    /// virtual RIB endpoints that did not answer within the long bounded wait since the last load (they are
    /// probed with one short attempt from then on, so that a dead link costs the case seconds, not minutes)
    pub dead: BTreeSet<String>,
}

/// status `get_t` reports when no response arrived within the wait
pub const TIMEOUT: u16 = 598;
/// the prefix virtual RIBs are probed with (never announced, see `observe_virt`)
pub const VPROBE: &str = "10.250.0.0/24";

#[derive(Debug, PartialEq, Clone)]
pub enum LoadRes { Ok, Err, Panic }

fn free_ports(n: usize) -> Vec<u16> {
    // bind n listeners at once so the ports are distinct, then release them
    let ls: Vec<TcpListener> = (0..n).filter_map(|_| TcpListener::bind("127.0.0.1:0").ok()).collect();
    ls.iter().filter_map(|l| l.local_addr().ok().map(|a| a.port())).collect()
}

thread_local! { static SAW_RECONF: std::cell::Cell<bool> = const { std::cell::Cell::new(false) }; }

impl Live {
    pub fn new(dir: &std::path::Path) -> Live {
        let window: Arc<Window> = Arc::default();
        let w = window.clone();
        // Every worker thread of the pipeline's runtime gets the gate event handler of
        // `rotonda::verif::gate`: when armed, a gate that has just handled `Reconfigure` (its
        // `updates` map now holds the new gate's empty subscriber set; `notify.sent` is the tap
        // right after) is held there until the harness releases it. Not armed: a no-op.
        let rt = tokio::runtime::Builder::new_multi_thread().worker_threads(4).enable_all()
            .on_thread_start(move || {
                let w = w.clone();
                rotonda::verif::gate::set_event_handler(Some(Arc::new(move |name: &'static str, _id| {
                    if !w.armed.load(Ordering::SeqCst) { return; }
                    if name == "cmd.reconfigure" { SAW_RECONF.with(|s| s.set(true)); return; }
                    if name == "notify.sent" && SAW_RECONF.with(|s| s.replace(false)) {
                        w.parked.fetch_add(1, Ordering::SeqCst);
                        let t0 = Instant::now();
                        while !w.release.load(Ordering::SeqCst) && t0.elapsed() < Duration::from_millis(1500) { std::thread::sleep(Duration::from_micros(200)); }
                    }
                })));
            }).build().unwrap();
        let _g = rt.enter();
        vm::reset_loader();
        let manager = vm::Manager::new();
        drop(_g);
        Live { rt, manager, dir: dir.to_path_buf(), ports: free_ports(3), routers: BTreeMap::new(), window, next_marker: 3000, dead: BTreeSet::new() }
    }

    /// The load path of `main.rs`: `ConfigFile::new` -> `Manager::load` -> `prepare` -> `spawn`.
    pub fn load(&mut self, doc: &LDoc) -> (LoadRes, BTreeSet<u32>, BTreeSet<u32>) {
        let _g = self.rt.enter();
        let none = BTreeSet::new();
        let text = doc.render(&self.ports);
        let path = self.dir.join("rotonda.conf");
        let ids = |v: Vec<String>| -> BTreeSet<u32> { v.iter().map(|s| unit_id(s)).collect() };
        let file = match catch_unwind(AssertUnwindSafe(|| vm::ConfigFile::new(text.into_bytes(), vm::Source::from(&path)))) {
            Err(_) => return (LoadRes::Panic, none.clone(), none), Ok(Err(_)) => return (LoadRes::Err, none.clone(), none), Ok(Ok(f)) => f,
        };
        let mut config = match catch_unwind(AssertUnwindSafe(|| self.manager.load(&file))) {
            Err(_) => return (LoadRes::Panic, ids(vm::loader_gate_names()), none), Ok(Err(_)) => return (LoadRes::Err, ids(vm::loader_gate_names()), none), Ok(Ok(c)) => c,
        };
        match catch_unwind(AssertUnwindSafe(|| self.manager.prepare(&config, &file))) {
            Err(_) => return (LoadRes::Panic, none.clone(), none),
            Ok(Err(_)) => return (LoadRes::Err, ids(vm::loader_gate_names()), ids(vm::pending_gate_names(&self.manager))),
            Ok(Ok(())) => {}
        }
        match catch_unwind(AssertUnwindSafe(|| self.manager.spawn(&mut config))) { Err(_) => (LoadRes::Panic, none.clone(), none), Ok(()) => (LoadRes::Ok, none.clone(), none) }
    }

    pub fn get(&self, target: &str) -> (u16, String) { self.get_t(target, 20_000) }

    /// One request through the real handler chain; a request that is not answered within `ms` is
    /// dropped and reported as status `TIMEOUT` (a hang is an observation, the engine never waits on it).
    pub fn get_t(&self, target: &str, ms: u64) -> (u16, String) {
        let req = Request::builder().method("GET").uri(target).body(Body::empty()).unwrap();
        let resources = self.manager.http_resources();
        let metrics = self.manager.metrics();
        let r = catch_unwind(AssertUnwindSafe(|| self.rt.block_on(async {
            let fut = async {
                let res = vh::handle_request(req, &metrics, &resources).await;
                let status = res.status().as_u16();
                let body = hyper::body::to_bytes(res.into_body()).await.map(|b| b.to_vec()).unwrap_or_default();
                (status, String::from_utf8_lossy(&body).into_owned())
            };
            match tokio::time::timeout(Duration::from_millis(ms), fut).await { Ok(x) => x, Err(_) => (TIMEOUT, "timeout".into()) }
        })));
        r.unwrap_or((599, "panic".into()))
    }

    /// The candidate endpoints of virtual RIBs: `(label, base path)`.
    pub fn virt_candidates() -> Vec<(String, String)> {
        let mut v = vec![("v".to_string(), VR_PATH.to_string())];
        for k in 0..3u8 { for (pi, p) in PATHS.iter().enumerate() { v.push((format!("{pi}.{k}"), format!("{p}{k}/"))); } }
        v
    }

    /// One prefix query to a virtual RIB endpoint with retries: a query sent while the pipeline is still
    /// re-wiring may be lost for good (its trigger or its result falls into a reconfigure window), so only an
    /// endpoint that answers none of several attempts with growing waits (7.5 s in all; one short attempt
    /// once it was found dead) counts as not answering.
    pub fn virt_get(&mut self, label: &str, target: &str) -> (u16, String) {
        let waits: &[u64] = if self.dead.contains(label) { &[150] } else { &[500, 1000, 2000, 4000] };
        for w in waits { let r = self.get_t(target, *w); if r.0 != TIMEOUT { self.dead.remove(label); return r; } }
        self.dead.insert(label.to_string());
        (TIMEOUT, "timeout".into())
    }

    /// What the virtual RIB endpoints show (see `Obs::virt`). The query goes the whole way: the trigger over
    /// the unit's `vrib_upstream` link into the physical RIB's command channel, `match_prefix` there, the
    /// `QueryResult` published through the physical RIB's gate and passed on by every virtual RIB in between.
    /// The probe prefix is one no session ever announces: on this tree a virtual RIB that receives a
    /// *non-empty* result runs into `todo!()` (`reprocess_rib_value`, rib_unit/unit.rs) inside the physical
    /// RIB's task and takes that unit down — a defect of the query path (C11/C12), not of reloading, which
    /// this observation must not trip over. What the sessions announced is read at the physical RIB.
    pub fn observe_virt(&mut self, prib_path: Option<&str>) -> Vec<(String, String)> {
        let prib = prib_path.and_then(|p| { let (st, body) = self.get(&format!("{p}{VPROBE}")); if st == 200 { records_of(0, &body) } else { None } });
        let mut out = vec![];
        for (label, base) in Live::virt_candidates() {
            let (st, body) = self.virt_get(&label, &format!("{base}{VPROBE}"));
            let v = match st {
                404 | 400 => continue,                                      // nobody serves this path
                TIMEOUT => "T".to_string(),
                200 => match (records_of(0, &body), &prib) { (Some(r), Some(p)) if r == *p => "=".to_string(), (Some(r), _) => format!("!{}", r.join("+")), (None, _) => "E-json".to_string() },
                s => format!("E{s}"),
            };
            out.push((label, v));
        }
        out.sort_by_key(|(l, _)| vlabel_key(l));
        out
    }

    /// TCP connect + Initiation + Peer Up. Each router comes from its own loopback address (the
    /// unit keys routers by remote IP).
    pub fn connect(&mut self, r: u8, port: u8) -> bool {
        let addr: SocketAddr = format!("127.0.0.1:{}", self.ports[port as usize]).parse().unwrap();
        let Ok(mut sock) = connect_from(&format!("127.0.0.{}", 10 + r), addr) else { return false };
        let peer = BmpPeer::plain(r as u32);
        let _ = sock.set_nodelay(true);
        let ok = sock.write_all(&mk_initiation_msg(&format!("router{r}"), "verif")).is_ok() && sock.write_all(&BmpRouter::peer_up_msg(&peer)).is_ok();
        self.routers.insert(r, Router { sock, peer, sent: 2 });
        ok
    }

    pub fn send(&mut self, r: u8, ann: &[u16], wd: &[u16]) -> bool {
        let Some(rt) = self.routers.get_mut(&r) else { return false };
        rt.sent += 1;
        rt.sock.write_all(&rm_msg(&rt.peer, ann, wd)).is_ok()
    }

    /// Has the other side closed the session (EOF / reset)? Non-blocking probe.
    pub fn session_closed(&mut self, r: u8) -> bool {
        let Some(rt) = self.routers.get_mut(&r) else { return true };
        let _ = rt.sock.set_nonblocking(true);
        let mut b = [0u8; 16];
        let res = match rt.sock.read(&mut b) { Ok(0) => true, Ok(_) => false, Err(e) => e.kind() != std::io::ErrorKind::WouldBlock };
        let _ = rt.sock.set_nonblocking(false);
        res
    }

    /// indexes of the case's ports that have a listening socket (from /proc/net/tcp: no connection is made)
    pub fn listening(&self) -> Vec<u8> {
        let txt = std::fs::read_to_string("/proc/net/tcp").unwrap_or_default();
        let mut out = vec![];
        for (i, p) in self.ports.iter().enumerate() {
            let needle = format!("0100007F:{:04X}", p);
            if txt.lines().any(|l| { let f: Vec<&str> = l.split_whitespace().collect(); f.len() > 3 && f[1] == needle && f[3] == "0A" }) { out.push(i as u8); }
        }
        out
    }

    /// exact-match records of the prefixes `ids` at `path`: `None` = the endpoint does not exist
    pub fn content(&self, path: &str, ids: &[u16]) -> Option<Vec<String>> {
        let mut out = vec![];
        for id in ids {
            let (st, body) = self.get(&format!("{}{}", path, pfx_str(*id)));
            if st != 200 { return None; }
            out.extend(records_of(*id, &body)?);
        }
        sort_records(&mut out);
        Some(out)
    }

    /// the routers the unit's router-list page shows
    pub fn routers_shown(&self, unit: usize) -> Option<Vec<u8>> {
        let (st, body) = self.get(&format!("/routers{unit}/"));
        if st != 200 { return None; }
        let mut v: Vec<u8> = self.routers.keys().filter(|r| body.contains(&format!("router{}<", r)) || body.contains(&format!("router{}\"", r)) || body.contains(&format!(">router{}", r))).cloned().collect();
        v.sort();
        Some(v)
    }

    pub fn observe(&mut self, res: &str, ids: &[u16]) -> Obs {
        let (u, _t) = vm::running_names(&self.manager);
        let mut units: Vec<u32> = u.iter().map(|s| unit_id(s)).collect();
        units.sort();
        let answering: Vec<usize> = (0..PATHS.len()).filter(|i| self.get(&format!("{}10.0.0.0/24", PATHS[*i])).0 != 404).collect();
        let rib = if answering.is_empty() { None } else {
            let p = PATHS[answering[0]];
            let lim = match self.get(&format!("{p}10.0.0.0/8?include=moreSpecifics")).0 { 200 => "8".to_string(), 400 => "16".to_string(), s => format!("?{s}") };
            Some((join(answering.iter(), ""), lim, self.content(p, ids).unwrap_or_else(|| vec!["?".into()])))
        };
        let rs: Vec<u8> = self.routers.keys().cloned().collect();
        let open: Vec<u8> = rs.into_iter().filter(|r| !self.session_closed(*r)).collect();
        let virt = self.observe_virt(answering.first().map(|i| PATHS[*i]));
        Obs { res: res.into(), units, rib, bmp: [self.routers_shown(0), self.routers_shown(1)], ports: self.listening(), open, virt }
    }
}

/// the records of one prefix-query response, as `pfx.router(A|W)`
fn records_of(id: u16, body: &str) -> Option<Vec<String>> {
    let v: serde_json::Value = serde_json::from_str(body).ok()?;
    let mut out = vec![];
    for rec in v["data"].as_array()? {
        let asn: String = rec["ingress_info"]["remote_asn"].to_string().chars().filter(|c| c.is_ascii_digit()).collect();
        let router = asn.parse::<u32>().ok().and_then(|a| a.checked_sub(65000)).map(|r| r.to_string()).unwrap_or("?".into());
        out.push(format!("{}.{}{}", id, router, match rec["status"].as_str() { Some("active") => 'A', Some("withdrawn") => 'W', _ => '?' }));
    }
    Some(out)
}
fn sort_records(out: &mut [String]) { out.sort_by_key(|s| { let (p, r) = s.split_once('.').unwrap(); (p.parse::<u16>().unwrap_or(0), r.to_string()) }); }

fn connect_from(src_ip: &str, dst: SocketAddr) -> std::io::Result<TcpStream> {
    // std has no bind-before-connect; tokio's TcpSocket has
    let src: SocketAddr = format!("{src_ip}:0").parse().unwrap();
    let rt = tokio::runtime::Builder::new_current_thread().enable_all().build()?;
    let s = rt.block_on(async {
        let sock = tokio::net::TcpSocket::new_v4()?;
        sock.bind(src)?;
        tokio::time::timeout(Duration::from_millis(300), sock.connect(dst)).await.map_err(|_| std::io::Error::from(std::io::ErrorKind::TimedOut))?
    })?;
    let std = s.into_std()?;
    std.set_nonblocking(false)?;
    Ok(std)
}

pub fn rm_msg(peer: &BmpPeer, ann: &[u16], wd: &[u16]) -> Bytes {
    let n = |id: &u16| Nlri { pfx: pfx_of(*id), safi: Safi::U };
    let u = Upd { attr: 1, ann: ann.iter().map(n).collect(), wd: wd.iter().map(n).collect(), mp4: false, corrupt: 0 };
    let (pdu, _) = encode_update(&u).expect("encodable");
    mk_raw_route_monitoring_msg(&peer.pph(), Bytes::from(pdu))
}

// ------------------------------------------------------------------ running one case

fn poll<F: FnMut() -> bool>(max_ms: u64, mut f: F) -> bool {
    let t0 = Instant::now();
    loop {
        if f() { return true; }
        if t0.elapsed() > Duration::from_millis(max_ms) { return false; }
        std::thread::sleep(Duration::from_micros(500));
    }
}

fn key(p: u16, r: u8, active: bool) -> String { format!("{}.{}{}", p, r, if active { 'A' } else { 'W' }) }

/// Runs the events on a fresh real pipeline. Returns (events with the observed inputs filled in,
/// the observation after every event). Nothing waits longer than 2 s.
pub fn run_real(dir: &std::path::Path, evs: &[LEv], ids: &[u16], f: Flags, rng: &mut Rng, rec: &mut Recorder) -> (Vec<LEv>, Vec<Obs>) {
    let mut live = Live::new(dir);
    let mut want = RefState::default();   // what the real code is expected to reach (settle target; flags as detected)
    let mut out_evs = vec![];
    let mut obs = vec![];
    for e in evs {
        match e {
            LEv::Connect { r, port } => {
                let ok = live.connect(*r, *port);
                want.connect(*r, *port, f);
                match (ok, want.session_unit(*r)) {
                    (true, Some(u)) => { poll(2000, || live.routers_shown(u as usize).map(|s| s.contains(r)).unwrap_or(false)); }
                    (true, None) => { poll(2000, || live.session_closed(*r)); }   // accepted by nobody / dropped
                    _ => {}
                }
                out_evs.push(e.clone());
                obs.push(live.observe("-", ids));
            }
            LEv::Route { r, active, pfx } => {
                if *active { live.send(*r, pfx, &[]); } else { live.send(*r, &[], pfx); }
                want.route(*r, *active, pfx, &[]);
                settle_routes(&mut live, &want, *r, ids);
                out_evs.push(e.clone());
                obs.push(live.observe("-", ids));
            }
            LEv::Load { doc, forced, racing, .. } => {
                let before: Vec<String> = vec![];
                let mut writer = None;
                if *forced { live.window.release.store(false, Ordering::SeqCst); live.window.parked.store(0, Ordering::SeqCst); live.window.armed.store(true, Ordering::SeqCst); }
                else if !racing.is_empty() {
                    // another thread writes the messages, one prefix per message, with random gaps
                    let mut msgs: Vec<(TcpStream, Bytes, u64)> = vec![];
                    for x in racing {
                        let Some(rt) = live.routers.get_mut(&x.r) else { continue };
                        for p in &x.pfx {
                            let Ok(s) = rt.sock.try_clone() else { continue };
                            rt.sent += 1;
                            msgs.push((s, if x.active { rm_msg(&rt.peer, &[*p], &[]) } else { rm_msg(&rt.peer, &[], &[*p]) }, rng.below(250)));
                        }
                    }
                    let lead = rng.below(500);
                    writer = Some(std::thread::spawn(move || {
                        spin_us(lead);
                        for (mut s, m, gap) in msgs { let _ = s.write_all(&m); spin_us(gap); }
                    }));
                    spin_us(rng.below(700));
                }
                let (res, residue, moved) = live.load(doc);
                live.dead.clear();
                let res_s = match res { LoadRes::Ok => "ok", LoadRes::Err => "err", LoadRes::Panic => "panic" };
                if *forced {
                    // wait until a gate sits in its window, publish the messages, make sure the unit has
                    // processed them, release
                    poll(1000, || live.window.parked.load(Ordering::SeqCst) >= 1);
                    std::thread::sleep(Duration::from_millis(3));
                    rec.bump(&format!("live.forced-window.gates-held.{}", live.window.parked.load(Ordering::SeqCst)));
                    for x in racing {
                        if x.active { live.send(x.r, &x.pfx, &[]); } else { live.send(x.r, &[], &x.pfx); }
                        if let Some(u) = want.session_unit(x.r) {
                            let comp = unit_name(u);
                            let sent: usize = live.routers.iter().filter(|(k, _)| want.session_unit(**k) == Some(u)).map(|(_, y)| y.sent).sum();
                            poll(1000, || processed(&live, &comp) >= sent);
                        }
                    }
                    std::thread::sleep(Duration::from_millis(3));
                    live.window.armed.store(false, Ordering::SeqCst);
                    live.window.release.store(true, Ordering::SeqCst);
                }
                if let Some(w) = writer { let _ = w.join(); }
                if res == LoadRes::Ok { want.load(doc, f); } else { want.last = res_s.into(); }
                settle_load(&mut live, &want);
                let o = live.observe(res_s, ids);
                // which racing updates made it? (a record that was there before in the same state proves nothing:
                // the generator only races prefixes the router has not announced yet)
                let recs = o.rib.as_ref().map(|x| x.2.clone()).unwrap_or_default();
                let mut raced = vec![];
                for x in racing {
                    let mut lost = vec![];
                    if want.wired(x.r) { for p in &x.pfx { let k = key(*p, x.r, x.active); if !recs.contains(&k) || (before.contains(&k) && false) { lost.push(*p); } } }
                    want.route(x.r, x.active, &x.pfx, &lost);
                    raced.push(Race { r: x.r, active: x.active, pfx: x.pfx.clone(), lost });
                }
                want.last = res_s.into();
                out_evs.push(LEv::Load { doc: doc.clone(), forced: *forced, residue, moved, racing: raced });
                obs.push(o);
            }
        }
    }
    drop(live);
    (out_evs, obs)
}

fn spin_us(us: u64) { let t = Instant::now(); while t.elapsed() < Duration::from_micros(us) { std::hint::spin_loop(); } }

/// sum of `num_bmp_messages_processed_total` of one bmp-tcp-in unit
fn processed(live: &Live, comp: &str) -> usize {
    let m = live.get("/metrics").1;
    m.lines().filter(|l| l.starts_with("rotonda_bmp_tcp_in_num_bmp_messages_processed_total") && l.contains(&format!("component=\"{comp}\""))).filter_map(|l| l.rsplit(' ').next()?.parse::<usize>().ok()).sum()
}

fn current_path(want: &RefState) -> Option<&'static str> { want.rib.as_ref().map(|r| PATHS[r.cfg.path as usize]) }

/// after a route event on router `r`: wired -> until the expected records show; not wired -> until
/// the unit has processed the message (then the absence is observed)
fn settle_routes(live: &mut Live, want: &RefState, r: u8, ids: &[u16]) {
    if want.wired(r) {
        let exp: Vec<String> = want.obs(&[]).rib.map(|x| x.2).unwrap_or_default();
        let p = current_path(want).unwrap();
        poll(2000, || live.content(p, ids).map(|c| c == exp).unwrap_or(false));
    } else if let Some(u) = want.session_unit(r) {
        let comp = unit_name(u);
        let sent: usize = live.routers.iter().filter(|(k, _)| want.session_unit(**k) == Some(u)).map(|(_, x)| x.sent).sum();
        poll(500, || processed(live, &comp) >= sent);
        std::thread::sleep(Duration::from_millis(3));
    }
}

/// after a load: listeners, endpoints, closed sessions as expected; then every wired session proves
/// its wiring with marker announcements (re-sent every few ms: one sent too early may fall into the
/// reconfigure window)
fn settle_load(live: &mut Live, want: &RefState) {
    let routers: Vec<u8> = live.routers.keys().cloned().collect();
    let exp = want.obs(&routers);
    poll(2000, || live.listening() == exp.ports);
    poll(2000, || { let (u, _) = vm::running_names(&live.manager); let mut x: Vec<u32> = u.iter().map(|s| unit_id(s)).collect(); x.sort(); x == exp.units });
    for r in &routers { if !exp.open.contains(r) { poll(2000, || live.session_closed(*r)); } }
    match current_path(want) {
        None => { poll(2000, || PATHS.iter().all(|p| live.get(&format!("{p}10.0.0.0/24")).0 == 404)); }
        Some(p) => {
            poll(2000, || live.get(&format!("{p}10.0.0.0/24")).0 == 200);
            let lim = if want.rib.as_ref().unwrap().cfg.v4 <= 8 { 200 } else { 400 };
            poll(2000, || live.get(&format!("{p}10.0.0.0/8?include=moreSpecifics")).0 == lim);
            for r in routers.iter().filter(|r| want.wired(**r) && exp.open.contains(r)) {
                let t0 = Instant::now();
                loop {
                    let m = live.next_marker; live.next_marker += 1;
                    live.send(*r, &[m], &[]);
                    if poll(8, || live.content(p, &[m]).map(|c| !c.is_empty()).unwrap_or(false)) { break; }
                    if t0.elapsed() > Duration::from_millis(2000) { break; }
                }
            }
        }
    }
    // the virtual RIBs answer queries again (short attempts; the observation that follows is the judge)
    for (label, _) in &exp.virt {
        let Some((_, base)) = Live::virt_candidates().into_iter().find(|(l, _)| l == label) else { continue };
        poll(2000, || live.get_t(&format!("{base}{VPROBE}"), 250).0 == 200);
    }
}

// ------------------------------------------------------------------ generator

fn pick_pfx(rng: &mut Rng, pool: &[u16], k: usize) -> Vec<u16> {
    let mut s = BTreeSet::new();
    for _ in 0..k { if !pool.is_empty() { s.insert(*rng.pick(pool)); } }
    s.into_iter().collect()
}

pub fn gen_case(rng: &mut Rng, racing: bool) -> (Vec<LEv>, Vec<u16>) {
    let load = |doc: &LDoc, racing: Vec<Race>| LEv::Load { doc: doc.clone(), forced: false, residue: BTreeSet::new(), moved: BTreeSet::new(), racing };
    let mut doc = LDoc { bmp: [Some(BmpCfg { port: 0 }), None], rib: Some(RibCfg::plain(vec![0], 8, 0)), nulls: vec![(0, vec![2])], broken: 0 };
    if rng.chance(30, 100) { doc.bmp[1] = Some(BmpCfg { port: 1 }); if rng.chance(50, 100) { doc.rib.as_mut().unwrap().sources.push(1); } else { doc.nulls.push((2, vec![1])); } }
    if rng.chance(20, 100) { doc.rib.as_mut().unwrap().v4 = 16; }
    // the rib in the `filter_names` shorthand (>= 2 names generate virtual RIBs), a hand-written virtual RIB
    doc.rib.as_mut().unwrap().filters = match rng.below(100) { 0..=34 => 0, 35..=44 => 1, 45..=79 => 2, _ => 3 };
    if rng.chance(25, 100) { doc.rib.as_mut().unwrap().vr = true; }
    let spec = Flags::default();
    let mut st = RefState::default();
    let mut evs = vec![load(&doc, vec![])];
    st.load(&doc, spec);
    let ids: Vec<u16> = default_ids();
    let mut next_router = 0u8;
    // routers mostly connect before the first reload (the code as written drops later ones)
    for _ in 0..rng.range(if racing { 1 } else { 0 }, 2) {
        let ports: Vec<u8> = st.bmp.iter().flatten().map(|b| b.port).collect();
        let e = LEv::Connect { r: next_router, port: *rng.pick(&ports) };
        st.apply(&e, spec); evs.push(e); next_router += 1;
    }
    let n = rng.range(3, 8);
    for _ in 0..n {
        let alive: Vec<u8> = (0..next_router).filter(|r| st.session_unit(*r).is_some()).collect();
        // the code as written wedges a bmp-tcp-in unit during its sixth reload with a router connected, and what
        // happens to its traffic then is timing: generated cases stay below (the wedge has its own case)
        let near_wedge = st.bmp.iter().flatten().any(|b| b.reloads >= 4);
        match if near_wedge { rng.below(5) } else { rng.below(10) } {
            0 if next_router < 4 => {
                // connect to a port some unit listens on (mostly) or to one nobody listens on
                let ports: Vec<u8> = st.bmp.iter().flatten().map(|b| b.port).collect();
                let port = if rng.chance(85, 100) && !ports.is_empty() { *rng.pick(&ports) } else { (0..3u8).find(|p| !ports.contains(p)).unwrap_or(2) };
                let e = LEv::Connect { r: next_router, port };
                st.apply(&e, spec); evs.push(e); next_router += 1;
            }
            1..=4 if !alive.is_empty() => {
                let r = *rng.pick(&alive);
                let k = rng.range(1, 3) as usize;
                let e = LEv::Route { r, active: !rng.chance(25, 100), pfx: pick_pfx(rng, &ids, k) };
                st.apply(&e, spec); evs.push(e);
            }
            _ if near_wedge => {}
            _ => {
                let new = edit(rng, &doc, &st, racing);
                let mut races = vec![];
                if racing {
                    // only sessions whose wiring the reload does not change may race, and only with prefixes
                    // that router has not announced yet (so that "is it there afterwards" decides)
                    let mut after = st.clone(); after.load(&new, spec);
                    for r in &alive { if st.wired(*r) && after.wired(*r) && rng.chance(85, 100) {
                        let fresh: Vec<u16> = ids.iter().filter(|p| !st.rib.as_ref().unwrap().store.contains_key(&(**p, *r))).cloned().collect();
                        let k = rng.range(1, 4) as usize;
                        let pfx = pick_pfx(rng, &fresh, k);
                        if !pfx.is_empty() { races.push(Race { r: *r, active: true, pfx, lost: vec![] }); }
                    } }
                }
                let e = load(&new, races);
                st.apply(&e, spec); evs.push(e);
                if new.valid() { doc = new; }
            }
        }
    }
    (evs, ids)
}

/// what an operator does between two reloads
fn edit(rng: &mut Rng, d: &LDoc, st: &RefState, racing: bool) -> LDoc {
    let mut n = d.clone();
    let b1_routes_in_rib = st.bmp[1].as_ref().map(|b| st.rib.as_ref().map(|r| r.store.keys().any(|(_, s)| b.sessions.contains(s))).unwrap_or(false)).unwrap_or(false);
    let free_port = |d: &LDoc| (0..3u8).find(|p| !d.bmp.iter().flatten().any(|b| b.port == *p));
    let op = rng.below(if racing { 11 } else { 16 });
    match if racing && op >= 9 { op + 5 } else { op } {
        0 => {}                                                                     // unchanged file
        1 => { if let Some(r) = n.rib.as_mut() { r.v4 = if r.v4 == 8 { 16 } else { 8 }; } }
        2 => { if let Some(r) = n.rib.as_mut() { r.path = 1 - r.path; } }
        3 => { if let (Some(p), Some(b)) = (free_port(d), n.bmp[0].as_mut()) { b.port = p; } }
        4 => { if n.rib.is_some() { if n.nulls.iter().any(|(t, _)| *t == 1) { n.nulls.retain(|(t, _)| *t != 1); } else { n.nulls.push((1, vec![2])); } } }
        5 => { // add b1, wired into the rib
            if let (None, Some(p)) = (&n.bmp[1], free_port(d)) { n.bmp[1] = Some(BmpCfg { port: p }); if let Some(r) = n.rib.as_mut() { r.sources.push(1); } else { n.nulls.push((2, vec![1])); } }
        }
        6 => n.broken = 1,
        7 => n.broken = 2,
        8 => { n.nulls.push((3, vec![7])); }                                         // unresolved link
        9 => { // add b1 next to the rib (its own null target)
            if let (None, Some(p)) = (&n.bmp[1], free_port(d)) { n.bmp[1] = Some(BmpCfg { port: p }); n.nulls.push((2, vec![1])); }
        }
        10 => { // toggle b1 in the rib's sources (b1 stays referenced through its own target)
            if n.bmp[1].is_some() { if let Some(r) = n.rib.as_mut() {
                if r.sources.contains(&1) { r.sources.retain(|s| *s != 1); if !n.nulls.iter().any(|(t, _)| *t == 2) { n.nulls.push((2, vec![1])); } } else { r.sources.push(1); }
            } }
        }
        11 => { // remove the rib (b0 keeps running through a target of its own) / bring it back
            if n.rib.is_some() { n.rib = None; n.nulls.retain(|(_, s)| !s.contains(&2)); if !n.nulls.iter().any(|(t, _)| *t == 4) { n.nulls.push((4, vec![0])); } if n.bmp[1].is_some() && !n.nulls.iter().any(|(t, _)| *t == 2) { n.nulls.push((2, vec![1])); } }
            else { let mut s = vec![0]; if n.bmp[1].is_some() && rng.chance(50, 100) { s.push(1); } n.rib = Some(RibCfg::plain(s, 8, 0)); n.nulls.push((0, vec![2])); }
        }
        12 => { // remove b1 (not while routes of its sessions are in the RIB: the end-of-session withdrawals of a
            // terminating unit race with the rib's own reconfiguration)
            if n.bmp[1].is_some() && !b1_routes_in_rib { n.bmp[1] = None; n.nulls.retain(|(t, _)| *t != 2); if let Some(r) = n.rib.as_mut() { r.sources.retain(|s| *s != 1); } }
        }
        14 => { if let Some(r) = n.rib.as_mut() { let k = rng.below(4) as u8; r.filters = if k == r.filters { (k + 2) % 4 } else { k }; } }   // other number of filter names
        15 => { if let Some(r) = n.rib.as_mut() { r.vr = !r.vr; } }                  // hand-written virtual RIB added / removed
        _ => { // b1 loses its last reference: "unused and will be stopped"
            if n.bmp[1].is_some() && !b1_routes_in_rib { n.nulls.retain(|(t, _)| *t != 2); if let Some(r) = n.rib.as_mut() { r.sources.retain(|s| *s != 1); } }
        }
    }
    n
}

// ------------------------------------------------------------------ case line, oracle

pub fn case_line(evs: &[LEv]) -> String { format!("L|{}", join(evs.iter().map(|e| e.show()), "|")) }
pub fn parse_case(line: &str) -> Option<Vec<LEv>> { line.strip_prefix("L|")?.split('|').map(LEv::parse).collect() }
pub fn impl_line(obs: &[Obs]) -> String { join(obs.iter().map(|o| o.show()), " / ") }

/// The property judged on the real observations (no Lean). At every event the real observation
/// must equal the property's reference (`Flags::default()`) continued from the last state the real
/// code was consistent with. If it equals instead the reference of one of the two *known*
/// deterministic deviations (old HTTP path kept, new routers dropped after a reconfigure), the
/// failure carries that site's signature and the run continues from there; anything else gets a
/// signature naming the field that is wrong. A racing update that was dropped is reported per event.
pub fn oracle(evs: &[LEv], obs: &[Obs]) -> String {
    let mut cur = RefState::default();
    let mut routers: Vec<u8> = vec![];
    let mut fails: Vec<String> = vec![];
    let mut wiring: Option<String> = None;
    for (idx, (e, o)) in evs.iter().zip(obs.iter()).enumerate() {
        if let LEv::Connect { r, .. } = e { routers.push(*r); }
        if let LEv::Load { racing, forced, .. } = e {
            let lost: Vec<String> = racing.iter().flat_map(|x| x.lost.iter().map(move |p| format!("{}@router{}", p, x.r))).collect();
            if !lost.is_empty() { fails.push(format!("traffic:update-lost-in-reconfigure-window routes announced on an established session while the configuration was reloaded never reached the RIB ({}; {})", lost.join(","), if *forced { "gate held in the window" } else { "free-running race" })); }
        }
        let mut spec = cur.clone(); spec.apply(e, Flags::default());
        let exp = spec.obs(&routers);
        if *o == exp { cur = spec; continue; }
        let fl = |p, c, q| Flags { path_ignored: p, clone_stale: c, queue_wedge: q };
        let known = [(fl(true, false, false), "setting-not-adopted:rib:http_api_path the RIB keeps answering at the old path after a reload that changed http_api_path"),
                     (fl(false, true, false), "sessions:new-router-dropped-after-reconfigure a router that connects to a bmp-tcp-in unit after a reload is accepted and dropped at once"),
                     (fl(false, false, true), "gate:wedged-after-repeated-reloads after six reloads with a router connected the bmp-tcp-in unit no longer reacts to a reload (listen address not adopted)"),
                     (fl(true, true, false), "setting-not-adopted:rib:http_api_path (and a dropped new router in the same step)"),
                     (fl(true, false, true), "gate:wedged-after-repeated-reloads (and an old HTTP path kept in the same step)")];
        let mut explained = false;
        for (fl, what) in known {
            let mut c = cur.clone(); c.apply(e, fl);
            if c.obs(&routers) == *o { fails.push(what.to_string()); cur = c; explained = true; break; }
        }
        if explained { continue; }
        let field = if o.res != exp.res { format!("load-result expected {} got {}", exp.res, o.res) }
            else if o.units != exp.units { format!("running-units expected {:?} got {:?}", exp.units, o.units) }
            else if o.bmp != exp.bmp || o.open != exp.open { format!("sessions expected b0={:?} b1={:?} open={:?} got b0={:?} b1={:?} open={:?}", exp.bmp[0], exp.bmp[1], exp.open, o.bmp[0], o.bmp[1], o.open) }
            else if o.ports != exp.ports { format!("listen-address listening on port indexes {:?}, the file says {:?}", o.ports, exp.ports) }
            else if o.virt != exp.virt && o.rib == exp.rib {
                let show = |v: &Vec<(String, String)>| join(v.iter().map(|(l, x)| format!("{l}:{x}")), ",");
                let dead: Vec<&String> = o.virt.iter().filter(|(l, x)| x == "T" && exp.virt.iter().any(|(l2, _)| l2 == l)).map(|(l, _)| l).collect();
                let loaded = evs[..=idx].iter().filter(|e| matches!(e, LEv::Load { .. })).count() > 1;
                if !dead.is_empty() && loaded {
                    wiring = Some(format!("wiring:vrib-query-unanswered-after-reload a prefix query to a running virtual RIB is not answered within the bounded wait after a reload: its query link to the physical RIB is not the one of the last loaded file (endpoints {}; event {} `{}`; physical RIB answers; expected Q={} got Q={})", join(dead.iter(), ","), idx, e.show(), show(&exp.virt), show(&o.virt)));
                    String::new()
                } else { format!("virtual-rib-endpoints expected Q={} got Q={}", show(&exp.virt), show(&o.virt)) }
            }
            else { match (&o.rib, &exp.rib) {
                (Some(a), Some(b)) if a.2 != b.2 => format!("rib-content expected [{}] got [{}]", b.2.join(","), a.2.join(",")),
                (Some(a), Some(b)) if a.1 != b.1 => format!("query-limit probe says {} the file says {}", a.1, b.1),
                (Some(a), Some(b)) => format!("rib-path answers at {} the file says {}", a.0, b.0),
                (None, Some(_)) => "rib-endpoint missing".to_string(),
                _ => "rib-endpoint survived the unit".to_string(),
            } };
        match wiring.take() { Some(w) => fails.push(w), None => fails.push(format!("live:{}", field.replacen(' ', " ", 1))) }
        cur = spec;
    }
    if fails.is_empty() { "ok".into() } else {
        // an unknown deviation outranks the known ones
        let first = fails.iter().find(|f| f.starts_with("live:") || f.starts_with("wiring:")).unwrap_or(&fails[0]);
        format!("fail {}", first)
    }
}

// ------------------------------------------------------------------ witnesses, streams

fn d0() -> LDoc { LDoc { bmp: [Some(BmpCfg { port: 0 }), None], rib: Some(RibCfg::plain(vec![0], 8, 0)), nulls: vec![(0, vec![2])], broken: 0 } }
fn ld(doc: &LDoc) -> LEv { LEv::Load { doc: doc.clone(), forced: false, residue: BTreeSet::new(), moved: BTreeSet::new(), racing: vec![] } }
pub fn default_ids() -> Vec<u16> { (0..12).map(|i| i * 21 % 256).collect() }

fn record(rec: &mut Recorder, kind: &str, evs: &[LEv], obs: &[Obs]) {
    rec.bump(&format!("live.kind.{kind}"));
    for e in evs { rec.bump(match e { LEv::Connect { .. } => "live.ev.connect", LEv::Route { .. } => "live.ev.route", LEv::Load { racing, forced, .. } => if *forced { "live.ev.load-forced-window" } else if racing.is_empty() { "live.ev.load" } else { "live.ev.load-with-racing-updates" } }); }
    let raced: usize = evs.iter().map(|e| match e { LEv::Load { racing, .. } => racing.iter().map(|x| x.pfx.len()).sum(), _ => 0 }).sum();
    let lost: usize = evs.iter().map(|e| match e { LEv::Load { racing, .. } => racing.iter().map(|x| x.lost.len()).sum(), _ => 0 }).sum();
    rec.bump_by("live.racing-updates.sent", raced as u64);
    rec.bump_by("live.racing-updates.lost", lost as u64);
    for o in obs { rec.bump(&format!("live.load-result.{}", o.res)); }
    let mut loads_ok = 0;
    for (e, o) in evs.iter().zip(obs.iter()) {
        if matches!(e, LEv::Load { .. }) && o.res == "ok" { loads_ok += 1; }
        for (l, v) in &o.virt {
            let kind = if l == "v" { "hand-written" } else { "generated" };
            rec.bump(&format!("live.vrib-query.{}.{}.{}", kind, if loads_ok > 1 { "after-reload" } else { "after-start-up" }, match v.as_str() { "=" => "same-as-physical", "T" => "timeout", _ => "other" }));
        }
    }
    if let Some(LEv::Load { doc, .. }) = evs.first() { rec.bump(&format!("live.first-doc.filter-names.{}", doc.rib.as_ref().map(|r| r.filters).unwrap_or(0))); }
    // non-trivial: a reload happened while at least one router session existed
    let mut sess = false; let mut nontrivial = false;
    for (e, o) in evs.iter().zip(obs.iter()) { if let LEv::Load { .. } = e { if sess && o.res == "ok" { nontrivial = true; } } if !o.open.is_empty() { sess = true; } }
    rec.case(case_line(evs), impl_line(obs), oracle(evs, obs), nontrivial);
}

/// Runs a witness with the flags assumed as written; if the real code disagrees, runs it again with `flip`
/// applied (so that nothing waits for a state that will not come) and reports the second run.
fn witness(dir: &std::path::Path, evs: &[LEv], assumed: Flags, flipped: Flags, rng: &mut Rng, rec: &mut Recorder) -> (Vec<LEv>, Vec<Obs>, bool) {
    let ids = default_ids();
    let expect = |f: Flags, evs2: &[LEv]| { let mut st = RefState::default(); let mut rs = vec![]; let mut out = vec![]; for e in evs2 { if let LEv::Connect { r, .. } = e { rs.push(*r); } st.apply(e, f); out.push(st.obs(&rs)); } out };
    let (e1, o1) = run_real(dir, evs, &ids, assumed, rng, rec);
    if o1 == expect(assumed, &e1) { return (e1, o1, true); }
    let (e2, o2) = run_real(dir, evs, &ids, flipped, rng, rec);
    (e2, o2, false)
}

/// The witnesses of the counterexample theorems, replayed first; they decide the variants.
pub fn witnesses(dir: &std::path::Path, rng: &mut Rng, rec: &mut Recorder, record_them: bool) -> Flags {
    let aw = Flags { path_ignored: true, clone_stale: true, queue_wedge: true };
    // (1) a reload that changes the rib's http_api_path (and its query limit, which must be adopted either way)
    let mut d1 = d0(); d1.rib.as_mut().unwrap().path = 1; d1.rib.as_mut().unwrap().v4 = 16;
    let w = vec![ld(&d0()), LEv::Connect { r: 0, port: 0 }, LEv::Route { r: 0, active: true, pfx: vec![21] }, ld(&d1)];
    let (e, o, as_written) = witness(dir, &w, aw, Flags { path_ignored: false, ..aw }, rng, rec);
    let path_ignored = as_written;
    if record_them { record(rec, "witness-path", &e, &o); }
    let aw = Flags { path_ignored, ..aw };
    // (2) a router that connects after a reload
    let w = vec![ld(&d0()), LEv::Connect { r: 0, port: 0 }, ld(&d0()), LEv::Connect { r: 1, port: 0 }, LEv::Route { r: 1, active: true, pfx: vec![42] }, LEv::Route { r: 0, active: true, pfx: vec![63] }];
    let (e, o, as_written) = witness(dir, &w, aw, Flags { clone_stale: false, ..aw }, rng, rec);
    let clone_stale = as_written;
    if record_them { record(rec, "witness-clone-sender", &e, &o); }
    let aw = Flags { clone_stale, ..aw };
    // (3) twelve reloads with a router connected to a unit, then that unit's listen address changes. The unit
    //     is not wired to the rib: what happens to a wedged unit's traffic is timing and not looked at.
    let dw = LDoc { bmp: [Some(BmpCfg { port: 0 }), Some(BmpCfg { port: 1 })], rib: Some(RibCfg::plain(vec![0], 8, 0)), nulls: vec![(0, vec![2]), (2, vec![1])], broken: 0 };
    let mut dw2 = dw.clone(); dw2.bmp[1] = Some(BmpCfg { port: 2 });
    let mut w = vec![ld(&dw), LEv::Connect { r: 0, port: 1 }];
    for _ in 0..12 { w.push(ld(&dw)); }
    w.push(ld(&dw2));
    let (e, o, as_written) = witness(dir, &w, aw, Flags { queue_wedge: false, ..aw }, rng, rec);
    let queue_wedge = as_written;
    if record_them { record(rec, "witness-queue-wedge", &e, &o); }
    let f = Flags { path_ignored, clone_stale, queue_wedge };
    // (4) the reconfigure window, forced: the gate is held right after it installed the empty subscriber set
    if record_them {
        let w = vec![ld(&d0()), LEv::Connect { r: 0, port: 0 }, LEv::Route { r: 0, active: true, pfx: vec![21] },
            LEv::Load { doc: d0(), forced: true, residue: BTreeSet::new(), moved: BTreeSet::new(), racing: vec![Race { r: 0, active: true, pfx: vec![42, 63], lost: vec![] }] },
            LEv::Route { r: 0, active: true, pfx: vec![84] }];
        let (e, o) = run_real(dir, &w, &default_ids(), f, rng, rec);
        record(rec, "witness-forced-window", &e, &o);
    }
    // (5) the query wiring of virtual RIBs: a rib in the `filter_names` shorthand (two generated virtual RIBs) and a
    //     hand-written one, routes, a reload of the unchanged file, a reload with one name less, one with one more
    if record_them {
        let mut dv = d0(); { let r = dv.rib.as_mut().unwrap(); r.filters = 3; r.vr = true; }
        let mut dv2 = dv.clone(); dv2.rib.as_mut().unwrap().filters = 2;
        let w = vec![ld(&dv), LEv::Connect { r: 0, port: 0 }, LEv::Route { r: 0, active: true, pfx: vec![21, 42] }, ld(&dv),
            LEv::Route { r: 0, active: true, pfx: vec![63] }, ld(&dv2), LEv::Route { r: 0, active: false, pfx: vec![21] }, ld(&dv)];
        let (e, o) = run_real(dir, &w, &default_ids(), f, rng, rec);
        record(rec, "witness-vrib-query-wiring", &e, &o);
    }
    f
}

/// The generated streams: `n_seq` sequential cases, `n_race` cases whose reloads race with announcements.
pub fn streams(dir: &std::path::Path, f: Flags, rng: &mut Rng, rec: &mut Recorder, n_seq: usize, n_race: usize, deadline: Instant) {
    for k in 0..(n_seq + n_race) {
        if Instant::now() > deadline { rec.bump("live.stopped-by-time-budget"); break; }
        let racing = k >= n_seq;
        let (evs, ids) = gen_case(rng, racing);
        let (e, o) = run_real(dir, &evs, &ids, f, rng, rec);
        record(rec, if racing { "racing" } else { "sequential" }, &e, &o);
    }
}

pub fn replay(dir: &std::path::Path, line: &str, f: Flags, rng: &mut Rng, rec: &mut Recorder) {
    if let Some(evs) = parse_case(line) {
        let (e, o) = run_real(dir, &evs, &default_ids(), f, rng, rec);
        record(rec, "replay", &e, &o);
    }
}

pub fn debug_main() {
    let dir = std::env::temp_dir().join(format!("verif-c13l-{}", std::process::id()));
    std::fs::create_dir_all(&dir).unwrap();
    let mut rng = Rng::new(std::env::var("VERIF_SEED").ok().and_then(|s| s.parse().ok()).unwrap_or(1));
    let mut rec = Recorder::new("debug");
    let f = Flags { path_ignored: true, clone_stale: true, queue_wedge: true };
    let t0 = Instant::now();
    if let Ok(c) = std::env::var("CASE") {
        let evs = parse_case(&c).expect("case");
        let ids: Vec<u16> = (0..12).map(|i| i * 21 % 256).collect();
        for k in 0..10 {
            let t = Instant::now();
            let (evs2, obs) = run_real(&dir, &evs, &ids, f, &mut rng, &mut rec);
            eprintln!("run {k} ({:?}): {}", t.elapsed(), case_line(&evs2));
            if std::env::var("VERBOSE").is_ok() { for (e, o) in evs2.iter().zip(obs.iter()) { eprintln!("    {:<44} {}", e.show(), o.show()); } }
            eprintln!("  oracle: {}", oracle(&evs2, &obs));
        }
        return;
    }
    for k in 0..30 {
        let (evs, ids) = gen_case(&mut rng, k % 2 == 1);
        let t = Instant::now();
        let (evs2, obs) = run_real(&dir, &evs, &ids, f, &mut rng, &mut rec);
        eprintln!("case {k} ({:?}): {}", t.elapsed(), case_line(&evs2));
        for (e, o) in evs2.iter().zip(obs.iter()) { eprintln!("    {:<44} {}", e.show(), o.show()); }
        eprintln!("  oracle: {}", oracle(&evs2, &obs));
    }
    eprintln!("total {:?}", t0.elapsed());
    let _ = std::fs::remove_dir_all(&dir);
}
