//! C13, executed part: a really spawned pipeline (`Manager::load` -> `prepare` -> `spawn`, i.e.
//! the real `Unit::run` tasks on a tokio runtime), real BMP-over-TCP sessions into the
//! `bmp-tcp-in` units, (re)loads of edited configurations, and the RIB content / the registered
//! HTTP endpoints / the router sessions / the listening sockets observed from outside through
//! the real `Server::handle_request` and plain TCP.
//!
//! Included by `src/bin/c13.rs` via `#[path]` (it is not part of the library).
use std::collections::{BTreeMap, BTreeSet};
use std::io::{Read, Write};
use std::net::{SocketAddr, TcpListener, TcpStream};
use std::panic::{catch_unwind, AssertUnwindSafe};
use std::sync::atomic::{AtomicBool, Ordering};
use std::sync::Arc;
use std::time::{Duration, Instant};

use bytes::Bytes;
use hyper::{Body, Request};
use rotonda::bgp::encode::{mk_initiation_msg, mk_raw_route_monitoring_msg};
use rotonda::verif::http as vh;
use rotonda::verif::manager as vm;
use verif_harness::rib::{encode_update, BmpPeer, BmpRouter, Nlri, Pfx, Safi, Upd};
use verif_harness::{join, rng::Rng, Recorder};

// ------------------------------------------------------------------ abstract documents

/// The settings of one `bmp-tcp-in` unit: which of the case's ports it listens on.
#[derive(Clone, Debug, PartialEq)]
pub struct BmpCfg { pub port: u8 }
/// The settings of the `rib` unit the engine can observe from outside.
#[derive(Clone, Debug, PartialEq)]
pub struct RibCfg { pub sources: Vec<u8>, pub v4: u8, pub path: u8 }
#[derive(Clone, Debug, PartialEq)]
pub struct LDoc {
    /// `b0`, `b1`
    pub bmp: [Option<BmpCfg>; 2],
    pub rib: Option<RibCfg>,
    /// null-out targets: name id -> sources (0/1 = b0/b1, 2 = rib)
    pub nulls: Vec<(u8, Vec<u8>)>,
    /// 0 = fine, 1 = not TOML, 2 = a target with an unknown type
    pub broken: u8,
}

pub const PATHS: [&str; 2] = ["/prefixes/", "/rib2/"];

fn unit_name(i: u8) -> &'static str { match i { 0 => "b0", 1 => "b1", _ => "rib" } }

impl LDoc {
    pub fn show(&self) -> String {
        let b = |x: &Option<BmpCfg>| x.as_ref().map(|c| c.port.to_string()).unwrap_or("-".into());
        let r = self.rib.as_ref().map(|r| format!("{}.{}.{}", join(r.sources.iter(), "+"), r.v4, r.path)).unwrap_or("-".into());
        format!("{},{},{},{},{}", b(&self.bmp[0]), b(&self.bmp[1]), r, join(self.nulls.iter().map(|(n, s)| format!("{}:{}", n, join(s.iter(), "+"))), ";"), self.broken)
    }
    pub fn parse(s: &str) -> Option<LDoc> {
        let f: Vec<&str> = s.split(',').collect();
        if f.len() != 5 { return None; }
        let b = |x: &str| if x == "-" { Some(None) } else { x.parse().ok().map(|p| Some(BmpCfg { port: p })) };
        let nums = |x: &str| -> Option<Vec<u8>> { if x.is_empty() { Some(vec![]) } else { x.split('+').map(|y| y.parse().ok()).collect() } };
        let rib = if f[2] == "-" { None } else {
            let g: Vec<&str> = f[2].split('.').collect();
            if g.len() != 3 { return None; }
            Some(RibCfg { sources: nums(g[0])?, v4: g[1].parse().ok()?, path: g[2].parse().ok()? })
        };
        let mut nulls = vec![];
        if !f[3].is_empty() { for t in f[3].split(';') { let (n, s) = t.split_once(':')?; nulls.push((n.parse().ok()?, nums(s)?)); } }
        Some(LDoc { bmp: [b(f[0])?, b(f[1])?], rib, nulls, broken: f[4].parse().ok()? })
    }
    pub fn render(&self, ports: &[u16]) -> String {
        let mut s = String::from("http_listen = [\"127.0.0.1:0\"]\n");
        for (i, b) in self.bmp.iter().enumerate() {
            if let Some(c) = b { s.push_str(&format!("\n[units.b{}]\ntype = \"bmp-tcp-in\"\nlisten = \"127.0.0.1:{}\"\nhttp_api_path = \"/routers{}/\"\n", i, ports[c.port as usize], i)); }
        }
        if let Some(r) = &self.rib {
            s.push_str(&format!("\n[units.rib]\ntype = \"rib\"\nsources = [{}]\nhttp_api_path = \"{}\"\n", join(r.sources.iter().map(|x| format!("\"{}\"", unit_name(*x))), ", "), PATHS[r.path as usize]));
            s.push_str(&format!("\n[units.rib.query_limits.more_specifics]\nshortest_prefix_ipv4 = {}\nshortest_prefix_ipv6 = 19\n", r.v4));
        }
        if self.bmp.iter().all(|b| b.is_none()) && self.rib.is_none() { s.push_str("\n[units]\n"); }
        for (n, srcs) in &self.nulls {
            s.push_str(&format!("\n[targets.t{}]\ntype = \"null-out\"\nsources = [{}]\n", n, join(srcs.iter().map(|x| format!("\"{}\"", unit_name(*x))), ", ")));
        }
        if self.nulls.is_empty() { s.push_str("\n[targets]\n"); }
        match self.broken { 1 => s.push_str("\n[[[ not toml\n"), 2 => s.push_str("\n[targets.zz]\ntype = \"no-such-type\"\nsources = [\"b0\"]\n"), _ => {} }
        s
    }
    /// referenced units (what must run after a successful load), `None` if a link is unresolved
    pub fn referenced(&self) -> Option<BTreeSet<u8>> {
        let mut refs = BTreeSet::new();
        for (_, s) in &self.nulls { refs.extend(s.iter().cloned()); }
        if let Some(r) = &self.rib { refs.extend(r.sources.iter().cloned()); }
        for r in &refs { let present = match r { 0 | 1 => self.bmp[*r as usize].is_some(), _ => self.rib.is_some() }; if !present { return None; } }
        Some(refs)
    }
    pub fn valid(&self) -> bool {
        self.broken == 0 && self.referenced().is_some() && self.rib.as_ref().map(|r| !r.sources.is_empty() && r.sources.iter().all(|s| *s < 2)).unwrap_or(true)
            && self.nulls.iter().all(|(_, s)| !s.is_empty())
    }
}

// ------------------------------------------------------------------ events

#[derive(Clone, Debug, PartialEq)]
pub enum LEv {
    /// router `r` opens a TCP session to the port with index `port` and sends Initiation + Peer Up
    Connect { r: u8, port: u8 },
    /// router `r` announces / withdraws prefixes (one Route Monitoring message)
    Ann { r: u8, pfx: Vec<u16> },
    Wd { r: u8, pfx: Vec<u16> },
    /// (re)load a document; `racing` = routers and prefixes announced *while* the load runs
    Load { doc: LDoc, racing: Vec<(u8, Vec<u16>)> },
}

impl LEv {
    pub fn show(&self) -> String {
        match self {
            LEv::Connect { r, port } => format!("c{}@{}", r, port),
            LEv::Ann { r, pfx } => format!("a{}:{}", r, join(pfx.iter(), "+")),
            LEv::Wd { r, pfx } => format!("w{}:{}", r, join(pfx.iter(), "+")),
            LEv::Load { doc, racing } => format!("L{}!{}", doc.show(), join(racing.iter().map(|(r, p)| format!("{}:{}", r, join(p.iter(), "+"))), ";")),
        }
    }
    pub fn parse(s: &str) -> Option<LEv> {
        let nums = |x: &str| -> Option<Vec<u16>> { if x.is_empty() { Some(vec![]) } else { x.split('+').map(|y| y.parse().ok()).collect() } };
        let (k, rest) = s.split_at(1);
        match k {
            "c" => { let (r, p) = rest.split_once('@')?; Some(LEv::Connect { r: r.parse().ok()?, port: p.parse().ok()? }) }
            "a" => { let (r, p) = rest.split_once(':')?; Some(LEv::Ann { r: r.parse().ok()?, pfx: nums(p)? }) }
            "w" => { let (r, p) = rest.split_once(':')?; Some(LEv::Wd { r: r.parse().ok()?, pfx: nums(p)? }) }
            "L" => {
                let (d, race) = rest.split_once('!')?;
                let mut racing = vec![];
                if !race.is_empty() { for t in race.split(';') { let (r, p) = t.split_once(':')?; racing.push((r.parse().ok()?, nums(p)?)); } }
                Some(LEv::Load { doc: LDoc::parse(d)?, racing })
            }
            _ => None,
        }
    }
}

/// prefix id -> 10.(id / 64).(id % 64).0/24
pub fn pfx_of(id: u16) -> Pfx { Pfx::v4([10, (id / 64) as u8, (id % 64) as u8, 0], 24) }
fn pfx_str(id: u16) -> String { format!("10.{}.{}.0/24", id / 64, id % 64) }

// ------------------------------------------------------------------ the real pipeline

pub struct Router { pub sock: TcpStream, pub peer: BmpPeer, pub port: u8, pub alive: bool }

pub struct Live {
    pub rt: tokio::runtime::Runtime,
    pub manager: vm::Manager,
    pub dir: std::path::PathBuf,
    pub ports: Vec<u16>,
    pub routers: BTreeMap<u8, Router>,
    marker: u16,
}

#[derive(Debug, PartialEq, Clone)]
pub enum LoadRes { Ok, Err, Panic }

fn free_ports(n: usize) -> Vec<u16> {
    // bind n listeners at once so the ports are distinct, then release them
    let ls: Vec<TcpListener> = (0..n).filter_map(|_| TcpListener::bind("127.0.0.1:0").ok()).collect();
    ls.iter().filter_map(|l| l.local_addr().ok().map(|a| a.port())).collect()
}

impl Live {
    pub fn new(dir: &std::path::Path) -> Live {
        let rt = tokio::runtime::Builder::new_multi_thread().worker_threads(2).enable_all().build().unwrap();
        let _g = rt.enter();
        vm::reset_loader();
        let manager = vm::Manager::new();
        drop(_g);
        Live { rt, manager, dir: dir.to_path_buf(), ports: free_ports(3), routers: BTreeMap::new(), marker: 0 }
    }

    /// The real load path of `main.rs`: `ConfigFile::new` -> `Manager::load` -> `prepare` -> `spawn`.
    pub fn load(&mut self, doc: &LDoc) -> LoadRes {
        let _g = self.rt.enter();
        let text = doc.render(&self.ports);
        let path = self.dir.join("rotonda.conf");
        let file = match catch_unwind(AssertUnwindSafe(|| vm::ConfigFile::new(text.into_bytes(), vm::Source::from(&path)))) {
            Err(_) => return LoadRes::Panic, Ok(Err(_)) => return LoadRes::Err, Ok(Ok(f)) => f,
        };
        let mut config = match catch_unwind(AssertUnwindSafe(|| self.manager.load(&file))) {
            Err(_) => return LoadRes::Panic, Ok(Err(_)) => return LoadRes::Err, Ok(Ok(c)) => c,
        };
        match catch_unwind(AssertUnwindSafe(|| self.manager.prepare(&config, &file))) {
            Err(_) => return LoadRes::Panic, Ok(Err(_)) => return LoadRes::Err, Ok(Ok(())) => {}
        }
        match catch_unwind(AssertUnwindSafe(|| self.manager.spawn(&mut config))) { Err(_) => LoadRes::Panic, Ok(()) => LoadRes::Ok }
    }

    pub fn get(&self, target: &str) -> (u16, String) {
        let req = Request::builder().method("GET").uri(target).body(Body::empty()).unwrap();
        let resources = self.manager.http_resources();
        let metrics = self.manager.metrics();
        let r = catch_unwind(AssertUnwindSafe(|| self.rt.block_on(async {
            let res = vh::handle_request(req, &metrics, &resources).await;
            let status = res.status().as_u16();
            let body = hyper::body::to_bytes(res.into_body()).await.map(|b| b.to_vec()).unwrap_or_default();
            (status, String::from_utf8_lossy(&body).into_owned())
        })));
        r.unwrap_or((599, "panic".into()))
    }

    /// TCP connect (bounded wait: the unit may still be binding) + Initiation + Peer Up.
    pub fn connect(&mut self, r: u8, port: u8, wait_ms: u64) -> bool {
        let addr: SocketAddr = format!("127.0.0.1:{}", self.ports[port as usize]).parse().unwrap();
        // each router comes from its own loopback address: the unit keys routers by remote IP
        let t0 = Instant::now();
        let sock = loop {
            match connect_from(&format!("127.0.0.{}", 10 + r), addr) {
                Ok(s) => break Some(s),
                Err(_) if t0.elapsed() < Duration::from_millis(wait_ms) => std::thread::sleep(Duration::from_millis(3)),
                Err(_) => break None,
            }
        };
        let Some(mut sock) = sock else { return false };
        let peer = BmpPeer::plain(r as u32);
        let _ = sock.set_nodelay(true);
        let ok = sock.write_all(&mk_initiation_msg(&format!("router{r}"), "verif")).is_ok() && sock.write_all(&BmpRouter::peer_up_msg(&peer)).is_ok();
        self.routers.insert(r, Router { sock, peer, port, alive: ok });
        ok
    }

    pub fn send(&mut self, r: u8, ann: &[u16], wd: &[u16]) -> bool {
        let Some(rt) = self.routers.get_mut(&r) else { return false };
        let msg = rm_msg(&rt.peer, ann, wd);
        let ok = rt.sock.write_all(&msg).is_ok();
        if !ok { rt.alive = false; }
        ok
    }

    /// Has the peer closed the session (EOF / reset)? Non-blocking probe.
    pub fn session_closed(&mut self, r: u8) -> bool {
        let Some(rt) = self.routers.get_mut(&r) else { return true };
        let _ = rt.sock.set_nonblocking(true);
        let mut b = [0u8; 16];
        let res = match rt.sock.read(&mut b) { Ok(0) => true, Ok(_) => false, Err(e) => e.kind() != std::io::ErrorKind::WouldBlock };
        let _ = rt.sock.set_nonblocking(false);
        res
    }

    pub fn port_accepts(&self, port: u8) -> bool {
        let addr: SocketAddr = format!("127.0.0.1:{}", self.ports[port as usize]).parse().unwrap();
        TcpStream::connect_timeout(&addr, Duration::from_millis(200)).is_ok()
    }

    /// All records below 10.0.0.0/8 as sorted `(prefix, status)` with multiplicity, through the
    /// HTTP API at `path` with the given more-specifics limit. `None`: no such endpoint (404).
    pub fn rib_content(&self, path: &str, v4: u8) -> Option<Vec<(String, String)>> {
        let mut out = vec![];
        let queries: Vec<String> = if v4 <= 8 { vec![format!("{path}10.0.0.0/8?include=moreSpecifics")] } else { (0..4).map(|a| format!("{path}10.{a}.0.0/16?include=moreSpecifics")).collect() };
        for q in queries {
            let (st, body) = self.get(&q);
            if st != 200 { return None; }
            let v: serde_json::Value = serde_json::from_str(&body).ok()?;
            for rec in v["included"]["moreSpecifics"].as_array()? {
                out.push((rec["prefix"].as_str().unwrap_or("?").to_string(), rec["status"].as_str().unwrap_or("?").to_string()));
            }
        }
        out.sort();
        Some(out)
    }
}

fn connect_from(src_ip: &str, dst: SocketAddr) -> std::io::Result<TcpStream> {
    // std has no bind-before-connect; tokio's TcpSocket has
    let src: SocketAddr = format!("{src_ip}:0").parse().unwrap();
    let rt = tokio::runtime::Builder::new_current_thread().enable_all().build()?;
    let s = rt.block_on(async {
        let sock = tokio::net::TcpSocket::new_v4()?;
        sock.bind(src)?;
        tokio::time::timeout(Duration::from_millis(300), sock.connect(dst)).await.map_err(|_| std::io::Error::from(std::io::ErrorKind::TimedOut))?
    })?;
    let std = s.into_std()?;
    std.set_nonblocking(false)?;
    Ok(std)
}

pub fn rm_msg(peer: &BmpPeer, ann: &[u16], wd: &[u16]) -> Bytes {
    let n = |id: &u16| Nlri { pfx: pfx_of(*id), safi: Safi::U };
    let u = Upd { attr: 1, ann: ann.iter().map(n).collect(), wd: wd.iter().map(n).collect(), mp4: false, corrupt: 0 };
    let (pdu, _) = encode_update(&u).expect("encodable");
    mk_raw_route_monitoring_msg(&peer.pph(), Bytes::from(pdu))
}

impl Live {
    /// exact-match records of the prefixes `ids` as sorted `id:status` with multiplicity
    pub fn content(&self, path: &str, ids: &[u16]) -> Option<Vec<String>> {
        let mut out = vec![];
        for id in ids {
            let (st, body) = self.get(&format!("{}{}", path, pfx_str(*id)));
            if st != 200 { return None; }
            let v: serde_json::Value = serde_json::from_str(&body).ok()?;
            for rec in v["data"].as_array()? { out.push(format!("{}:{}", id, rec["status"].as_str().unwrap_or("?"))); }
        }
        out.sort();
        Some(out)
    }
}

pub fn debug_main() {
    let dir = std::env::temp_dir().join(format!("verif-c13l-{}", std::process::id()));
    std::fs::create_dir_all(&dir).unwrap();
    let d0 = LDoc { bmp: [Some(BmpCfg { port: 0 }), None], rib: Some(RibCfg { sources: vec![0], v4: 8, path: 0 }), nulls: vec![(0, vec![2])], broken: 0 };
    let ids: Vec<u16> = (0..8).collect();
    for variant in 0..5 {
        let mut l = Live::new(&dir);
        let t = Instant::now();
        eprintln!("--- variant {variant}: load0 {:?}", l.load(&d0));
        eprintln!("connect {} {:?}", l.connect(0, 0, 2000), t.elapsed());
        l.send(0, &[1, 2], &[]);
        for _ in 0..1000 { if let Some(c) = l.content(PATHS[0], &ids) { if c.len() >= 2 { break; } } std::thread::sleep(Duration::from_millis(1)); }
        eprintln!("content {:?} {:?}", l.content(PATHS[0], &ids), t.elapsed());
        let mut d1 = d0.clone();
        match variant { 0 => {}, 1 => d1.rib.as_mut().unwrap().v4 = 16, 2 => d1.bmp[0].as_mut().unwrap().port = 1, 3 => d1.nulls.push((1, vec![2])), _ => d1.rib.as_mut().unwrap().path = 1 }
        eprintln!("load1 {:?} {:?}", l.load(&d1), t.elapsed());
        l.send(0, &[3], &[]);
        for w in [1u64, 10, 100, 500] {
            std::thread::sleep(Duration::from_millis(w));
            eprintln!("  +{w}ms content {:?} / new path {:?}", l.content(PATHS[0], &ids), l.content(PATHS[1], &ids));
        }
        l.send(0, &[4], &[]);
        std::thread::sleep(Duration::from_millis(100));
        eprintln!("  later content {:?}", l.content(PATHS[0], &ids));
        eprintln!("  limit probe {:?}", l.get("/prefixes/10.0.0.0/8?include=moreSpecifics").0);
        eprintln!("  port0 accepts {} port1 accepts {} closed {}", l.port_accepts(0), l.port_accepts(1), l.session_closed(0));
    }
    let _ = std::fs::remove_dir_all(&dir);
    let _ = (Arc::new(AtomicBool::new(false)).load(Ordering::SeqCst), Rng::new(1).below(2), Recorder::new("x").cases.len());
}
