//! Shared by the C05 / C15 engines: builds real BMP messages, asks the real
//! parser (routecore + rotonda's explode functions) for the tokens the Lean
//! model takes as input, and steps the real `BmpState` through
//! `rotonda::verif::bmp_sm::BmpStepper`.
use std::net::IpAddr;
use std::str::FromStr;

use bytes::Bytes;
use inetnum::asn::Asn;
use rotonda::bgp::encode::{self, Announcements, Prefixes};
use rotonda::payload::Update;
use rotonda::roto_runtime::types::RouteContext;
use rotonda::verif::bmp_sm::{BmpStepper, SmMetrics, StepOutcome};
use rotonda_store::prelude::multi::RouteStatus;
use routecore::bgp::message::update::FourOctetAsns;
use routecore::bgp::message::SessionConfig;
use routecore::bmp::message::{Message as BmpMsg, PeerType};

/// The header population: `(address, asn, bgp id, flags, peer type)`.
/// 0 and 1 are unrelated peers; 2 differs from 0 only in the BGP id, 3 only in
/// the L (post-policy) flag — both share 0's ingress-register key; 4 differs
/// from 1 in the O (adj-rib-out) flag, which is part of the key.
pub const NHDR: usize = 5;
pub fn header(i: usize) -> encode::PerPeerHeader {
    let (addr, asn, id, flags) = match i {
        0 => ("10.0.0.1", 65001, [1, 1, 1, 1], 0u8),
        1 => ("10.0.0.2", 65002, [2, 2, 2, 2], 0),
        2 => ("10.0.0.1", 65001, [1, 1, 1, 2], 0),
        3 => ("10.0.0.1", 65001, [1, 1, 1, 1], 0x40),
        _ => ("10.0.0.2", 65002, [2, 2, 2, 2], 0x10),
    };
    encode::PerPeerHeader {
        peer_type: PeerType::GlobalInstance.into(),
        peer_flags: flags,
        peer_distinguisher: [0u8; 8],
        peer_address: addr.parse::<IpAddr>().unwrap(),
        peer_as: Asn::from_u32(asn),
        peer_bgp_id: id,
    }
}
/// Ingress-register key class (address, ASN, RIB type) of every header,
/// computed here from the header fields (not from rotonda).
pub fn key_classes() -> Vec<usize> {
    let mut seen: Vec<(IpAddr, u32, u8)> = vec![];
    (0..NHDR)
        .map(|i| {
            let h = header(i);
            let rib = if u8::from(*h.peer_type) == 3 { 2 } else if h.peer_flags & 0x10 != 0 { 1 } else { 0 };
            let k = (h.peer_address, h.peer_as.into_u32(), rib);
            match seen.iter().position(|s| *s == k) {
                Some(p) => p,
                None => { seen.push(k); seen.len() - 1 }
            }
        })
        .collect()
}

#[derive(Clone, Debug, PartialEq)]
pub enum Spec {
    Init,
    PeerUp(usize, bool),
    PeerDown(usize),
    Rm(usize, String),
    Stats(usize),
    Mirror(usize),
    Term,
}

// ------------------------------------------------------------------ raw BGP
fn attr(flags: u8, typ: u8, val: &[u8]) -> Vec<u8> {
    let mut v = vec![flags, typ, val.len() as u8];
    v.extend_from_slice(val);
    v
}
fn nlri_v4(n: usize, base: u8) -> Vec<u8> {
    let mut v = vec![];
    for i in 0..n { v.extend_from_slice(&[24, 10, base, i as u8]); }
    v
}
fn as_path(asns: &[u32], four: bool) -> Vec<u8> {
    let mut v = vec![2u8, asns.len() as u8];
    for a in asns {
        if four { v.extend_from_slice(&a.to_be_bytes()) } else { v.extend_from_slice(&(*a as u16).to_be_bytes()) }
    }
    attr(0x40, 2, &v)
}
fn std_attrs(four: bool) -> Vec<u8> {
    let mut v = attr(0x40, 1, &[0]);
    v.extend(as_path(&[65010, 65020], four));
    v.extend(attr(0x40, 3, &[10, 0, 0, 9]));
    v
}
fn raw_update(wd: &[u8], attrs: &[u8], nlri: &[u8]) -> Bytes {
    let mut b = vec![0xFFu8; 16];
    b.extend_from_slice(&[0, 0, 2]);
    b.extend_from_slice(&(wd.len() as u16).to_be_bytes());
    b.extend_from_slice(wd);
    b.extend_from_slice(&(attrs.len() as u16).to_be_bytes());
    b.extend_from_slice(attrs);
    b.extend_from_slice(nlri);
    let l = (b.len() as u16).to_be_bytes();
    b[16] = l[0];
    b[17] = l[1];
    Bytes::from(b)
}
const MP_UNREACH_V6_EMPTY: [u8; 6] = [0x80, 15, 3, 0, 2, 1];

fn v4_list(n: usize, base: u8) -> String {
    (0..n).map(|i| format!("10.{base}.{i}.0/24")).collect::<Vec<_>>().join(",")
}
fn v6_list(n: usize) -> String {
    (0..n).map(|i| format!("2001:db8:{i}::/48")).collect::<Vec<_>>().join(",")
}

/// The catalogue of Route Monitoring payloads. `kind` is `<letter><n>`.
pub fn rm_bgp(kind: &str) -> Option<Bytes> {
    let (k, n) = kind.split_at(1);
    let n: usize = n.parse().ok()?;
    let none = Prefixes::default();
    Some(match k {
        "a" => encode::mk_bgp_update(&none, &Announcements::from_str(&format!("e [123,456,789] 10.0.0.9 BLACKHOLE,123:44 {}", v4_list(n, 1))).ok()?, &[]),
        "w" => encode::mk_bgp_update(&Prefixes::from_str(&v4_list(n, 1)).ok()?, &Announcements::None, &[]),
        "x" => encode::mk_bgp_update(&Prefixes::from_str(&v4_list(1, 2)).ok()?, &Announcements::from_str(&format!("e [123,456] 10.0.0.9 none {}", v4_list(n, 3))).ok()?, &[]),
        "A" => encode::mk_bgp_update(&none, &Announcements::from_str(&format!("e [123,456,789] 2001:db8::9 none {}", v6_list(n))).ok()?, &[]),
        "W" => encode::mk_bgp_update(&Prefixes::from_str(&v6_list(n)).ok()?, &Announcements::None, &[]),
        "e" => match n {
            4 => encode::mk_bgp_update(&none, &Announcements::None, &[]),
            _ => raw_update(&[], &MP_UNREACH_V6_EMPTY, &[]),
        },
        // an empty MP_UNREACH_NLRI (what `is_eor()` keys on) next to ordinary IPv4 routes
        "E" => { let mut a = std_attrs(true); a.extend_from_slice(&MP_UNREACH_V6_EMPTY); raw_update(&[], &a, &nlri_v4(n, 4)) }
        "F" => raw_update(&nlri_v4(n, 5), &MP_UNREACH_V6_EMPTY, &[]),
        "t" => raw_update(&[], &std_attrs(false), &nlri_v4(n, 6)),
        "f" => raw_update(&[], &std_attrs(true), &nlri_v4(n, 7)),
        "b" => match n {
            0 => { let mut b = raw_update(&[], &std_attrs(true), &nlri_v4(1, 8)).to_vec(); b[22] = 0xFF; Bytes::from(b) } // attribute length beyond the PDU
            1 => {
                // MP_REACH_NLRI with reserved AFI 0xFFFF (from rotonda's own ignored test)
                let a = hex("900e0024FFFF4604C0A800010001190001C0A8000100070003030303030303030100000000000000");
                encode::mk_bgp_update(&none, &Announcements::from_str("e [123,456,789] 10.0.0.9 none 10.9.0.0/24").ok()?, &a)
            }
            2 => raw_update(&[], &[0x40, 2, 3, 2, 9, 0], &nlri_v4(1, 8)), // AS_PATH segment longer than the attribute
            _ => raw_update(&[8], &[], &[]),                              // withdrawn prefix cut short
        },
        _ => return None,
    })
}
fn hex(s: &str) -> Vec<u8> {
    (0..s.len() / 2).map(|i| u8::from_str_radix(&s[2 * i..2 * i + 2], 16).unwrap()).collect()
}
pub const RM_KINDS: &[&str] = &["a1", "a3", "w1", "w2", "x2", "A2", "W1", "e4", "e6", "E2", "F1", "t2", "f2", "b0", "b1", "b2", "b3"];

fn cfg(four: bool) -> SessionConfig {
    let mut c = SessionConfig::modern();
    c.set_four_octet_asns(FourOctetAsns(four));
    c
}

/// What the real parser says about one Route Monitoring message, as the token
/// fields `<p4><p2>.<eor|->.<pure>.na.nw.fa.<xok><avok>`. `None` when the two
/// session configs both parse but disagree on the content (then the message is
/// not used: the model takes the content as independent of the config).
pub fn rm_fields(msg: &Bytes) -> Option<String> {
    let BmpMsg::RouteMonitoring(rm) = BmpMsg::from_octets(msg.clone()).ok()? else { return None };
    let content = |four: bool| -> Option<String> {
        let u = rm.bgp_update(&cfg(four)).ok()?;
        let afi_num = |a: routecore::bgp::types::AfiSafiType| { let (x, y): (u16, u8) = a.into(); x as u32 * 256 + y as u32 };
        let eor = match u.is_eor() { Ok(Some(a)) => afi_num(a).to_string(), _ => "-".into() };
        let no_ann = u.announcements().map(|mut i| i.next().is_none()).unwrap_or(false);
        let no_wd = u.withdrawals().map(|mut i| i.next().is_none()).unwrap_or(false);
        let xa = rotonda::verif::codec::explode_announcements(&u);
        let xw = rotonda::verif::codec::explode_withdrawals(&u);
        let xok = xa.is_ok() && xw.is_ok();
        let na = xa.map(|v| v.len()).unwrap_or(0);
        let nw = xw.map(|v| v.len()).unwrap_or(0);
        let av = u.announcements_vec();
        let avok = av.is_ok();
        let fa = av.ok().and_then(|v| v.first().map(|n| afi_num(n.afi_safi()))).unwrap_or(0);
        Some(format!("{eor}.{}.{na}.{nw}.{fa}.{}{}", (no_ann && no_wd) as u8, xok as u8, avok as u8))
    };
    let (c4, c2) = (content(true), content(false));
    let body = match (&c4, &c2) {
        (Some(a), Some(b)) if a != b => return None,
        (Some(a), _) => a.clone(),
        (None, Some(b)) => b.clone(),
        (None, None) => "-.0.0.0.0.00".into(),
    };
    Some(format!("{}{}.{}", c4.is_some() as u8, c2.is_some() as u8, body))
}

pub struct Built { pub token: String, pub bytes: Bytes }

thread_local! { static FLAVOUR: std::cell::Cell<(u64, u64)> = const { std::cell::Cell::new((0, 0)) }; }

/// Wire-level variation that the message tokens do not show (and the state machine must not care about): with a
/// non-zero salt every message built afterwards on this thread gets a per-peer-header timestamp of 0 ("unavailable"),
/// a small or a large one — so a Peer Down can be older than its Peer Up — and a Peer Down carries any of the reason
/// codes 1-6 (NOTIFICATION PDU, FSM event code, no data, RFC 9069 TLV). The choice is a function of the salt and the
/// number of messages built since, so a case replays byte for byte when the salt is derived from the case itself
/// (`flavour_of`). Salt 0 = the encode helpers' plain messages.
pub fn set_flavour(salt: u64) { FLAVOUR.with(|f| f.set((salt, 0))); }
pub fn flavour_of(specs: &[Spec]) -> u64 {
    let mut h: u64 = 0xcbf29ce484222325;
    for b in format!("{specs:?}").bytes() { h ^= b as u64; h = h.wrapping_mul(0x100000001b3); }
    h | 1
}
fn next_choice() -> Option<u64> {
    FLAVOUR.with(|f| { let (salt, n) = f.get(); if salt == 0 { return None; } f.set((salt, n + 1));
        let mut z = salt.wrapping_add(n.wrapping_mul(0x9E3779B97F4A7C15)); z = (z ^ (z >> 30)).wrapping_mul(0xBF58476D1CE4E5B9); z = (z ^ (z >> 27)).wrapping_mul(0x94D049BB133111EB); Some(z ^ (z >> 31)) })
}
pub fn flavoured(bytes: Bytes) -> Bytes {
    let Some(r) = next_choice() else { return bytes };
    let mut b = bytes.to_vec();
    let typ = b.get(5).copied().unwrap_or(255);
    if b.len() >= 48 && matches!(typ, 0 | 1 | 2 | 3 | 6) {
        let ts: u32 = match r % 4 { 0 => 0, 1 => 1_000, 2 => 1_700_000_000, _ => 2_000_000_000 };
        b[40..44].copy_from_slice(&ts.to_be_bytes()); b[44..48].copy_from_slice(&0u32.to_be_bytes());
    }
    if typ == 2 && b.len() >= 49 {
        let notif = |code: u8, sub: u8| { let mut v = vec![0xffu8; 16]; v.extend([0, 21, 3, code, sub]); v };
        b.truncate(48);
        match (r >> 8) % 7 {
            0 => { b.push(1); b.extend(notif(6, 2)); }
            1 => { b.push(2); b.extend([0, 9]); }
            2 => { b.push(3); b.extend(notif(6, 4)); }
            3 => b.push(4),
            4 => b.push(5),
            5 => { b.push(6); b.extend([0, 3, 0, 4, b'v', b'r', b'f', b'1']); }
            _ => { b.push(3); b.extend(notif(4, 0)); }
        }
        let n = b.len() as u32; b[1..5].copy_from_slice(&n.to_be_bytes());
    }
    Bytes::from(b)
}

/// Real bytes + model token for one message.
pub fn build(spec: &Spec) -> Option<Built> {
    let mut b = build_plain(spec)?;
    if !matches!(spec, Spec::Rm(..)) { b.bytes = flavoured(b.bytes); }
    Some(b)
}

fn build_plain(spec: &Spec) -> Option<Built> {
    Some(match spec {
        Spec::Init => Built { token: "i".into(), bytes: encode::mk_initiation_msg("test-router", "test-desc") },
        Spec::Term => Built { token: "t".into(), bytes: encode::mk_termination_msg() },
        Spec::PeerUp(h, eor) => {
            let bytes = encode::mk_peer_up_notification_msg(&header(*h), "10.0.0.100".parse().unwrap(), 11019, 4567, 111, 222, 0, 0, vec![], *eor);
            // the session config and the GR capability as the real parser reads them
            let BmpMsg::PeerUpNotification(pu) = BmpMsg::from_octets(bytes.clone()).ok()? else { return None };
            let c4 = pu.session_config().four_octet_enabled();
            let gr = pu.bgp_open_rcvd().capabilities().any(|c| c.typ() == routecore::bgp::message::open::CapabilityType::GracefulRestart);
            Built { token: format!("u.{h}.{}.{}", gr as u8, c4 as u8), bytes }
        }
        Spec::PeerDown(h) => Built { token: format!("d.{h}"), bytes: encode::mk_peer_down_notification_msg(&header(*h)) },
        Spec::Stats(h) => Built { token: format!("s.{h}"), bytes: encode::mk_statistics_report_msg(&header(*h)) },
        Spec::Mirror(h) => {
            let mut b = encode::mk_statistics_report_msg(&header(*h)).to_vec();
            b[5] = 6; // Route Mirroring: common header + per-peer header + TLVs
            Built { token: format!("m.{h}"), bytes: Bytes::from(b) }
        }
        Spec::Rm(h, kind) => {
            let bytes = encode::mk_raw_route_monitoring_msg(&header(*h), rm_bgp(kind)?);
            let f = rm_fields(&bytes)?;
            Built { token: format!("r.{h}.{f}.{kind}"), bytes }
        }
    })
}

/// Parse a token of a case line back into a spec (replay).
pub fn parse_token(t: &str) -> Option<Spec> {
    let p: Vec<&str> = t.split('.').collect();
    Some(match p[0] {
        "i" => Spec::Init,
        "t" => Spec::Term,
        "u" => Spec::PeerUp(p.get(1)?.parse().ok()?, *p.get(2)? == "1"),
        "d" => Spec::PeerDown(p.get(1)?.parse().ok()?),
        "s" => Spec::Stats(p.get(1)?.parse().ok()?),
        "m" => Spec::Mirror(p.get(1)?.parse().ok()?),
        "r" => Spec::Rm(p.get(1)?.parse().ok()?, p.last()?.to_string()),
        _ => return None,
    })
}

#[derive(Clone, Debug, PartialEq)]
pub enum Down { Nothing, Routes(u32, usize, usize), WithdrawPeer(u32), WithdrawAll(Vec<u32>), Mixed }

pub struct Obs {
    pub phase: u8,
    /// canonical outcome token (same grammar as the Lean driver)
    pub out: String,
    pub invalid: bool,
    pub down: Down,
    pub fp_before: String,
    pub fp_after: String,
    pub mx: Option<SmMetrics>,
}

pub fn summarize(u: &Update) -> (String, Down) {
    match u {
        Update::Bulk(ps) => {
            let mut ids: Vec<u32> = vec![];
            let (mut na, mut nw) = (0, 0);
            for p in ps.iter() {
                match &p.context {
                    RouteContext::Fresh(c) => {
                        ids.push(c.provenance.ingress_id);
                        match c.status { RouteStatus::Active => na += 1, RouteStatus::Withdrawn => nw += 1, _ => {} }
                    }
                    _ => ids.push(u32::MAX),
                }
            }
            ids.sort(); ids.dedup();
            if ps.is_empty() { ("b.-.0.0".into(), Down::Nothing) }
            else if ids.len() != 1 || na + nw != ps.len() { (format!("b.mixed{ids:?}.{na}.{nw}"), Down::Mixed) }
            else { (format!("b.{}.{na}.{nw}", ids[0]), Down::Routes(ids[0], na, nw)) }
        }
        Update::Withdraw(id, None) => (format!("w.{id}"), Down::WithdrawPeer(*id)),
        Update::Withdraw(id, Some(a)) => (format!("w.{id}.{a:?}"), Down::Mixed),
        Update::WithdrawBulk(ids) => {
            let mut v: Vec<u32> = ids.iter().copied().collect();
            v.sort();
            (format!("wb.{}", v.iter().map(|i| i.to_string()).collect::<Vec<_>>().join(",")), if v.is_empty() { Down::Nothing } else { Down::WithdrawAll(v) })
        }
        Update::Single(_) => ("single".into(), Down::Mixed),
        _ => ("other-update".into(), Down::Mixed),
    }
}

/// Step the real state machine with one message.
pub fn step(st: &mut BmpStepper, bytes: Bytes) -> Obs {
    let fp_before = st.fingerprint();
    let r = std::panic::catch_unwind(std::panic::AssertUnwindSafe(|| st.step(bytes)));
    match r {
        Err(_) => Obs { phase: 9, out: "panic".into(), invalid: false, down: Down::Mixed, fp_before, fp_after: "?".into(), mx: None },
        Ok(Err(e)) => Obs { phase: st.phase(), out: format!("unparsed:{}", e.replace(' ', "_")), invalid: false, down: Down::Nothing, fp_after: st.fingerprint(), fp_before, mx: st.metrics() },
        Ok(Ok((phase, o))) => {
            let (out, invalid, down) = match &o {
                StepOutcome::Invalid(_) => ("inv".to_string(), true, Down::Nothing),
                StepOutcome::Other => ("oth".into(), false, Down::Nothing),
                StepOutcome::Transition => ("tr".into(), false, Down::Nothing),
                StepOutcome::Aborted => ("aborted".into(), false, Down::Nothing),
                StepOutcome::Routing(u) => { let (s, d) = summarize(u); (s, false, d) }
            };
            Obs { phase, out, invalid, down, fp_after: st.fingerprint(), fp_before, mx: st.metrics() }
        }
    }
}

pub fn show_mx(m: &Option<SmMetrics>) -> String {
    match m {
        None => "{-}".into(),
        Some(m) => format!("{{s{},r{},u{},sf{},hf{},a{},w{},up{},ec{},d{}}}", m.state, m.received_prefixes, m.unknown_peer_msgs,
            m.reparsed_updates, m.unprocessable_msgs, m.announcements, m.withdrawals, m.peers_up, m.peers_up_eor_capable, m.peers_up_dumping),
    }
}
