#!/bin/sh
# Run every claimed check (MANIFEST.json) at the given tier; print one summary line each.
cd "$(dirname "$0")"
TIER=${1:-quick}
rc_all=0
for id in $(python3 -c "import json;print(' '.join(c['property_id'] for c in json.load(open('MANIFEST.json'))['checks']))"); do
  s=$(date +%s)
  out=$(./check $id --tier $TIER 2>&1); rc=$?
  e=$(date +%s)
  echo "== $id rc=$rc $((e-s))s"
  echo "$out" | grep -E "^(KNOWN-FINDING|VIOLATION|  broken|C[0-9]+:)" | cut -c1-260
  [ $rc -ne 0 ] && rc_all=1
done
exit $rc_all
