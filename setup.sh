#!/bin/sh
# Build the framework from files on disk only (offline). Run once after a fresh restore.
# Builds exactly what the claimed checks (checks/C*.json) need: their Lean theorem modules and
# drivers, and their harness engines against /repo with the verif-hooks feature.
set -e
cd "$(dirname "$0")"
export CARGO_NET_OFFLINE=true
TARGETS=$(python3 - <<'PY'
import json, glob
mods, bins = [], []
for p in sorted(glob.glob("checks/C*.json")):
    c = json.load(open(p))
    if not c.get("claimed", True): continue
    mods += c["lean_props"] + ([c["driver"]] if c.get("driver") else [])
    bins.append(c["engine"])
    for t in c.get("extra_ties", []):
        if t.get("driver"): mods.append(t["driver"])
        bins.append(t["engine"])
print(" ".join(dict.fromkeys(mods)) + "|" + " ".join("--bin " + b for b in dict.fromkeys(bins)))
PY
)
LEAN_T=${TARGETS%%|*}
BINS=${TARGETS##*|}
(cd lean && lake build $LEAN_T 2>&1 | tail -3)
(cd harness && cargo build --offline $BINS 2>&1 | grep -E "^error|Finished" | tail -5)
echo "setup done"
