#!/bin/sh
# Build the framework from files on disk only (offline). Run once after a fresh restore.
set -e
cd "$(dirname "$0")"
export CARGO_NET_OFFLINE=true
(cd lean && lake build 2>&1 | tail -3)
(cd harness && cargo build --offline --bins 2>&1 | grep -E "^(error|warning: unused)|Finished" | grep -v "^warning" | tail -5)
echo "setup done"
